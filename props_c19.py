PROPS["C19"] = {
    "level": "exploration",
    "level_text": "TODO",
    "level_note": "TODO",
    "technique": "TODO",
    "rule": "TODO",
    "assumptions": [],
    "parts": [
        opf("paths", ["harness/c19_paths.cpp"], {"cases": 20000, "maxsize": 12}, {"cases": 200000, "maxsize": 30, "workers": 16}),
        opf("files", ["harness/c19_files.cpp"], {"cases": 20000, "maxsize": 30}, {"cases": 200000, "maxsize": 60, "workers": 16}),
        opf("dirs", ["harness/c19_dirs.cpp"], {"cases": 20000, "maxsize": 20}, {"cases": 200000, "maxsize": 40, "workers": 16}),
    ],
}
