# C19  Paths, files and directories behave truthfully and stay inside their tree.
# exec'ed at the end of props.py (opf and PROPS are in scope).
#
# Exclusion flags understood by the three harnesses (ctx.excluded); each removes exactly the triggering pattern:
#   paths: C19-stem-first-dot          getStem / getExtension on a base name with >= 2 dots
#          C19-relative-no-common      getRelativePath on two relative paths that share no first component, or whose target
#                                      consists of the shared first component only (the answer has to climb to the start directory)
#          C19-simplify-root-empty     simplifyPath on a rooted path that denotes the root itself ("/", "/a/..", "/."), and
#                                      getRelativePath(from, to) with rooted from != root and to == root
#   files: C19-rename-placeholder      rename(from, to, failIfExists=true) with a free destination name and a source that is
#                                      missing or a directory (the rename after the placeholder fails)
#          C19-copy-leaves-dest        copy(directory, dest) where dest can be created or truncated
#          C19-copy-self-truncates     copy(file, same file, failIfExists=false)
#          C19-readall-directory       static File::readAll(path of a directory)
#   dirs:  C19-create-returns-true     Directory::create on a path that cannot become a directory (a prefix or the path itself is a
#                                      regular file, a dangling link or a link to a file)
#          C19-dirsonly-skips-dirlinks Directory::open(dir, pattern, dirsOnly=true) when a matching entry is a link to a directory
PROPS["C19"] = {
    "level": "exploration",
    "level_text": "random inputs and operation histories against reference models: (paths) token strings over separators, dots and names against a "
                  "reference lexical normaliser; (files) open/write/read/seek/copy/rename/unlink histories over three File objects against an "
                  "in-memory inode model of a scratch directory that is compared with the real directory (listing, types, contents) after every "
                  "operation; (dirs) Directory::create/unlink/exists/open+read on generated trees with symbolic links leaving the tree, with a "
                  "snapshot of the whole scratch area (tree and an outside sentinel: names, types, contents, link targets) before and after every "
                  "operation; under ASan and the allocation ledger; no exhaustiveness is claimed",
    "level_note": "trusted: the reference normaliser in harness/c19_paths.cpp, the inode model in harness/c19_files.cpp, the path walker and "
                  "snapshot code in harness/c19_dirs.cpp (plain POSIX lstat/stat/readdir/readlink/read, never the library under test), the "
                  "kernel's file-system semantics on the scratch file system (ext4 here), ASan/UBSan, clang 14",
    "technique": "property-based testing of pure functions against a reference normaliser; stateful model-based testing of file and directory "
                 "operations against an in-memory model and full file-system snapshots of a per-worker scratch directory; ddmin shrinking",
    "rule": "opfuzz. paths: 1..size ops per case; a path is 0..10 tokens from {/ \\ . .. a b c.d e.f.g .h x.. ..y c:} (free concatenation, or "
            "separator/name alternation, rooted or not, doubled and trailing separators); getRelativePath pairs share a generated prefix in 4 of 5 "
            "cases; extensions are taken from a table or are a real suffix of the path. Oracles: N(simplify(p)) == N(p), idempotence, simplified "
            "shape; dir + last separator + base == p (no separator: '.', p); getBaseName(p, ext) strips exactly a matching extension; stem + '.' + "
            "ext == base (no dot: base, ''); N(from / getRelativePath(from, to)) == N(to) for both rooted or both relative and no '..' left in "
            "N(from); isAbsolutePath / getAbsolutePath consistent with the working directory. Non-trivial = a simplifyPath input with a '..' that "
            "cancels and one that is kept, or a getRelativePath pair with a common prefix. "
            "files: up to 6 set-up ops (files f0..f3 with contents, directories d0/d1 made with POSIX calls) and 1..size ops from open (all 16 flag "
            "combinations), close, write (buffer and String), read, readAll, seek (3 origins, negative and beyond the end), size, position, "
            "File::copy (30 % of them under an RLIMIT_FSIZE below the source size: must fail and leave neither a new nor a partial destination), File::rename (both failIfExists values), unlink, exists, static readAll, over 8 flat names plus a name below a missing "
            "directory and a name below a regular file. Oracle: every returned byte string, count, position and boolean equals the model's; after "
            "every op the scratch directory equals the model (a new entry, a missing entry, changed contents or type fail at once); descriptor "
            "count unchanged at the end. Non-trivial = a failing operation among >= 3 successful ones. "
            "dirs: 1..12 build ops (mkdir, file, symlink of 8 kinds: absolute/relative, to an outside file, outside directory, the sentinel root, "
            "dangling) and 1..size ops; a path is the tree root or a current entry + 0..3 new names (or '/.', '/..') decorated with absolute "
            "spelling, trailing '/', '//', './', 'x/../'. In 25 % of the create ops the k-th mkdir() of the call loses a race: the --wrap'ped mkdir makes the directory first, the library's own call fails with EEXIST. Oracles: create returns true <=> stat says directory afterwards; if nothing on the way "
            "is a non-directory the directory must exist afterwards and exactly the missing directories were added; unlink returns true and "
            "removes exactly the subtree for an empty directory or with recursive=true, returns false and changes nothing otherwise (non-empty "
            "without recursive, file, link, missing); exists == stat; open/read lists exactly the entries that match the pattern ('*', '?') with "
            "isDir == stat, dirsOnly == the isDir subset; after every op the sentinel and everything else outside the expected change is "
            "byte-identical. Paths that run through a link to a directory denote a place outside the tree and are skipped for create/unlink "
            "(counted); unlink('link/') must fail and change nothing (Linux rmdir does not follow it). Non-trivial = a recursive unlink over a subtree with >= 1 live outside link and >= 2 levels. "
            "distinct = distinct case text (64-bit hash).",
    "assumptions": ["paths are NUL-free; '/' and '\\' are both separators, 'c:' is an ordinary component for the lexical functions",
                    "getRelativePath is only checked where a lexical answer exists (both rooted or both relative, no '..' left in the simplified from)",
                    "read/write/seek/size are never called on a closed File (the closed state is descriptor 0); a zero-length write on a read-only File is unspecified",
                    "File::open(directory, read-only) may succeed or fail (POSIX allows opening a directory); the handle is closed at once and not used",
                    "rename(directory, free name, failIfExists=true) may move the directory or refuse, but may not change anything when it refuses",
                    "a failing Directory::create may leave some of the missing parents behind (mkdir -p semantics)",
                    "a path whose prefix is a symbolic link to a directory denotes the outside directory: skipped for create/unlink; rmdir('link/') fails with ENOTDIR on Linux",
                    "the process runs with permission to modify everything inside its scratch directory; every worker uses <outdir>/scratch only"],
    "parts": [
        opf("paths", ["harness/c19_paths.cpp"], {"cases": 1500000, "maxsize": 12}, {"cases": 15000000, "maxsize": 30, "workers": 16}),
        opf("files", ["harness/c19_files.cpp"], {"cases": 100000, "maxsize": 30}, {"cases": 1000000, "maxsize": 60, "workers": 16}),
        opf("dirs", ["harness/c19_dirs.cpp"], {"cases": 30000, "maxsize": 20}, {"cases": 300000, "maxsize": 40, "workers": 16}, ldflags=["-Wl,--wrap=mkdir"]),
    ],
}
