"""C17 custom part: SHA-256 / HMAC differential against Python's hashlib / hmac."""
import hashlib, hmac, os, subprocess, time, shutil

def unhex(h):
    return b"" if h == "-" else bytes.fromhex(h)

def expected(parts):
    k = parts[0]
    if k == "H":
        return hashlib.sha256(unhex(parts[1])).hexdigest()
    if k == "R":
        return hashlib.sha256(unhex(parts[2])).hexdigest()
    if k == "M":
        return hmac.new(unhex(parts[1]), unhex(parts[2]), hashlib.sha256).hexdigest()
    if k == "L":
        n = int(parts[1]); blk = bytes(range(256)) * 4096; h = hashlib.sha256()
        while n >= len(blk):
            h.update(blk); n -= len(blk)
        h.update(blk[:n])
        return h.hexdigest()
    return None

def near(n):
    return n % 64 in (55, 56, 57, 63, 0, 1)

def nontrivial(parts):
    k = parts[0]
    if k == "H":
        n = len(unhex(parts[1]))
        if near(n):
            return True
        if parts[2] != "-":
            off = 0
            for c in parts[2].split(",")[:-1]:
                off += int(c)
                if near(off):
                    return True
        return False
    if k == "R":
        return near(len(unhex(parts[1]))) or near(len(unhex(parts[2])))
    if k == "M":
        kl = len(unhex(parts[1]))
        return kl in (63, 64, 65) or near(len(unhex(parts[2])))
    if k == "L":
        return True
    return False

def binary(api, prop, part):
    return api.build_bin("C17_sha", ["harness/c17_sha.cpp"], "asan")

def setup(prop, part, api):
    binary(api, prop, part)

def run(prop, part, tier, seed, cfg, findings, api):
    b = binary(api, prop, part)
    wd = api.scratch_dir("C17")
    res = {"evaluations": 0, "distinct_nontrivial": 0, "samples": [], "violations": [], "detail": {}, "inconclusive": []}
    # replay tier
    import glob
    for rp in sorted(glob.glob(os.path.join(api.VERIF, "regress", prop, "sha-*.rec"))):
        if replay(prop, part, rp, api, quiet=True) != 0:
            res["violations"].append({"path": rp, "kind": "digest-mismatch"})
    p = subprocess.Popen([b, "gen", str(seed), tier], stdout=subprocess.PIPE, stderr=subprocess.PIPE, text=True, env=api.env_with())
    kinds = {"H": 0, "R": 0, "M": 0}
    nt = set()
    bad = None
    twoway = 0
    for line in p.stdout:
        parts = line.split()
        if len(parts) < 4:
            continue
        res["evaluations"] += 1
        kinds[parts[0]] = kinds.get(parts[0], 0) + 1
        exp = expected(parts)
        if exp != parts[-1] and bad is None:
            bad = (parts, exp)
        if nontrivial(parts):
            nt.add(hash(line))
            if len(res["samples"]) < 3 and len(line) < 400:
                res["samples"].append(line.strip())
        if parts[0] == "H" and parts[2].count(",") == 1 and len(parts[1]) <= 260:
            twoway += 1
    err = p.stderr.read()
    rc = p.wait()
    if rc != 0:
        path = api.save_failure(prop, "sha", "#prop C17\n#part sha\n#kind crash\n" + "\n".join("# " + l for l in err[-4000:].split("\n")), "crash")
        res["violations"].append({"path": path, "kind": "crash:generator exited with %d" % rc})
        api.log(err[-3000:])
    if bad:
        parts, exp = bad
        d = os.path.join(api.OUTDIR, "failures", prop)
        os.makedirs(d, exist_ok=True)
        path = os.path.join(d, "sha-%s.rec" % hashlib.sha1(" ".join(parts).encode()).hexdigest()[:10])
        with open(path, "w") as f:
            f.write("#prop C17\n#part sha\n#kind digest-mismatch\n#expected %s\n%s\n" % (exp, " ".join(parts[:-1])))
        res["violations"].append({"path": path, "kind": "digest-mismatch: libnstd %s, reference %s" % (parts[-1], exp)})
    res["distinct_nontrivial"] = len(nt)
    res["detail"] = {"engine": "enumeration + differential (hashlib/hmac)", "records": kinds, "exhaustive_subspace": {"all two-way chunkings of lengths 0..130": twoway}}
    shutil.rmtree(wd, ignore_errors=True)
    return res

def replay(prop, part, path, api, quiet=False):
    b = binary(api, prop, part)
    rec = None
    for l in open(path):
        if l.strip() and not l.startswith("#"):
            rec = l.split()
    if not rec:
        return 2
    r = subprocess.run([b, "one"] + rec[:4 if rec[0] not in ("M", "L") else 3], stdout=subprocess.PIPE, stderr=subprocess.STDOUT, text=True, env=api.env_with())
    parts = r.stdout.split()
    ok = r.returncode == 0 and len(parts) >= 4 and expected(parts) == parts[-1]
    if not quiet:
        print(r.stdout[-2000:])
        if not ok:
            print("VIOLATION property=%s replay=%s" % (prop, path))
    return 0 if ok else 1
