// vsched: deterministic user-level scheduler for schedule-quantified properties (C09 threads, C10, C11, C14 interrupt).
// libnstd is compiled with -fsanitize=thread instrumentation but linked against vsched/rt.cpp instead of the TSan
// runtime; pthread / semaphore / clock entry points are interposed with -Wl,--wrap.  Exactly one logical thread runs
// at a time; every volatile access, atomic builtin and synchronisation call is a decision point; time is virtual.
#pragma once
#include <cstdint>

namespace vsched {

enum Strategy { UNIFORM = 0, FEW_PREEMPTIONS = 1, PCT = 2, ROUND_ROBIN = 3 };
enum Verdict { V_OK = 0, V_DEADLOCK = 1, V_STEP_BOUND = 2 };

struct Config {
  uint64_t seed = 1;
  int strategy = UNIFORM;
  long stepBound = 200000;       // decision points per run; exceeding it is "inconclusive"
  int spuriousPercent = 2;       // chance (per scheduling decision) of a spurious condition wake-up, in 1/10 percent
  int earlyTimeoutPercent = 10;  // chance (in 1/10 percent) of firing the earliest pending deadline although threads are runnable
  int eintrPercent = 20;         // chance (in 1/10 percent) that a sem_timedwait returns EINTR
};

struct Stats {
  long decisions = 0, switches = 0, spurious = 0, timeoutsFired = 0, eintr = 0, threads = 0, maxThreads = 0, preemptions = 0;
  long long virtualNs = 0;
  long opsOnDestroyed = 0;
  long interleavedShared = 0;   // operations on an atomic / volatile location directly after another thread's operation on it
  long plainOnShared = 0;       // plain (non-atomic) accesses to a location that is also accessed atomically: decision points as well
};

// Runs fn(arg) as logical thread 0 under the scheduler and returns when every logical thread has finished,
// or ends the process through onVerdict (deadlock / step bound).  onVerdict must not return.
void run(const Config& cfg, void (*fn)(void*), void* arg, void (*onVerdict)(Verdict, const char* detail));

void point(const char* tag = "harness");   // explicit decision point (harness bodies, "function under test" steps)
int self();                                // logical thread id (0 = main), -1 outside the scheduler
long long nowNs();                         // virtual clock
const Stats& stats();
bool active();
void failNextThreadCreations(int n);   // fault injection: the next n pthread_create calls of logical threads fail with EAGAIN
bool blockOn(const void* key, long long timeoutNs);   // for interposed blocking I/O: false = timed out
void wakeAll(const void* key);
// observation hooks for harness invariants (called while holding the baton)
long mutexOwnerDepth(const void* mutex, int* owner);

}  // namespace vsched
