// vsched: interposed epoll_wait / write for the Server::run vs interrupt() race (C14).  The kernel objects stay real; only
// blocking is virtual: epoll_wait polls with time-out 0 and otherwise blocks the logical thread until some write() happened
// (or its time-out passes in virtual time).  Linked with -Wl,--wrap=epoll_wait,--wrap=write,--wrap=eventfd_write,--wrap=send.  Not instrumented.
#include "vsched.hpp"
#include <sys/epoll.h>
#include <sys/eventfd.h>
#include <sys/socket.h>
#include <unistd.h>
extern "C" {
int __real_epoll_wait(int, struct epoll_event*, int, int);
ssize_t __real_write(int, const void*, size_t);
static int g_ioKey;
int __wrap_epoll_wait(int epfd, struct epoll_event* ev, int maxev, int timeout) {
  if (!vsched::active() || vsched::self() < 0) return __real_epoll_wait(epfd, ev, maxev, timeout);
  vsched::point("epoll_wait");
  for (;;) {
    int n = __real_epoll_wait(epfd, ev, maxev, 0);
    if (n != 0) return n;
    if (timeout == 0) return 0;
    if (!vsched::blockOn(&g_ioKey, timeout < 0 ? -1 : (long long)timeout * 1000000LL)) return __real_epoll_wait(epfd, ev, maxev, 0);
  }
}
// other ways to wake a poller that an implementation may choose: eventfd_write (glibc's wrapper around the 8 byte write) and send
int __real_eventfd_write(int, eventfd_t);
ssize_t __real_send(int, const void*, size_t, int);
int __wrap_eventfd_write(int fd, eventfd_t v) {
  if (!vsched::active() || vsched::self() < 0) return __real_eventfd_write(fd, v);
  vsched::point("write");
  int r = __real_eventfd_write(fd, v);
  vsched::wakeAll(&g_ioKey);
  vsched::point("after write");
  return r;
}
ssize_t __wrap_send(int fd, const void* buf, size_t n, int flags) {
  if (!vsched::active() || vsched::self() < 0) return __real_send(fd, buf, n, flags);
  vsched::point("write");
  ssize_t r = __real_send(fd, buf, n, flags);
  vsched::wakeAll(&g_ioKey);
  vsched::point("after write");
  return r;
}
ssize_t __wrap_write(int fd, const void* buf, size_t n) {
  if (!vsched::active() || vsched::self() < 0) return __real_write(fd, buf, n);
  vsched::point("write");
  ssize_t r = __real_write(fd, buf, n);
  vsched::wakeAll(&g_ioKey);
  vsched::point("after write");
  return r;
}
}
