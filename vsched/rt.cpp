// vsched runtime (see vsched.hpp).  Compiled WITHOUT -fsanitize=thread.
#include "vsched.hpp"
#include <pthread.h>
#include <semaphore.h>
#include <errno.h>
#include <time.h>
#include <unistd.h>
#include <sched.h>
#include <cstdio>
#include <cstdlib>
#include <cstring>

extern "C" {
int __real_pthread_create(pthread_t*, const pthread_attr_t*, void* (*)(void*), void*);
int __real_pthread_join(pthread_t, void**);
int __real_sem_init(sem_t*, int, unsigned);
int __real_sem_post(sem_t*);
int __real_sem_wait(sem_t*);
int __real_clock_gettime(clockid_t, struct timespec*);
int __real_usleep(useconds_t);
int __real_nanosleep(const struct timespec*, struct timespec*);
int __real_clock_nanosleep(clockid_t, int, const struct timespec*, struct timespec*);
int __wrap_sem_timedwait(sem_t*, const struct timespec*);
int __real_sched_yield(void);
int __real_pthread_mutex_init(pthread_mutex_t*, const pthread_mutexattr_t*);
int __real_pthread_mutexattr_init(pthread_mutexattr_t*);
int __real_pthread_mutexattr_settype(pthread_mutexattr_t*, int);
int __real_pthread_mutex_lock(pthread_mutex_t*);
int __real_pthread_mutex_trylock(pthread_mutex_t*);
int __real_pthread_mutex_unlock(pthread_mutex_t*);
int __real_pthread_mutex_destroy(pthread_mutex_t*);
int __real_pthread_cond_init(pthread_cond_t*, const pthread_condattr_t*);
int __real_pthread_cond_wait(pthread_cond_t*, pthread_mutex_t*);
int __real_pthread_cond_timedwait(pthread_cond_t*, pthread_mutex_t*, const struct timespec*);
int __real_pthread_cond_signal(pthread_cond_t*);
int __real_pthread_cond_broadcast(pthread_cond_t*);
int __real_pthread_cond_destroy(pthread_cond_t*);
int __real_sem_destroy(sem_t*);
int __real_sem_trywait(sem_t*);
int __real_sem_timedwait(sem_t*, const struct timespec*);
}

static int g_failCreates = 0;   // injected thread-creation failures still to come
namespace vsched {
namespace {

const int MAXT = 128, MAXM = 256, MAXC = 256, MAXS = 256;
enum TState { T_UNUSED = 0, T_RUNNABLE, T_BLOCKED, T_FINISHED };
enum Wait { W_NONE = 0, W_MUTEX, W_COND, W_SEM, W_JOIN, W_SLEEP, W_ALL, W_KEY };

struct T {
  int state = T_UNUSED;
  sem_t go;
  pthread_t real;
  void* (*fn)(void*) = nullptr; void* arg = nullptr; void* ret = nullptr;
  int wait = W_NONE; const void* obj = nullptr; int joinTarget = -1;
  long long deadline = -1; bool timedOut = false; bool joined = false;
  long spin = 0; long spinRun = 0; int prio = 0;
};
struct M { const void* addr = nullptr; int owner = -1; int depth = 0; bool recursive = false; bool destroyed = false; };
struct C { const void* addr = nullptr; bool destroyed = false; };
struct S { const void* addr = nullptr; long count = 0; bool destroyed = false; };

T th[MAXT]; int nth = 0; int cur = -1;
M mx[MAXM]; int nmx = 0;
C cv[MAXC]; int ncv = 0;
S sm[MAXS]; int nsm = 0;
bool g_active = false;
Config cfg; Stats st;
uint64_t rs = 1;
long long vclock = 0;                          // virtual ns since start
const long long EPOCH_S = 1700000000LL;        // base of the virtual CLOCK_REALTIME
void (*g_onVerdict)(Verdict, const char*) = nullptr;
long preemptAt[8]; int npreempt = 0; int stayPerMille = 0;           // FEW_PREEMPTIONS: decision indexes at which to preempt
long pctChange[8]; int npct = 0;
int rrNext = 0;
__thread int tl_id = -1;

bool g_trace = false;
#define TRACE(...) do { if (g_trace) { fprintf(stderr, "[T%d d%ld] ", tl_id, st.decisions); fprintf(stderr, __VA_ARGS__); fprintf(stderr, "\n"); } } while (0)
uint64_t rnd() { rs += 0x9E3779B97F4A7C15ull; uint64_t z = rs; z = (z ^ (z >> 30)) * 0xBF58476D1CE4E5B9ull; z = (z ^ (z >> 27)) * 0x94D049BB133111EBull; return z ^ (z >> 31); }
bool chance1000(int p) { return p > 0 && (int)(rnd() % 1000) < p; }

M* findM(const void* a, bool create = true) {
  for (int i = 0; i < nmx; ++i) if (mx[i].addr == a && !mx[i].destroyed) return &mx[i];
  if (!create) return nullptr;
  for (int i = 0; i < nmx; ++i) if (mx[i].addr == a) { mx[i] = M(); mx[i].addr = a; ++st.opsOnDestroyed; return &mx[i]; }
  if (nmx >= MAXM) { fprintf(stderr, "vsched: too many mutexes\n"); _exit(97); }
  mx[nmx].addr = a; return &mx[nmx++];
}
C* findC(const void* a) {
  for (int i = 0; i < ncv; ++i) if (cv[i].addr == a) { if (cv[i].destroyed) { cv[i].destroyed = false; ++st.opsOnDestroyed; } return &cv[i]; }
  if (ncv >= MAXC) { fprintf(stderr, "vsched: too many condition variables\n"); _exit(97); }
  cv[ncv].addr = a; return &cv[ncv++];
}
S* findS(const void* a) {
  for (int i = 0; i < nsm; ++i) if (sm[i].addr == a) { if (sm[i].destroyed) { sm[i].destroyed = false; ++st.opsOnDestroyed; } return &sm[i]; }
  if (nsm >= MAXS) { fprintf(stderr, "vsched: too many semaphores\n"); _exit(97); }
  sm[nsm].addr = a; return &sm[nsm++];
}

void describe(char* out, size_t n) {
  size_t o = 0;
  for (int i = 0; i < nth && o + 80 < n; ++i) {
    const char* w = th[i].wait == W_MUTEX ? "mutex" : th[i].wait == W_COND ? "condition" : th[i].wait == W_SEM ? "semaphore" : th[i].wait == W_JOIN ? "join" : th[i].wait == W_SLEEP ? "sleep" : th[i].wait == W_ALL ? "end-of-run" : th[i].wait == W_KEY ? "io" : "-";
    if (th[i].state == T_BLOCKED && getenv("VSCHED_DEBUG")) o += (size_t)snprintf(out + o, n - o, "[obj %p] ", th[i].obj);
    o += (size_t)snprintf(out + o, n - o, "T%d:%s%s%s ", i, th[i].state == T_RUNNABLE ? "runnable" : th[i].state == T_BLOCKED ? "blocked on " : th[i].state == T_FINISHED ? "finished" : "?", th[i].state == T_BLOCKED ? w : "", th[i].deadline >= 0 ? "(timed)" : "");
  }
}
[[noreturn]] void verdict(Verdict v, const char* why) {
  char d[700]; size_t o = (size_t)snprintf(d, sizeof d, "%s; ", why); describe(d + o, sizeof d - o);
  g_active = false;
  if (g_onVerdict) g_onVerdict(v, d);
  fprintf(stderr, "vsched verdict %d: %s\n", (int)v, d); _exit(v == V_DEADLOCK ? 98 : 99);
}

// wake every blocked thread whose deadline has passed
void fireDeadlines() {
  for (int i = 0; i < nth; ++i) if (th[i].state == T_BLOCKED && th[i].deadline >= 0 && th[i].deadline <= vclock) { th[i].state = T_RUNNABLE; th[i].timedOut = true; th[i].deadline = -1; ++st.timeoutsFired; }
}
bool advanceToEarliestDeadline() {
  long long best = -1;
  for (int i = 0; i < nth; ++i) if (th[i].state == T_BLOCKED && th[i].deadline >= 0 && (best < 0 || th[i].deadline < best)) best = th[i].deadline;
  if (best < 0) return false;
  if (best > vclock) vclock = best;
  fireDeadlines();
  return true;
}

int pickNext(bool mustSwitch) {
  // generated events: spurious wake-up of a condition waiter, early firing of the earliest deadline
  if (chance1000(cfg.spuriousPercent)) { int c[MAXT], n = 0; for (int i = 0; i < nth; ++i) if (th[i].state == T_BLOCKED && th[i].wait == W_COND) c[n++] = i; if (n) { int k = c[rnd() % (uint64_t)n]; th[k].state = T_RUNNABLE; ++st.spurious; } }
  if (chance1000(cfg.earlyTimeoutPercent)) advanceToEarliestDeadline();
  int r[MAXT], n = 0;
  for (int i = 0; i < nth; ++i) if (th[i].state == T_RUNNABLE) r[n++] = i;
  if (!n) {
    if (!advanceToEarliestDeadline()) {
      bool all = true; for (int i = 0; i < nth; ++i) if (th[i].state != T_FINISHED && !(th[i].state == T_BLOCKED && th[i].wait == W_ALL)) all = false;
      if (all) return -2;  // everything finished
      verdict(V_DEADLOCK, "no runnable thread and no pending deadline");
    }
    for (int i = 0; i < nth; ++i) if (th[i].state == T_RUNNABLE) r[n++] = i;
  }
  bool curRunnable = cur >= 0 && th[cur].state == T_RUNNABLE;
  // fairness: a thread that keeps hitting yield points without progress is put behind the others
  if (curRunnable && th[cur].spin > 64 && n > 1) { th[cur].spin = 0; th[cur].prio -= 1000; mustSwitch = true; }
  if (mustSwitch && n > 1 && curRunnable) { int k; do k = r[rnd() % (uint64_t)n]; while (k == cur); return k; }
  switch (cfg.strategy) {
    case FEW_PREEMPTIONS: {
      bool pre = false; for (int i = 0; i < npreempt; ++i) if (preemptAt[i] == st.decisions) pre = true;
      if (curRunnable && !pre) return cur;
      if (curRunnable && n > 1) { ++st.preemptions; int k; do k = r[rnd() % (uint64_t)n]; while (k == cur); return k; }
      return r[rnd() % (uint64_t)n];
    }
    case PCT: {
      for (int i = 0; i < npct; ++i) if (pctChange[i] == st.decisions && curRunnable) th[cur].prio = -(i + 1);
      int best = r[0]; for (int i = 1; i < n; ++i) if (th[r[i]].prio > th[best].prio) best = r[i];
      return best;
    }
    case ROUND_ROBIN: { for (int q = 0; q < MAXT; ++q) { int k = (rrNext + q) % nth; if (th[k].state == T_RUNNABLE) { rrNext = k + 1; return k; } } return r[0]; }
    default:
      if (curRunnable && stayPerMille && (int)(rnd() % 1000) < stayPerMille) return cur;
      return r[rnd() % (uint64_t)n];
  }
}

void switchTo(int next) {
  int me = tl_id;
  if (next == me) return;
  ++st.switches;
  cur = next;
  __real_sem_post(&th[next].go);
  if (me >= 0 && th[me].state != T_FINISHED) { while (__real_sem_wait(&th[me].go) != 0 && errno == EINTR) {} }
}

// a decision point of the running logical thread
void yieldPoint(bool spinLike = false) {
  if (!g_active || tl_id < 0) return;
  if (++st.decisions > cfg.stepBound) verdict(V_STEP_BOUND, "step bound exceeded");
  if (spinLike) {
    ++th[tl_id].spin;
    // livelock: this thread polls a location again and again while no other thread can run (and no deadline is pending)
    if (++th[tl_id].spinRun > 30000) {
      bool other = false; for (int i = 0; i < nth; ++i) if (i != tl_id && (th[i].state == T_RUNNABLE || (th[i].state == T_BLOCKED && th[i].deadline >= 0))) other = true;
      if (!other) verdict(V_DEADLOCK, "livelock: the only runnable thread keeps polling without progress");
    }
  }
  int next = pickNext(false);
  if (next >= 0) switchTo(next);
}
void progress() { if (tl_id >= 0) { th[tl_id].spin = 0; th[tl_id].spinRun = 0; } }
// which logical thread touched an atomic / volatile location last: consecutive operations by different threads on one
// location are the interleavings the schedule-quantified properties are about
struct Loc { const volatile void* a; int t; }; Loc locs[512]; int nlocs = 0;
// Locations that have been the target of an atomic or volatile access. A plain (non-atomic) read or write of such a location is a
// decision point as well: "counter updated atomically here, plainly there" is the usual shape of a broken reference count, and the
// compiler keeps the loaded value in a register across the instrumentation call in front of the store, so a switch at that call
// splits the read-modify-write exactly like a preemption between the two machine instructions would.
const int ALOC_N = 2048; const volatile void* aloc[ALOC_N]; int alocUsed = 0;
inline bool alocHas(const volatile void* a) {
  unsigned h = (unsigned)(((unsigned long)a >> 3) * 2654435761u) & (ALOC_N - 1);
  for (int k = 0; k < 8; ++k) { const volatile void* e = aloc[(h + (unsigned)k) & (ALOC_N - 1)]; if (e == a) return true; if (!e) return false; }
  return false;
}
inline void alocAdd(const volatile void* a) {
  if (alocUsed > ALOC_N / 2) return;
  unsigned h = (unsigned)(((unsigned long)a >> 3) * 2654435761u) & (ALOC_N - 1);
  for (int k = 0; k < 8; ++k) { const volatile void*& e = aloc[(h + (unsigned)k) & (ALOC_N - 1)]; if (e == a) return; if (!e) { e = a; ++alocUsed; return; } }
}
void plainAccess(void* a) { if (!g_active || tl_id < 0 || !alocUsed || !alocHas(a)) return; ++st.plainOnShared; yieldPoint(); }
void noteShared(const volatile void* a) {
  if (!g_active || tl_id < 0) return;
  alocAdd(a);
  for (int i = 0; i < nlocs; ++i) if (locs[i].a == a) { if (locs[i].t != tl_id) { ++st.interleavedShared; locs[i].t = tl_id; } return; }
  if (nlocs < 512) { locs[nlocs].a = a; locs[nlocs].t = tl_id; ++nlocs; }
}

// block the running thread (its state has been set to T_BLOCKED by the caller) until somebody makes it runnable
void blockHere() {
  int me = tl_id;
  for (;;) {
    int next = pickNext(false);
    if (next == -2) verdict(V_DEADLOCK, "blocked thread but everything else finished");
    if (next == me) return;   // became runnable again (deadline / spurious wake-up)
    switchTo(next);
    if (th[me].state == T_RUNNABLE) return;
  }
}

void* trampoline(void* p) {
  int id = (int)(long)p;
  while (__real_sem_wait(&th[id].go) != 0 && errno == EINTR) {}
  tl_id = id;
  th[id].ret = th[id].fn(th[id].arg);
  TRACE("thread_finish");
  // finished: wake joiners, hand the baton on
  th[id].state = T_FINISHED; --st.threads;
  for (int i = 0; i < nth; ++i) if (th[i].state == T_BLOCKED && th[i].wait == W_JOIN && th[i].joinTarget == id) th[i].state = T_RUNNABLE;
  int next = pickNext(false);
  tl_id = -1;
  if (next == -2) { for (int i = 0; i < nth; ++i) if (th[i].state == T_BLOCKED && th[i].wait == W_ALL) { th[i].state = T_RUNNABLE; next = i; } }
  if (next >= 0) { cur = next; ++st.switches; __real_sem_post(&th[next].go); }
  return nullptr;
}

// absolute time -> virtual ns; a deadline more than 100 virtual years away ("practically infinite" time-outs such as INT64_MAX ms) would
// overflow the ns counter: it is treated as no deadline at all (-1), like an untimed wait
const long long FAR_S = 100LL * 365 * 86400;
bool farFuture(const struct timespec* ts) { return (long long)ts->tv_sec - EPOCH_S > FAR_S; }
bool invalidTs(const struct timespec* ts) { return ts->tv_nsec < 0 || ts->tv_nsec >= 1000000000L; }
long long toNs(const struct timespec* ts) { long long s = (long long)ts->tv_sec - EPOCH_S; if (s < 0) return 0; if (s > FAR_S) s = FAR_S; return s * 1000000000LL + ts->tv_nsec; }

void lockMutex(M* m) {
  int me = tl_id;
  for (;;) {
    if (m->owner < 0) { m->owner = me; m->depth = 1; return; }
    if (m->owner == me && m->recursive) { ++m->depth; return; }
    th[me].state = T_BLOCKED; th[me].wait = W_MUTEX; th[me].obj = m->addr; th[me].deadline = -1;
    blockHere();
    th[me].wait = W_NONE;
  }
}
void unlockMutexFully(M* m, int* savedDepth) {
  if (savedDepth) *savedDepth = m->depth;
  m->owner = -1; m->depth = 0;
  for (int i = 0; i < nth; ++i) if (th[i].state == T_BLOCKED && th[i].wait == W_MUTEX && th[i].obj == m->addr) th[i].state = T_RUNNABLE;
}

int condWait(pthread_cond_t* c, pthread_mutex_t* mu, const struct timespec* abs) {
  // a preemption between the caller's test of its predicate and the wait: harmless when the predicate is only changed under the
  // mutex (which the caller still holds here), a lost wake-up when it is not
  if (abs && invalidTs(abs)) return EINVAL;
  if (abs && farFuture(abs)) abs = nullptr;   // never reached in any run: an untimed wait
  yieldPoint();
  int me = tl_id; C* cc = findC(c); (void)cc; M* m = findM(mu);
  TRACE("cond_wait %p%s", (void*)c, abs ? " (timed)" : "");
  int depth = 1;
  if (m->owner == me) unlockMutexFully(m, &depth);
  th[me].state = T_BLOCKED; th[me].wait = W_COND; th[me].obj = c; th[me].timedOut = false;
  th[me].deadline = abs ? toNs(abs) : -1;
  if (abs && th[me].deadline <= vclock) { th[me].state = T_RUNNABLE; th[me].timedOut = true; th[me].deadline = -1; }
  else blockHere();
  th[me].wait = W_NONE; th[me].deadline = -1;
  bool to = th[me].timedOut; th[me].timedOut = false;
  TRACE("cond_wake %p%s", (void*)c, to ? " timeout" : "");
  lockMutex(m); m->depth = depth;
  progress();
  return to ? ETIMEDOUT : 0;
}

}  // namespace

// generic blocking for interposed I/O calls (vsched/rt_io.cpp): wait until wakeAll(key) or until the time-out passes
bool blockOn(const void* key, long long timeoutNs) {
  if (!g_active || tl_id < 0) return true;
  int me = tl_id;
  th[me].state = T_BLOCKED; th[me].wait = W_KEY; th[me].obj = key; th[me].timedOut = false; th[me].deadline = timeoutNs >= 0 ? vclock + timeoutNs : -1;
  blockHere();
  th[me].wait = W_NONE; th[me].deadline = -1;
  bool to = th[me].timedOut; th[me].timedOut = false; progress();
  return !to;
}
void wakeAll(const void* key) {
  if (!g_active) return;
  for (int i = 0; i < nth; ++i) if (th[i].state == T_BLOCKED && th[i].wait == W_KEY && th[i].obj == key) { th[i].state = T_RUNNABLE; th[i].deadline = -1; }
}
bool active() { return g_active; }
void failNextThreadCreations(int n) { g_failCreates = n; }
int self() { return tl_id; }
long long nowNs() { return vclock; }
const Stats& stats() { st.virtualNs = vclock; return st; }
void point(const char*) { yieldPoint(false); }
long mutexOwnerDepth(const void* mutex, int* owner) { M* m = findM(mutex, false); if (!m) { if (owner) *owner = -1; return 0; } if (owner) *owner = m->owner; return m->depth; }

void run(const Config& c, void (*fn)(void*), void* arg, void (*onVerdict)(Verdict, const char*)) {
  g_trace = getenv("VSCHED_TRACE") != nullptr;
  cfg = c; st = Stats(); rs = c.seed * 0x9E3779B97F4A7C15ull + 1; g_onVerdict = onVerdict;
  vclock = (long long)(rnd() % 1000) * 1000000LL + (long long)(rnd() % 1000000);   // random phase within the second (deadline arithmetic has carries)
  nth = 0; nmx = ncv = nsm = 0; rrNext = 0; nlocs = 0; g_failCreates = 0; memset((void*)aloc, 0, sizeof aloc); alocUsed = 0;
  for (int i = 0; i < MAXT; ++i) th[i] = T();
  // the few preemption / priority change points lie within a horizon drawn per run (short runs and long scenarios both get
  // their share), and the uniform strategy keeps the running thread with a per-run probability (runs of different lengths)
  static const long HORIZON[] = {100, 400, 2000, 10000}; long horizon = HORIZON[rnd() % 4];
  npreempt = (int)(rnd() % 6); for (int i = 0; i < npreempt; ++i) preemptAt[i] = (long)(rnd() % (uint64_t)horizon);
  npct = (int)(rnd() % 6); for (int i = 0; i < npct; ++i) pctChange[i] = (long)(rnd() % (uint64_t)horizon);
  static const int STAY[] = {0, 0, 500, 800, 950}; stayPerMille = STAY[rnd() % 5];
  th[0].state = T_RUNNABLE; th[0].prio = (int)(rnd() % 1000); __real_sem_init(&th[0].go, 0, 0); nth = 1; st.threads = 1; st.maxThreads = 1;
  tl_id = 0; cur = 0; g_active = true;
  fn(arg);
  // wait until every other logical thread has finished
  bool others = false; for (int i = 1; i < nth; ++i) if (th[i].state != T_FINISHED) others = true;
  if (others) { th[0].state = T_BLOCKED; th[0].wait = W_ALL; th[0].deadline = -1; blockHere(); }
  g_active = false; tl_id = -1;
  for (int i = 1; i < nth; ++i) if (!th[i].joined) __real_pthread_join(th[i].real, nullptr);
}

}  // namespace vsched

using namespace vsched;

// ------------------------------------------------------------------------------------------------ interposed entry points
extern "C" {

int __wrap_pthread_create(pthread_t* t, const pthread_attr_t* a, void* (*fn)(void*), void* arg) {
  if (!g_active || tl_id < 0) return __real_pthread_create(t, a, fn, arg);
  if (g_failCreates > 0) {   // injected fault: no thread can be created now; like glibc, the handle has been written before the failure is known
    --g_failCreates; *t = (pthread_t)0x5a5a5a5a5a5a5a50ULL; yieldPoint(); return EAGAIN;
  }
  if (nth >= MAXT) { fprintf(stderr, "vsched: too many threads\n"); _exit(97); }
  int id = nth++;
  th[id] = T(); th[id].state = T_RUNNABLE; th[id].fn = fn; th[id].arg = arg; th[id].prio = (int)(rnd() % 1000);
  __real_sem_init(&th[id].go, 0, 0);
  ++st.threads; if (st.threads > st.maxThreads) st.maxThreads = st.threads;
  int rc = __real_pthread_create(&th[id].real, a, trampoline, (void*)(long)id);
  if (rc) { th[id].state = T_UNUSED; --nth; return rc; }
  *t = th[id].real;
  TRACE("thread_create T%d handle %lx", id, (unsigned long)th[id].real);
  yieldPoint(); progress();
  return 0;
}
int __wrap_pthread_join(pthread_t t, void** ret) {
  if (!g_active || tl_id < 0) return __real_pthread_join(t, ret);
  int id = -1; for (int i = 0; i < nth; ++i) if (th[i].state != T_UNUSED && pthread_equal(th[i].real, t) && i > 0) id = i;
  if (id < 0) return __real_pthread_join(t, ret);
  yieldPoint();
  int me = tl_id;
  TRACE("join T%d handle %lx%s", id, (unsigned long)t, th[id].state == T_FINISHED ? " (finished)" : "");
  while (th[id].state != T_FINISHED) { th[me].state = T_BLOCKED; th[me].wait = W_JOIN; th[me].joinTarget = id; th[me].deadline = -1; blockHere(); th[me].wait = W_NONE; }
  __real_pthread_join(t, nullptr); th[id].joined = true;
  if (ret) *ret = th[id].ret;
  progress();
  return 0;
}
int __wrap_sched_yield(void) { if (!g_active || tl_id < 0) return __real_sched_yield(); yieldPoint(true); return 0; }
int __wrap_usleep(useconds_t us) {
  if (!g_active || tl_id < 0) return __real_usleep(us);
  int me = tl_id; th[me].state = T_BLOCKED; th[me].wait = W_SLEEP; th[me].deadline = vclock + (long long)us * 1000; th[me].timedOut = false;
  blockHere(); th[me].wait = W_NONE; th[me].deadline = -1; th[me].timedOut = false;
  return 0;
}
// every wall / monotonic clock of the process is the one virtual clock (CPU-time clocks stay real)
static inline bool isTimeClock(clockid_t id) {
  return id == CLOCK_REALTIME || id == CLOCK_MONOTONIC || id == CLOCK_MONOTONIC_RAW || id == CLOCK_REALTIME_COARSE || id == CLOCK_MONOTONIC_COARSE || id == CLOCK_BOOTTIME;
}
// other ways to sleep and to wait with a deadline that an implementation may choose: all in virtual time
int __wrap_nanosleep(const struct timespec* req, struct timespec* rem) {
  if (!g_active || tl_id < 0) return __real_nanosleep(req, rem);
  long long ns = (long long)req->tv_sec * 1000000000LL + req->tv_nsec;
  int me = tl_id; th[me].state = T_BLOCKED; th[me].wait = W_SLEEP; th[me].deadline = vclock + ns; th[me].timedOut = false;
  blockHere(); th[me].wait = W_NONE; th[me].deadline = -1; th[me].timedOut = false;
  if (rem) { rem->tv_sec = 0; rem->tv_nsec = 0; }
  return 0;
}
int __wrap_clock_nanosleep(clockid_t id, int flags, const struct timespec* req, struct timespec* rem) {
  if (!g_active || tl_id < 0 || !isTimeClock(id)) return __real_clock_nanosleep(id, flags, req, rem);
  if (flags & TIMER_ABSTIME) { long long dl = toNs(req); int me = tl_id; if (dl > vclock) { th[me].state = T_BLOCKED; th[me].wait = W_SLEEP; th[me].deadline = dl; th[me].timedOut = false; blockHere(); th[me].wait = W_NONE; th[me].deadline = -1; th[me].timedOut = false; } return 0; }
  return __wrap_nanosleep(req, rem);
}
int __wrap_pthread_cond_clockwait(pthread_cond_t* c, pthread_mutex_t* m, clockid_t, const struct timespec* ts) {
  if (!g_active || tl_id < 0) return __real_pthread_cond_timedwait(c, m, ts);
  return condWait(c, m, ts);
}
int __wrap_sem_clockwait(sem_t* s, clockid_t, const struct timespec* ts) { if (!g_active || tl_id < 0) return __real_sem_timedwait(s, ts); return __wrap_sem_timedwait(s, ts); }
int __wrap_clock_gettime(clockid_t id, struct timespec* ts) {
  if (!g_active || tl_id < 0 || !isTimeClock(id)) return __real_clock_gettime(id, ts);
  vclock += 1000;  // reading the clock takes a microsecond of virtual time (busy waits on the clock make progress)
  // now and then the reading falls exactly on a whole millisecond (deadline arithmetic has its boundary cases where the nanoseconds are round)
  if (chance1000(125)) vclock += (1000000LL - vclock % 1000000LL) % 1000000LL;
  long long t = vclock;
  // the _COARSE clocks stand still between two timer ticks (4 ms): they lag behind the precise clocks by up to a tick
  if (id == CLOCK_REALTIME_COARSE || id == CLOCK_MONOTONIC_COARSE) t -= t % 4000000LL;
  ts->tv_sec = (time_t)(EPOCH_S + t / 1000000000LL); ts->tv_nsec = (long)(t % 1000000000LL);
  return 0;
}

// attribute objects may be shared between constructing threads: their initialisation is a scheduling point as well
int __wrap_pthread_mutexattr_init(pthread_mutexattr_t* a) { if (g_active && tl_id >= 0) yieldPoint(); return __real_pthread_mutexattr_init(a); }
int __wrap_pthread_mutexattr_settype(pthread_mutexattr_t* a, int k) { if (g_active && tl_id >= 0) yieldPoint(); return __real_pthread_mutexattr_settype(a, k); }
int __wrap_pthread_mutex_init(pthread_mutex_t* m, const pthread_mutexattr_t* a) {
  if (g_active && tl_id >= 0) yieldPoint();
  int rc = __real_pthread_mutex_init(m, a);
  if (!g_active) return rc;
  M* mm = findM(m, false); if (mm) mm->destroyed = true;
  mm = findM(m); mm->recursive = false;
  if (a) { int k = 0; if (pthread_mutexattr_gettype(a, &k) == 0 && k == PTHREAD_MUTEX_RECURSIVE) mm->recursive = true; }
  return rc;
}
int __wrap_pthread_mutex_destroy(pthread_mutex_t* m) { if (g_active) { M* mm = findM(m, false); if (mm) mm->destroyed = true; } return __real_pthread_mutex_destroy(m); }
int __wrap_pthread_mutex_lock(pthread_mutex_t* m) {
  if (!g_active || tl_id < 0) return __real_pthread_mutex_lock(m);
  yieldPoint(); lockMutex(findM(m)); TRACE("mutex_locked %p", (void*)m); progress(); return 0;
}
int __wrap_pthread_mutex_trylock(pthread_mutex_t* m) {
  if (!g_active || tl_id < 0) return __real_pthread_mutex_trylock(m);
  yieldPoint(true);
  M* mm = findM(m); int me = tl_id;
  if (mm->owner < 0) { mm->owner = me; mm->depth = 1; progress(); return 0; }
  if (mm->owner == me && mm->recursive) { ++mm->depth; progress(); return 0; }
  return EBUSY;
}
int __wrap_pthread_mutex_unlock(pthread_mutex_t* m) {
  if (!g_active || tl_id < 0) return __real_pthread_mutex_unlock(m);
  M* mm = findM(m);
  if (mm->owner != tl_id) return EPERM;
  if (--mm->depth == 0) unlockMutexFully(mm, nullptr);
  TRACE("mutex_unlock %p", (void*)m);
  progress(); yieldPoint();
  return 0;
}
int __wrap_pthread_cond_init(pthread_cond_t* c, const pthread_condattr_t* a) { if (g_active) findC(c); return __real_pthread_cond_init(c, a); }
int __wrap_pthread_cond_destroy(pthread_cond_t* c) { if (g_active) findC(c)->destroyed = true; return __real_pthread_cond_destroy(c); }
int __wrap_pthread_cond_wait(pthread_cond_t* c, pthread_mutex_t* m) {
  if (!g_active || tl_id < 0) return __real_pthread_cond_wait(c, m);
  return condWait(c, m, nullptr);
}
int __wrap_pthread_cond_timedwait(pthread_cond_t* c, pthread_mutex_t* m, const struct timespec* ts) {
  if (!g_active || tl_id < 0) return __real_pthread_cond_timedwait(c, m, ts);
  return condWait(c, m, ts);
}
int __wrap_pthread_cond_signal(pthread_cond_t* c) {
  if (!g_active || tl_id < 0) return __real_pthread_cond_signal(c);
  findC(c);
  int w[MAXT], n = 0; for (int i = 0; i < nth; ++i) if (th[i].state == T_BLOCKED && th[i].wait == W_COND && th[i].obj == c) w[n++] = i;
  TRACE("cond_signal %p waiters=%d", (void*)c, n);
  if (n) { int k = w[rnd() % (uint64_t)n]; th[k].state = T_RUNNABLE; th[k].deadline = -1; }
  progress(); yieldPoint();
  return 0;
}
int __wrap_pthread_cond_broadcast(pthread_cond_t* c) {
  if (!g_active || tl_id < 0) return __real_pthread_cond_broadcast(c);
  findC(c);
  TRACE("cond_broadcast %p", (void*)c);
  for (int i = 0; i < nth; ++i) if (th[i].state == T_BLOCKED && th[i].wait == W_COND && th[i].obj == c) { th[i].state = T_RUNNABLE; th[i].deadline = -1; }
  progress(); yieldPoint();
  return 0;
}

int __wrap_sem_init(sem_t* s, int sh, unsigned v) { int rc = __real_sem_init(s, sh, v); if (g_active) { S* ss = findS(s); ss->count = v; ss->destroyed = false; } return rc; }
int __wrap_sem_destroy(sem_t* s) { if (g_active) findS(s)->destroyed = true; return __real_sem_destroy(s); }
int __wrap_sem_post(sem_t* s) {
  if (!g_active || tl_id < 0) return __real_sem_post(s);
  S* ss = findS(s); ++ss->count;
  int w[MAXT], n = 0; for (int i = 0; i < nth; ++i) if (th[i].state == T_BLOCKED && th[i].wait == W_SEM && th[i].obj == s) w[n++] = i;
  if (n) { int k = w[rnd() % (uint64_t)n]; th[k].state = T_RUNNABLE; }
  progress(); yieldPoint();
  return 0;
}
static int semWait(sem_t* s, const struct timespec* abs) {
  if (abs && invalidTs(abs)) { errno = EINVAL; return -1; }
  if (abs && farFuture(abs)) abs = nullptr;
  int me = tl_id; S* ss = findS(s);
  yieldPoint();
  for (;;) {
    if (ss->count > 0) { --ss->count; progress(); return 0; }
    if (chance1000(cfg.eintrPercent)) { ++st.eintr; errno = EINTR; return -1; }   // (a signal handler may interrupt the untimed sem_wait as well)
    th[me].state = T_BLOCKED; th[me].wait = W_SEM; th[me].obj = s; th[me].timedOut = false; th[me].deadline = abs ? toNs(abs) : -1;
    if (abs && th[me].deadline <= vclock) { th[me].state = T_RUNNABLE; th[me].timedOut = true; }
    else blockHere();
    th[me].wait = W_NONE; th[me].deadline = -1;
    if (th[me].timedOut) { th[me].timedOut = false; if (ss->count > 0) continue; errno = ETIMEDOUT; return -1; }
  }
}
int __wrap_sem_wait(sem_t* s) { if (!g_active || tl_id < 0) return __real_sem_wait(s); return semWait(s, nullptr); }
int __wrap_sem_timedwait(sem_t* s, const struct timespec* ts) { if (!g_active || tl_id < 0) return __real_sem_timedwait(s, ts); return semWait(s, ts); }
int __wrap_sem_trywait(sem_t* s) {
  if (!g_active || tl_id < 0) return __real_sem_trywait(s);
  yieldPoint(true);
  S* ss = findS(s); if (ss->count > 0) { --ss->count; progress(); return 0; }
  errno = EAGAIN; return -1;
}

// ------------------------------------------------------------------------------------------------ TSan call-backs
void __tsan_init(void) {}
void __tsan_func_entry(void*) {}
void __tsan_func_exit(void) {}
void __tsan_ignore_thread_begin(void) {}
void __tsan_ignore_thread_end(void) {}
void __tsan_vptr_update(void**, void*) {}
void __tsan_vptr_read(void**) {}
void __tsan_read_range(void*, unsigned long) {}
void __tsan_write_range(void*, unsigned long) {}
#define PLAIN(N) void __tsan_read##N(void* a) { plainAccess(a); } void __tsan_write##N(void* a) { plainAccess(a); } void __tsan_unaligned_read##N(void*) {} void __tsan_unaligned_write##N(void*) {} \
  void __tsan_volatile_read##N(void* a) { noteShared(a); yieldPoint(true); } void __tsan_volatile_write##N(void* a) { noteShared(a); yieldPoint(); progress(); } \
  void __tsan_unaligned_volatile_read##N(void*) { yieldPoint(true); } void __tsan_unaligned_volatile_write##N(void*) { yieldPoint(); progress(); }
PLAIN(1) PLAIN(2) PLAIN(4) PLAIN(8) PLAIN(16)
void __tsan_read_write1(void* a) { plainAccess(a); } void __tsan_read_write2(void* a) { plainAccess(a); } void __tsan_read_write4(void* a) { plainAccess(a); } void __tsan_read_write8(void* a) { plainAccess(a); } void __tsan_read_write16(void*) {}
void* __tsan_memcpy(void* d, const void* s, unsigned long n) { return memcpy(d, s, n); }
void* __tsan_memmove(void* d, const void* s, unsigned long n) { return memmove(d, s, n); }
void* __tsan_memset(void* d, int c, unsigned long n) { return memset(d, c, n); }

#define ATOMIC(N, TY) \
  TY __tsan_atomic##N##_load(const volatile TY* a, int) { noteShared(a); yieldPoint(true); return *a; } \
  void __tsan_atomic##N##_store(volatile TY* a, TY v, int) { noteShared(a); yieldPoint(); *a = v; progress(); yieldPoint(); } \
  TY __tsan_atomic##N##_exchange(volatile TY* a, TY v, int) { noteShared(a); yieldPoint(true); TY o = *a; *a = v; yieldPoint(); return o; } \
  TY __tsan_atomic##N##_fetch_add(volatile TY* a, TY v, int) { noteShared(a); yieldPoint(); TY o = *a; *a = (TY)(o + v); progress(); yieldPoint(); return o; } \
  TY __tsan_atomic##N##_fetch_sub(volatile TY* a, TY v, int) { noteShared(a); yieldPoint(); TY o = *a; *a = (TY)(o - v); progress(); yieldPoint(); return o; } \
  TY __tsan_atomic##N##_fetch_and(volatile TY* a, TY v, int) { noteShared(a); yieldPoint(); TY o = *a; *a = (TY)(o & v); progress(); yieldPoint(); return o; } \
  TY __tsan_atomic##N##_fetch_or(volatile TY* a, TY v, int) { noteShared(a); yieldPoint(); TY o = *a; *a = (TY)(o | v); progress(); yieldPoint(); return o; } \
  TY __tsan_atomic##N##_fetch_xor(volatile TY* a, TY v, int) { noteShared(a); yieldPoint(); TY o = *a; *a = (TY)(o ^ v); progress(); yieldPoint(); return o; } \
  TY __tsan_atomic##N##_fetch_nand(volatile TY* a, TY v, int) { noteShared(a); yieldPoint(); TY o = *a; *a = (TY)~(o & v); progress(); yieldPoint(); return o; } \
  int __tsan_atomic##N##_compare_exchange_strong(volatile TY* a, TY* c, TY v, int, int) { noteShared(a); yieldPoint(true); TY o = *a; if (o == *c) { *a = v; progress(); yieldPoint(); return 1; } *c = o; return 0; } \
  int __tsan_atomic##N##_compare_exchange_weak(volatile TY* a, TY* c, TY v, int, int) { noteShared(a); yieldPoint(true); TY o = *a; if (o == *c) { *a = v; progress(); yieldPoint(); return 1; } *c = o; return 0; } \
  TY __tsan_atomic##N##_compare_exchange_val(volatile TY* a, TY c, TY v, int, int) { noteShared(a); yieldPoint(true); TY o = *a; if (o == c) { *a = v; progress(); yieldPoint(); } return o; }
ATOMIC(8, unsigned char) ATOMIC(16, unsigned short) ATOMIC(32, unsigned int) ATOMIC(64, unsigned long)
void __tsan_atomic_thread_fence(int) { yieldPoint(); }
void __tsan_atomic_signal_fence(int) {}

}  // extern "C"
