// Support for libFuzzer targets with a semantic oracle inside the target:
//  - per-execution allocation counter (operator new) to turn run-away loops into a deterministic failure,
//  - labels / non-trivial input hashes / samples, flushed to $PBT_STATS at exit and before every trap,
//  - fuzz::fail("...") prints "ORACLE: ..." and traps (the saved artifact is the replay file),
//  - exclusion flags of open known findings via $PBT_EXCLUDE.
#pragma once
#include <cstdint>
#include <cstdio>
#include <cstdlib>
#include <cstring>
#include <string>
#include <map>
#include <set>
#include <vector>
#include <cstdarg>
#include <new>

namespace fuzz {
struct State {
  uint64_t execs = 0;
  std::map<std::string, uint64_t> labels;
  std::set<uint64_t> hashes;
  std::vector<std::string> samples;
  std::set<std::string> exclude;
  uint64_t allocs = 0;         // allocations in the current execution
  bool counting = false;
  bool inited = false;
};
inline State& st() { static State* s = nullptr; if (!s) { void* m = malloc(sizeof(State)); s = new (m) State; } return *s; }

inline uint64_t fnv(const uint8_t* d, size_t n) { uint64_t h = 1469598103934665603ull; for (size_t i = 0; i < n; ++i) { h ^= d[i]; h *= 1099511628211ull; } return h; }

inline void flush() {
  const char* p = getenv("PBT_STATS");
  if (!p) return;
  State& s = st();
  bool c = s.counting; s.counting = false;
  FILE* f = fopen(p, "w");
  if (f) {
    fprintf(f, "{\"execs\":%llu,\"labels\":{", (unsigned long long)s.execs);
    bool first = true;
    for (auto& l : s.labels) { fprintf(f, "%s\"%s\":%llu", first ? "" : ",", l.first.c_str(), (unsigned long long)l.second); first = false; }
    fprintf(f, "},\"hashes\":[");
    first = true; size_t n = 0;
    for (uint64_t h : s.hashes) { if (++n > 200000) break; fprintf(f, "%s%llu", first ? "" : ",", (unsigned long long)(h >> 11)); first = false; }
    fprintf(f, "],\"samples\":[");
    first = true;
    for (auto& x : s.samples) {
      fprintf(f, "%s\"", first ? "" : ","); first = false;
      for (unsigned char ch : x) { if (ch == '"' || ch == '\\') fprintf(f, "\\%c", ch); else if (ch < 0x20 || ch >= 0x7f) fprintf(f, "\\u%04x", ch); else fputc(ch, f); }
      fputc('"', f);
    }
    fprintf(f, "]}\n");
    fclose(f);
  }
  s.counting = c;
}
inline void init() {
  State& s = st();
  if (s.inited) return;
  s.inited = true;
  if (const char* e = getenv("PBT_EXCLUDE")) { std::string x = e; size_t i = 0; while (i < x.size()) { size_t j = x.find(',', i); if (j == std::string::npos) j = x.size(); if (j > i) s.exclude.insert(x.substr(i, j - i)); i = j + 1; } }
  atexit(flush);
}
inline bool excluded(const char* flag) { return st().exclude.count(flag) != 0; }
inline void label(const char* l) { bool c = st().counting; st().counting = false; st().labels[l]++; st().counting = c; }
inline void nontrivial(const uint8_t* d, size_t n) {
  State& s = st(); bool c = s.counting; s.counting = false;
  if (s.hashes.size() < 500000) s.hashes.insert(fnv(d, n));
  if (s.samples.size() < 3 && n < 300) s.samples.emplace_back((const char*)d, n);
  s.counting = c;
}
[[noreturn]] inline void fail(const char* fmt, ...) {
  st().counting = false;
  char b[600]; va_list ap; va_start(ap, fmt); vsnprintf(b, sizeof b, fmt, ap); va_end(ap);
  fprintf(stderr, "ORACLE: %s\n", b);
  flush();
  __builtin_trap();
}
// begin / end of the instrumented region of one execution
inline void begin(uint64_t allocLimit) { State& s = st(); init(); ++s.execs; s.allocs = 0; s.counting = true; (void)allocLimit; }
inline void end() { st().counting = false; }
extern uint64_t g_allocLimit;
}  // namespace fuzz

#ifdef FUZZ_MAIN
namespace fuzz { uint64_t g_allocLimit = ~0ull; }
static inline void* fz_alloc(size_t n) {
  fuzz::State& s = fuzz::st();
  if (s.counting && ++s.allocs > fuzz::g_allocLimit) fuzz::fail("allocation bound exceeded: more than %llu allocations for this input (run-away loop)", (unsigned long long)fuzz::g_allocLimit);
  void* p = malloc(n ? n : 1);
  if (!p) abort();
  return p;
}
void* operator new(size_t n) { return fz_alloc(n); }
void* operator new[](size_t n) { return fz_alloc(n); }
void* operator new(size_t n, const std::nothrow_t&) noexcept { return fz_alloc(n); }
void* operator new[](size_t n, const std::nothrow_t&) noexcept { return fz_alloc(n); }
void operator delete(void* p) noexcept { free(p); }
void operator delete[](void* p) noexcept { free(p); }
void operator delete(void* p, size_t) noexcept { free(p); }
void operator delete[](void* p, size_t) noexcept { free(p); }
#endif
