// opfuzz: a small stateful property-based testing engine.
//
// A case is a list of operations (text, one per line).  Harnesses provide a
// generator (PRNG -> case) and a *total* interpreter (every op list is
// executable) that runs the case against the real libnstd object(s) and a
// reference model in lock-step.  Any failure (model mismatch, sanitizer abort,
// signal, alarm) leaves the case text in <out>/fail.case, which is the replay
// file; shrinking is done by the driver (verif.py) through --replay.
//
// No entropy other than (seed, case index).  No wall clock inside properties.
#pragma once
#include <cstdint>
#include <cstdio>
#include <cstdlib>
#include <cstring>
#include <string>
#include <vector>
#include <map>
#include <set>
#include <unordered_set>
#include <algorithm>
#include <csignal>
#include <unistd.h>
#include <fcntl.h>
#include <ctime>

namespace pbt {

// ---------------------------------------------------------------- rng
struct Rng {
  uint64_t s;
  explicit Rng(uint64_t seed = 0) : s(seed) {}
  uint64_t next() {
    uint64_t z = (s += 0x9E3779B97F4A7C15ull);
    z = (z ^ (z >> 30)) * 0xBF58476D1CE4E5B9ull;
    z = (z ^ (z >> 27)) * 0x94D049BB133111EBull;
    return z ^ (z >> 31);
  }
  // uniform in [0,n)
  uint64_t below(uint64_t n) { return n ? next() % n : 0; }
  long range(long lo, long hi) { return hi <= lo ? lo : lo + (long)below((uint64_t)(hi - lo + 1)); }
  bool chance(int percent) { return (int)below(100) < percent; }
  template <class T> const T& pick(const std::vector<T>& v) { return v[below(v.size())]; }
  // weighted choice: returns index
  int weighted(const int* w, int n) {
    long tot = 0; for (int i = 0; i < n; ++i) tot += w[i];
    long r = (long)below((uint64_t)tot);
    for (int i = 0; i < n; ++i) { if (r < w[i]) return i; r -= w[i]; }
    return n - 1;
  }
};
inline uint64_t mix64(uint64_t a, uint64_t b) { Rng r(a * 0x9E3779B97F4A7C15ull + b); r.next(); return r.next(); }
inline uint64_t fnv(const std::string& s) { uint64_t h = 1469598103934665603ull; for (unsigned char c : s) { h ^= c; h *= 1099511628211ull; } return h; }

// ---------------------------------------------------------------- case
struct Op {
  std::string name;
  long a[4] = {0, 0, 0, 0};
  std::string data;  // raw bytes
  Op() {}
  Op(const char* n, long a0 = 0, long a1 = 0, long a2 = 0, long a3 = 0, std::string d = std::string()) : name(n), data(std::move(d)) { a[0] = a0; a[1] = a1; a[2] = a2; a[3] = a3; }
};

struct Case {
  std::map<std::string, long> params;
  std::vector<Op> ops;
  long param(const char* n, long dflt = 0) const { auto it = params.find(n); return it == params.end() ? dflt : it->second; }
  void add(const char* n, long a0 = 0, long a1 = 0, long a2 = 0, long a3 = 0, std::string d = std::string()) { ops.emplace_back(n, a0, a1, a2, a3, std::move(d)); }

  static std::string hex(const std::string& d) {
    static const char* H = "0123456789abcdef"; std::string r; r.reserve(d.size() * 2);
    for (unsigned char c : d) { r += H[c >> 4]; r += H[c & 15]; } return r;
  }
  static bool unhex(const std::string& h, std::string& out) {
    out.clear(); if (h.size() % 2) return false;
    auto v = [](char c) { return c >= '0' && c <= '9' ? c - '0' : c >= 'a' && c <= 'f' ? c - 'a' + 10 : c >= 'A' && c <= 'F' ? c - 'A' + 10 : -1; };
    for (size_t i = 0; i < h.size(); i += 2) { int a = v(h[i]), b = v(h[i + 1]); if (a < 0 || b < 0) return false; out += (char)(a * 16 + b); }
    return true;
  }
  std::string text() const {
    std::string r;
    char buf[160];
    for (auto& p : params) { snprintf(buf, sizeof buf, "#param %s %ld\n", p.first.c_str(), p.second); r += buf; }
    for (auto& o : ops) {
      snprintf(buf, sizeof buf, "%s %ld %ld %ld %ld x", o.name.c_str(), o.a[0], o.a[1], o.a[2], o.a[3]);
      r += buf; r += hex(o.data); r += '\n';
    }
    return r;
  }
  // lenient parser: unknown '#' lines are ignored, malformed op lines are skipped
  static void parse(const std::string& t, Case& c) {
    c.params.clear(); c.ops.clear();
    size_t i = 0;
    while (i < t.size()) {
      size_t e = t.find('\n', i); if (e == std::string::npos) e = t.size();
      std::string line = t.substr(i, e - i); i = e + 1;
      if (line.empty()) continue;
      if (line[0] == '#') {
        char nm[64]; long v;
        if (sscanf(line.c_str(), "#param %63s %ld", nm, &v) == 2) c.params[nm] = v;
        continue;
      }
      char nm[64]; long a0 = 0, a1 = 0, a2 = 0, a3 = 0; char hx[1 << 16]; hx[0] = 0;
      int n = sscanf(line.c_str(), "%63s %ld %ld %ld %ld x%65535s", nm, &a0, &a1, &a2, &a3, hx);
      if (n < 1) continue;
      Op o(nm, a0, a1, a2, a3);
      if (n >= 6) unhex(hx, o.data);
      c.ops.push_back(std::move(o));
    }
  }
};

// ---------------------------------------------------------------- ledger (allocation tracking through operator new/delete)
// Tracks blocks allocated by operator new while tracking is on (i.e. inside a case).  Tells leaks,
// bounded growth and allocation counts.  Double frees / use after free are ASan's job in the asan flavour.
struct Ledger {
  static const size_t CAP = 1u << 17;  // open addressing table
  void* tab[CAP];
  size_t sz[CAP];
  size_t live = 0, liveBytes = 0, allocs = 0, frees = 0, peakBytes = 0;
  int on = 0, pause = 0;
  bool quarantine = false;   // sched flavour (no ASan): freed blocks are poisoned and never reused, so double frees and writes after free are exact verdicts
  static const size_t DEAD = (size_t)1 << 62;
  size_t dead = 0;
  size_t limitBytes = 64u << 20;
  bool overflow = false;
  static size_t h(void* p) { return ((uintptr_t)p >> 4) * 0x9E3779B97F4A7C15ull >> 46; }
  size_t tomb = 0;
  void rebuild() {  // drop tombstones (they make probing linear after many alloc/free cycles)
    void** keep = (void**)malloc(sizeof(void*) * (live + 1)); size_t* ks = (size_t*)malloc(sizeof(size_t) * (live + 1)); size_t n = 0;
    for (size_t i = 0; i < CAP; ++i) if (tab[i] && tab[i] != (void*)1) { keep[n] = tab[i]; ks[n] = sz[i]; ++n; }
    memset(tab, 0, sizeof tab); tomb = 0;
    for (size_t q = 0; q < n; ++q) { size_t i = h(keep[q]) & (CAP - 1); while (tab[i]) i = (i + 1) & (CAP - 1); tab[i] = keep[q]; sz[i] = ks[q]; }
    free(keep); free(ks);
  }
  void add(void* p, size_t n) {
    if (live * 2 >= CAP) { overflow = true; liveBytes += n; ++allocs; return; }
    if ((live + tomb) * 4 >= CAP * 3) rebuild();
    size_t i = h(p) & (CAP - 1);
    while (tab[i] && tab[i] != (void*)1) i = (i + 1) & (CAP - 1);
    if (tab[i] == (void*)1) --tomb;
    tab[i] = p; sz[i] = n; ++live; liveBytes += n; ++allocs; if (liveBytes > peakBytes) peakBytes = liveBytes;
  }
  bool del(void* p) {
    size_t i = h(p) & (CAP - 1);
    for (size_t k = 0; k < CAP && tab[i]; ++k, i = (i + 1) & (CAP - 1))
      if (tab[i] == p) { tab[i] = (void*)1; ++tomb; --live; liveBytes -= sz[i]; ++frees; return true; }
    return false;
  }
  // quarantine mode: 0 = not tracked, 1 = now dead (poisoned, keep the memory), 2 = was already dead (double free)
  int kill(void* p) {
    size_t i = h(p) & (CAP - 1);
    for (size_t k = 0; k < CAP && tab[i]; ++k, i = (i + 1) & (CAP - 1))
      if (tab[i] == p) { if (sz[i] & DEAD) return 2; memset(p, 0xDD, sz[i]); sz[i] |= DEAD; --live; liveBytes -= sz[i] & ~DEAD; ++frees; ++dead; return 1; }
    return 0;
  }
  // returns the address of a dead block whose poison was overwritten (write after free), or null
  void* damaged() {
    for (size_t i = 0; i < CAP; ++i) if (tab[i] && tab[i] != (void*)1 && (sz[i] & DEAD)) { const unsigned char* q = (const unsigned char*)tab[i]; size_t n = sz[i] & ~DEAD; for (size_t k = 0; k < n; ++k) if (q[k] != 0xDD) return tab[i]; }
    return nullptr;
  }
  bool isDead(const void* p) {
    for (size_t i = 0; i < CAP; ++i) if (tab[i] && tab[i] != (void*)1 && (sz[i] & DEAD)) { const char* q = (const char*)tab[i]; if ((const char*)p >= q && (const char*)p < q + (sz[i] & ~DEAD)) return true; }
    return false;
  }
  void reset() { memset(tab, 0, sizeof tab); tomb = 0; dead = 0; live = liveBytes = allocs = frees = peakBytes = 0; overflow = false; }
};
extern Ledger g_ledger;
struct LedgerPause { LedgerPause() { ++g_ledger.pause; } ~LedgerPause() { --g_ledger.pause; } };

// ---------------------------------------------------------------- context
struct Ctx {
  // labels of the current case
  std::set<std::string> labels;
  // counters over the whole run
  std::map<std::string, uint64_t> counters;
  std::map<std::string, uint64_t> labelHist;
  std::set<std::string> exclude;  // active known-finding exclusions
  std::map<std::string, std::string> opts;  // --opt key=value
  std::string opt(const char* k, const char* dflt = "") const { auto it = opts.find(k); return it == opts.end() ? std::string(dflt) : it->second; }
  bool replay = false;
  bool verbose = false;
  std::string outdir = ".";
  const char* prop = "";
  std::string current;  // text of the running case (with header)
  long opIndex = -1;

  void label(const char* l) { LedgerPause p; labels.insert(l); }
  bool has(const char* l) const { return labels.count(l) != 0; }
  void count(const char* c, uint64_t n = 1) { LedgerPause p; counters[c] += n; }
  bool excluded(const char* flag) { if (!exclude.count(flag)) return false; LedgerPause p; counters[std::string("excluded:") + flag]++; return true; }
  [[noreturn]] void fail(const std::string& kind, const std::string& detail = std::string());
};
extern Ctx g_ctx;
extern void (*g_failHook)(const char* kind, const char* detail);  // when set (forked children), Ctx::fail reports through it instead of writing fail.case

}  // namespace pbt

// ---------------------------------------------------------------- harness interface
extern const char* pbt_property;                                  // "C08" (may be overridden with --prop when one harness serves several properties)
extern const char* pbt_part;                                      // e.g. "buffer"
void pbt_generate(pbt::Rng& rng, int size, pbt::Case& c);        // constructive generator
void pbt_run(const pbt::Case& c, pbt::Ctx& ctx);                 // total interpreter + oracle; ctx.fail() on violation
bool pbt_nontrivial(const pbt::Ctx& ctx);                        // rule over ctx.labels
void pbt_warmup();                                               // create lazy library statics before tracking (may be empty)

#define PBT_CHECK(ctx, cond, kind, ...)                                                       \
  do { if (!(cond)) { char _b[512]; snprintf(_b, sizeof _b, __VA_ARGS__); (ctx).fail(kind, _b); } } while (0)

#ifdef PBT_MAIN
// ================================================================ implementation (one TU per harness defines PBT_MAIN)
namespace pbt {
Ledger g_ledger;
Ctx g_ctx;

static char g_failpath[512];
static const char* g_curtext = nullptr; static size_t g_curlen = 0;
static char g_hdr[256];

static void write_fail_raw(const char* kind, const char* detail) {
  int fd = open(g_failpath, O_WRONLY | O_CREAT | O_TRUNC, 0644);
  if (fd < 0) return;
  auto w = [&](const char* s, size_t n) { while (n) { ssize_t k = write(fd, s, n); if (k <= 0) break; s += k; n -= (size_t)k; } };
  w(g_hdr, strlen(g_hdr));
  w("#kind ", 6); w(kind, strlen(kind)); w("\n", 1);
  if (detail && *detail) {
    w("#detail ", 8);
    for (const char* p = detail; *p; ++p) { char ch = (*p == '\n' || *p == '\r') ? ' ' : *p; w(&ch, 1); }
    w("\n", 1);
  }
  if (g_curtext) w(g_curtext, g_curlen);
  close(fd);
}

void (*g_failHook)(const char*, const char*) = nullptr;
void Ctx::fail(const std::string& kind, const std::string& detail) {
  g_ledger.on = 0;
  if (g_failHook) { g_failHook(kind.c_str(), detail.c_str()); _exit(1); }
  char d[700]; snprintf(d, sizeof d, "op#%ld %s", opIndex, detail.c_str());
  write_fail_raw(kind.c_str(), d);
  fprintf(stderr, "FAIL %s/%s kind=%s %s\n", pbt_property, pbt_part, kind.c_str(), d);
  _exit(1);
}

static void on_signal(int sig) {
  const char* k = sig == SIGALRM ? "timeout" : sig == SIGSEGV ? "crash:SIGSEGV" : sig == SIGABRT ? "crash:SIGABRT" : sig == SIGBUS ? "crash:SIGBUS"
                : sig == SIGILL ? "crash:SIGILL(assert/trap)" : sig == SIGFPE ? "crash:SIGFPE" : sig == SIGTRAP ? "crash:SIGTRAP" : "crash:signal";
  char d[64]; snprintf(d, sizeof d, "op#%ld", g_ctx.opIndex);
  write_fail_raw(k, d);
  _exit(sig == SIGALRM ? 3 : 1);
}
extern "C" void __sanitizer_set_death_callback(void (*)(void)) __attribute__((weak));
static void on_san_death() {
  char d[64]; snprintf(d, sizeof d, "op#%ld", g_ctx.opIndex);
  write_fail_raw("crash:sanitizer", d);
}
static void install_handlers() {
  int sigs[] = {SIGALRM, SIGSEGV, SIGABRT, SIGBUS, SIGILL, SIGFPE, SIGTRAP};
  for (int s : sigs) { struct sigaction sa; memset(&sa, 0, sizeof sa); sa.sa_handler = on_signal; sigaction(s, &sa, nullptr); }
  if (__sanitizer_set_death_callback) __sanitizer_set_death_callback(on_san_death);
}

static void json_str(FILE* f, const std::string& s) {
  fputc('"', f);
  for (unsigned char c : s) {
    if (c == '"' || c == '\\') { fputc('\\', f); fputc(c, f); }
    else if (c == '\n') fputs("\\n", f);
    else if (c < 0x20 || c >= 0x7f) fprintf(f, "\\u%04x", c);
    else fputc(c, f);
  }
  fputc('"', f);
}

static double now_s() { struct timespec ts; clock_gettime(CLOCK_MONOTONIC, &ts); return ts.tv_sec + ts.tv_nsec * 1e-9; }

static void run_one(const Case& c, bool track) {
  Ctx& ctx = g_ctx;
  { LedgerPause p; ctx.labels.clear(); }
  ctx.opIndex = -1;
  if (track) { g_ledger.reset(); g_ledger.on = 1; }
  pbt_run(c, ctx);
  g_ledger.on = 0;
  if (track) {
    if (g_ledger.overflow) ctx.count("ledger_overflow");
    else if (g_ledger.live != 0) {
      char b[128]; snprintf(b, sizeof b, "%zu blocks (%zu bytes) allocated during the case are still live after everything was destroyed", g_ledger.live, g_ledger.liveBytes);
      ctx.opIndex = -2; ctx.fail("leak", b);
    }
  }
}

static std::string read_file(const char* path) {
  std::string r; FILE* f = fopen(path, "rb"); if (!f) return r;
  char b[65536]; size_t n; while ((n = fread(b, 1, sizeof b, f)) > 0) r.append(b, n); fclose(f); return r;
}

static int pbt_main(int argc, char** argv) {
  uint64_t seed = 1; long w = 0, W = 1, cases = 1000, maxsize = 40; double timecap = 0; int alarm_s = 10;
  std::string out = ".", replay, excl;
  bool dump = false;
  for (int i = 1; i < argc; ++i) {
    std::string a = argv[i]; auto nx = [&]() { return std::string(i + 1 < argc ? argv[++i] : ""); };
    if (a == "--seed") seed = strtoull(nx().c_str(), 0, 10);
    else if (a == "--w") w = atol(nx().c_str());
    else if (a == "--W") W = atol(nx().c_str());
    else if (a == "--cases") cases = atol(nx().c_str());
    else if (a == "--maxsize") maxsize = atol(nx().c_str());
    else if (a == "--out") out = nx();
    else if (a == "--replay") replay = nx();
    else if (a == "--exclude") excl = nx();
    else if (a == "--time") timecap = atof(nx().c_str());
    else if (a == "--alarm") alarm_s = atoi(nx().c_str());
    else if (a == "--dump") dump = true;
    else if (a == "--prop") { static std::string pp; pp = nx(); pbt_property = pp.c_str(); }
    else if (a == "--opt") { std::string kv = nx(); size_t e = kv.find('='); if (e != std::string::npos) g_ctx.opts[kv.substr(0, e)] = kv.substr(e + 1); }
    else if (a == "--verbose") g_ctx.verbose = true;
  }
  Ctx& ctx = g_ctx;
  ctx.prop = pbt_property; ctx.outdir = out;
  for (size_t i = 0; i < excl.size();) { size_t e = excl.find(',', i); if (e == std::string::npos) e = excl.size(); if (e > i) ctx.exclude.insert(excl.substr(i, e - i)); i = e + 1; }
  snprintf(g_failpath, sizeof g_failpath, "%s/fail.case", out.c_str());
  install_handlers();
  pbt_warmup();

  if (!replay.empty()) {
    ctx.replay = true;
    std::string t = read_file(replay.c_str());
    Case c; Case::parse(t, c);
    std::string body = c.text();
    snprintf(g_hdr, sizeof g_hdr, "#prop %s\n#part %s\n", pbt_property, pbt_part);
    g_curtext = body.c_str(); g_curlen = body.size();
    alarm(alarm_s * 2);
    run_one(c, true);
    alarm(0);
    std::string ls; for (auto& l : ctx.labels) { ls += l; ls += ' '; }
    printf("PASS %s/%s nontrivial=%d labels: %s\n", pbt_property, pbt_part, (int)pbt_nontrivial(ctx), ls.c_str());
    return 0;
  }

  std::unordered_set<uint64_t> nthash;
  std::vector<std::pair<std::string, std::string>> samples;  // (labels, text)
  std::set<std::string> sampleLabelSets;
  uint64_t ran = 0, nontrivial = 0, opsTotal = 0;
  double t0 = now_s();
  uint64_t pid = fnv(std::string(pbt_property) + "/" + pbt_part);
  bool capped = false;
  for (long j = w; j < cases; j += W) {
    if (timecap > 0 && (ran & 15) == 0 && now_s() - t0 > timecap) { capped = true; break; }
    uint64_t cs = mix64(mix64(seed, pid), (uint64_t)j);
    Rng rng(cs);
    int size = 1 + (int)(mix64(cs, 77) % (uint64_t)maxsize);
    Case c;
    pbt_generate(rng, size, c);
    std::string body = c.text();
    if (dump) { printf("### case %ld size %d\n%s", j, size, body.c_str()); }
    snprintf(g_hdr, sizeof g_hdr, "#prop %s\n#part %s\n#seed %llu\n#case %ld\n", pbt_property, pbt_part, (unsigned long long)seed, j);
    g_curtext = body.c_str(); g_curlen = body.size();
    alarm(alarm_s);
    run_one(c, true);
    alarm(0);
    g_curtext = nullptr;
    ++ran; opsTotal += c.ops.size();
    for (auto& l : ctx.labels) ctx.labelHist[l]++;
    if (pbt_nontrivial(ctx)) {
      ++nontrivial; nthash.insert(fnv(body));
      std::string ls; for (auto& l : ctx.labels) { ls += l; ls += ' '; }
      if (samples.size() < 4 && body.size() < 3000 && !sampleLabelSets.count(ls)) { sampleLabelSets.insert(ls); samples.emplace_back(ls, body); }
    }
  }
  // counters
  std::string cp = out + "/counters.json";
  FILE* f = fopen(cp.c_str(), "w");
  if (!f) { perror("counters"); return 2; }
  fprintf(f, "{\"property\":\"%s\",\"part\":\"%s\",\"seed\":%llu,\"worker\":%ld,\"cases\":%llu,\"ops\":%llu,\"nontrivial\":%llu,\"capped\":%s,\"wall_s\":%.3f,\n",
          pbt_property, pbt_part, (unsigned long long)seed, w, (unsigned long long)ran, (unsigned long long)opsTotal, (unsigned long long)nontrivial, capped ? "true" : "false", now_s() - t0);
  fprintf(f, "\"labels\":{"); { bool first = true; for (auto& l : ctx.labelHist) { if (!first) fputc(',', f); first = false; json_str(f, l.first); fprintf(f, ":%llu", (unsigned long long)l.second); } } fprintf(f, "},\n");
  fprintf(f, "\"counters\":{"); { bool first = true; for (auto& l : ctx.counters) { if (!first) fputc(',', f); first = false; json_str(f, l.first); fprintf(f, ":%llu", (unsigned long long)l.second); } } fprintf(f, "},\n");
  fprintf(f, "\"samples\":["); { bool first = true; for (auto& s : samples) { if (!first) fputc(',', f); first = false; fprintf(f, "{\"labels\":"); json_str(f, s.first); fprintf(f, ",\"case\":"); json_str(f, s.second); fputc('}', f); } } fprintf(f, "]}\n");
  fclose(f);
  std::string hp = out + "/nthash.bin";
  f = fopen(hp.c_str(), "wb");
  if (f) { for (uint64_t h : nthash) fwrite(&h, 8, 1, f); fclose(f); }
  return 0;
}
}  // namespace pbt

// operator new/delete with ledger
static inline void* pbt_alloc(size_t n) {
  void* p = malloc(n ? n : 1);
  if (!p) { fprintf(stderr, "out of memory\n"); abort(); }
  pbt::Ledger& L = pbt::g_ledger;
  if (L.on && !L.pause) {
    L.add(p, n);
    if (L.liveBytes > L.limitBytes || L.overflow) { L.on = 0; pbt::g_ctx.fail("unbounded-growth", "allocation limit of the case exceeded (unbounded growth)"); }
  }
  return p;
}
static inline void pbt_free(void* p) {
  if (!p) return;
  pbt::Ledger& L = pbt::g_ledger;
  if (L.quarantine) {
    int k = L.kill(p);
    if (k == 1) return;                         // poisoned, never reused
    if (k == 2) { L.on = 0; pbt::g_ctx.fail("double-free", "a block was released twice"); }
    free(p); return;
  }
  if (L.on || L.live) L.del(p);
  free(p);
}
void* operator new(size_t n) { return pbt_alloc(n); }
void* operator new[](size_t n) { return pbt_alloc(n); }
void* operator new(size_t n, const std::nothrow_t&) noexcept { return pbt_alloc(n); }
void* operator new[](size_t n, const std::nothrow_t&) noexcept { return pbt_alloc(n); }
void operator delete(void* p) noexcept { pbt_free(p); }
void operator delete[](void* p) noexcept { pbt_free(p); }
void operator delete(void* p, size_t) noexcept { pbt_free(p); }
void operator delete[](void* p, size_t) noexcept { pbt_free(p); }

int main(int argc, char** argv) { return pbt::pbt_main(argc, argv); }
#endif
