// C15 libFuzzer target: Json::Parser::parse / Json::stripComments on arbitrary NUL-free bytes, exactly sized heap copies.
// Oracle inside the target: ASan/UBSan (reads beyond the terminator), allocation bound, error position inside the text,
// print/parse round trip for whatever value parses (no doubles, no NUL in strings), reference comment stripper.
#define FUZZ_MAIN
#include "fuzz.hpp"
#include "json_common.hpp"

extern "C" int LLVMFuzzerTestOneInput(const uint8_t* data, size_t size) {
  if (size < 1) return 0;
  int mode = data[0] & 1; ++data; --size;
  if (memchr(data, 0, size)) return 0;
  size_t opens = 0; for (size_t i = 0; i < size; ++i) if (data[i] == '[' || data[i] == '{') ++opens;
  if (opens > 1000) return 0;
  char* text = (char*)malloc(size + 1);   // exact size: one byte for the terminator, nothing behind it
  memcpy(text, data, size); text[size] = 0;
  std::string stext((const char*)data, size);
  fuzz::g_allocLimit = 64 * (uint64_t)size + 1000;
  fuzz::begin(0);
  if (mode == 0) {
    static Json::Parser* reused = new Json::Parser;   // a parser object is reused for many documents
    Json::Parser fresh; Json::Parser& parser = (fuzz::st().execs % 4) ? *reused : fresh; Variant v;
    bool ok = parser.parse(text, v);
    if (!ok) {
      std::string e = jsonref::checkErrorPos(stext, parser.getErrorLine(), parser.getErrorColumn());
      if (!e.empty()) fuzz::fail("parse failed with %s", e.c_str());
      fuzz::label("rejected");
    } else {
      fuzz::label("parsed");
      jsonref::Facts f; jsonref::scan(v, f);
      if (!f.hasDouble && !f.hasNulString) {
        fuzz::g_allocLimit = ~0ull;
        String t = Json::toString(v);
        Variant v2;
        if (!Json::parse(t, v2)) fuzz::fail("text produced by Json::toString does not parse: %s", (const char*)t);
        if (!(v == v2) || !(v2 == v)) fuzz::fail("parse(toString(v)) != v for v parsed from the input; serialised: %s", (const char*)t);
        if ((f.hasEscapeWorthy || f.nonAscii) && f.depth >= 2) { fuzz::label("nontrivial_roundtrip"); fuzz::nontrivial(data, size); }
        else if (f.depth >= 1) fuzz::label("roundtrip_container");
      } else fuzz::label("parsed_with_double_or_nul");
    }
  } else {
    String in(text, size);
    String out = Json::stripComments(in);
    bool wf = false; std::string ref = jsonref::strip(stext, &wf);
    std::string got((const char*)out, out.length());
    if (wf) {
      if (got != ref) fuzz::fail("stripComments differs from the reference stripper on a well-formed input: got '%s' expected '%s'", got.c_str(), ref.c_str());
      if (ref.size() != stext.size() && stext.find('"') != std::string::npos) { fuzz::label("strip_comment_and_string"); fuzz::nontrivial(data, size); }
    } else {
      // weaker invariants: output is a subsequence of the input and the CR/LF sequence is unchanged
      size_t j = 0; for (size_t i = 0; i < stext.size() && j < got.size(); ++i) if (stext[i] == got[j]) ++j;
      if (j != got.size()) fuzz::fail("stripComments output is not a subsequence of its input");
      std::string a, b; for (char c : stext) if (c == '\r' || c == '\n') a += c; for (char c : got) if (c == '\r' || c == '\n') b += c;
      if (a != b) fuzz::fail("stripComments changed the sequence of line breaks");
      fuzz::label("strip_unterminated");
    }
  }
  fuzz::end();
  free(text);
  return 0;
}
