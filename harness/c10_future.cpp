// C10: every Future call runs exactly once and join waits for its result -- under generated schedules (vsched), pool
// configurations (min / max workers, queue capacity) and client programs.
// The TU includes src/Future.cpp (compiled with -fno-access-control) so that each run can install a fresh worker pool.
#define PBT_MAIN
#include "pbt.hpp"
#include "vs_common.hpp"
#ifndef C10_GLOBAL_POOL_ONLY
#include "src/Future.cpp"
#else
#include <nstd/Future.hpp>   // fallback build: the library's own Future.o, no access to the pool's private members
#include <nstd/Thread.hpp>
#endif
#include <nstd/String.hpp>
#include <pthread.h>

const char* pbt_property = "C10";
const char* pbt_part = "future";
void pbt_warmup() {}

using namespace pbt;

namespace {
const int MAXC = 3, NF = 3;             // clients, futures per client: 0 Future<void>, 1 Future<int>, 2 Future<String>
const int MAXTOK = 256;
int g_executed[MAXTOK]; long g_argEcho[MAXTOK]; int g_points[MAXTOK];
int g_tokens = 0;

void failC(const char* kind, const std::string& d) { vs::childFail(kind, d.c_str()); }

void body(int token) { if (token < 0 || token >= MAXTOK) failC("harness", "bad token"); ++g_executed[token]; for (int i = 0; i < g_points[token]; ++i) vsched::point("function under test"); }
// started functions
int g_zeroTok[MAXC];
void fv0_c0() { body(g_zeroTok[0]); } void fv0_c1() { body(g_zeroTok[1]); } void fv0_c2() { body(g_zeroTok[2]); }
void fv1(int token) { body(token); g_argEcho[token] = token; }
void fv3(int token, long a, const String& s) { body(token); g_argEcho[token] = a + (long)s.length(); }
int fi2(int token, int b) { body(token); g_argEcho[token] = b; return token * 1000 + b; }
String fs2(int token, const String& s) { body(token); g_argEcho[token] = (long)s.length(); return String("r:") + s; }
struct Member { int base; int mi(int token) { body(token); g_argEcho[token] = base; return base + token; } void mv(int token) { body(token); g_argEcho[token] = base; } };

// functions for every start() overload (free functions with 1..5 parameters, member functions with 0..4): the first parameter is the
// token, the others are token-dependent values whose weighted sum is echoed
void gv2(int token, int a2) { body(token); g_argEcho[token] = 2L * a2; }
int gi2(int token, int a2) { body(token); g_argEcho[token] = 2L * a2; return token * 1000 + (int)((2L * a2) % 997); }
void gv3(int token, int a2, int a3) { body(token); g_argEcho[token] = 2L * a2 + 3L * a3; }
int gi3(int token, int a2, int a3) { body(token); g_argEcho[token] = 2L * a2 + 3L * a3; return token * 1000 + (int)((2L * a2 + 3L * a3) % 997); }
void gv4(int token, int a2, int a3, int a4) { body(token); g_argEcho[token] = 2L * a2 + 3L * a3 + 4L * a4; }
int gi4(int token, int a2, int a3, int a4) { body(token); g_argEcho[token] = 2L * a2 + 3L * a3 + 4L * a4; return token * 1000 + (int)((2L * a2 + 3L * a3 + 4L * a4) % 997); }
void gv5(int token, int a2, int a3, int a4, int a5) { body(token); g_argEcho[token] = 2L * a2 + 3L * a3 + 4L * a4 + 5L * a5; }
int gi5(int token, int a2, int a3, int a4, int a5) { body(token); g_argEcho[token] = 2L * a2 + 3L * a3 + 4L * a4 + 5L * a5; return token * 1000 + (int)((2L * a2 + 3L * a3 + 4L * a4 + 5L * a5) % 997); }
int gi1(int token) { body(token); g_argEcho[token] = 5; return token * 1000 + 5; }
int g_zeroTokI[MAXC];
int gi0_c0() { body(g_zeroTokI[0]); return g_zeroTokI[0] * 1000 + 1; } int gi0_c1() { body(g_zeroTokI[1]); return g_zeroTokI[1] * 1000 + 1; } int gi0_c2() { body(g_zeroTokI[2]); return g_zeroTokI[2] * 1000 + 1; }
struct MemberN { int base; int tok0v, tok0i;   // (one token slot per future: the calls of two futures may overlap)
  void v0() { body(tok0v); g_argEcho[tok0v] = base; } int i0() { body(tok0i); g_argEcho[tok0i] = base; return base + tok0i; }
  void v2(int token, int a2) { body(token); g_argEcho[token] = base + 2L * a2; } int i2(int token, int a2) { body(token); g_argEcho[token] = base + 2L * a2; return base + token + (int)((2L * a2) % 997); }
  void v3(int token, int a2, int a3) { body(token); g_argEcho[token] = base + 2L * a2 + 3L * a3; } int i3(int token, int a2, int a3) { body(token); g_argEcho[token] = base + 2L * a2 + 3L * a3; return base + token + (int)((2L * a2 + 3L * a3) % 997); }
  void v4(int token, int a2, int a3, int a4) { body(token); g_argEcho[token] = base + 2L * a2 + 3L * a3 + 4L * a4; } int i4(int token, int a2, int a3, int a4) { body(token); g_argEcho[token] = base + 2L * a2 + 3L * a3 + 4L * a4; return base + token + (int)((2L * a2 + 3L * a3 + 4L * a4) % 997); }
};
inline long wsumOf(long arg, int n) { long r = 0; for (int i = 2; i <= n; ++i) r += (long)i * (long)(int)(arg + i); return r; }   // weighted sum of a2..an with a_i = arg + i

struct Client {
  int id; MemberN memN;
  // futures live in raw storage and are constructed / destroyed explicitly, the storage is never reused within a run
  Future<void>* fv; Future<int>* fi; Future<String>* fs;
  int tok[NF]; bool started[NF]; bool abortReq[NF]; long expect[NF]; std::string expectS; long expArg[NF];
  Member mem;
  std::vector<const Op*> prog;
};

void checkDone(Client& c, int f, const char* when) {
  int t = c.tok[f];
  if (t < 0) return;
  if (g_executed[t] != 1) { char d[200]; snprintf(d, sizeof d, "client %d future %d: %s returned but the started function has run %d times", c.id, f, when, g_executed[t]); failC("join-before-completion", d); }
  if (g_argEcho[t] != c.expArg[f]) { char d[200]; snprintf(d, sizeof d, "client %d future %d: function saw argument value %ld, started with %ld", c.id, f, g_argEcho[t], c.expArg[f]); failC("wrong-arguments", d); }
  bool aborted = f == 0 ? c.fv->isAborted() : f == 1 ? c.fi->isAborted() : c.fs->isAborted();
  bool finished = f == 0 ? c.fv->isFinished() : f == 1 ? c.fi->isFinished() : c.fs->isFinished();
  if (aborted && !c.abortReq[f]) failC("state:aborted-without-abort", "isAborted() is true although abort() was not requested since the start");
  if (!aborted && !finished) failC("state:neither-finished-nor-aborted", "after join neither isFinished() nor isAborted() is true");
}

bool ctx_restartWithoutJoin = false;
void runClient(Client& c) {
  for (const Op* op : c.prog) {
    int what = (int)(((op->a[1] % 8) + 8) % 8), f = (int)(((op->a[2] % NF) + NF) % NF); long arg = op->a[3];
    vsched::point("client op");
    switch (what) {
      case 0: case 1: {  // start (a future that is still running is joined by start itself)
        if (g_tokens >= MAXTOK - 1) break;
        if (c.started[f]) { /* start() joins first */ }
        int t; { t = g_tokens++; }
        g_points[t] = (int)(arg % 3);
        int prevTok = c.tok[f];
        // a call that is still running is completed first (start() would join it anyway): its state is judged with the
        // abort requests made for it, then the request flag starts afresh for the new call
        // ... in one case out of three; otherwise the future is started again without a join in between and start() itself has to
        // wait for the previous call (its own join): the check below and the next join / conversion / destructor judge that
        // (the zero-argument overloads get their token through a per-client variable that the new start overwrites: the previous call
        // has to be over before that, so these always join first)
        bool viaVariable = (f == 0 && ((arg / 3) % 12 == 0 || (arg / 3) % 12 == 8)) || (f == 1 && ((arg / 3) % 12 == 2 || (arg / 3) % 12 == 7));
        if (c.started[f] && (op->a[3] % 3 == 0 || viaVariable)) { if (f == 0) c.fv->join(); else if (f == 1) c.fi->join(); else c.fs->join(); checkDone(c, f, "join()"); }
        else if (c.started[f]) { ctx_restartWithoutJoin = true; vs::childLabel("restart_without_join"); }
        c.abortReq[f] = false;
        if (f == 0) {
          int variant = (int)((arg / 3) % 12);
          if (variant >= 4) {   // the remaining overloads
            c.tok[0] = t; c.started[0] = true; int x = (int)arg;
            switch (variant) {
              case 4: c.expArg[0] = wsumOf(arg, 2); c.fv->start(&gv2, t, x + 2); break;
              case 5: c.expArg[0] = wsumOf(arg, 3); c.fv->start(&gv3, t, x + 2, x + 3); break;
              case 6: c.expArg[0] = wsumOf(arg, 4); c.fv->start(&gv4, t, x + 2, x + 3, x + 4); break;
              case 7: c.expArg[0] = wsumOf(arg, 5); c.fv->start(&gv5, t, x + 2, x + 3, x + 4, x + 5); break;
              case 8: c.memN.tok0v = t; c.expArg[0] = c.memN.base; g_argEcho[t] = 0; c.fv->start(c.memN, &MemberN::v0); break;
              case 9: c.expArg[0] = c.memN.base + wsumOf(arg, 2); c.fv->start(c.memN, &MemberN::v2, t, x + 2); break;
              case 10: c.expArg[0] = c.memN.base + wsumOf(arg, 3); c.fv->start(c.memN, &MemberN::v3, t, x + 2, x + 3); break;
              default: c.expArg[0] = c.memN.base + wsumOf(arg, 4); c.fv->start(c.memN, &MemberN::v4, t, x + 2, x + 3, x + 4); break;
            }
          } else
          if (variant == 0) { // zero-argument function: the token travels through a per-client variable, so wait for the previous call first
            g_zeroTok[c.id] = t; c.expArg[0] = 0; g_argEcho[t] = 0;
            c.tok[0] = t; c.started[0] = true;
            c.fv->start(c.id == 0 ? &fv0_c0 : c.id == 1 ? &fv0_c1 : &fv0_c2);
          } else {
            c.expArg[0] = variant == 1 ? t : variant == 2 ? (arg + 3) : c.mem.base;
            c.tok[0] = t; c.started[0] = true;
            if (variant == 1) c.fv->start(&fv1, t);
            else if (variant == 2) c.fv->start(&fv3, t, arg, String("abc"));
            else c.fv->start(c.mem, &Member::mv, t);
          }
        } else if (f == 1) {
          int iv = (int)((arg / 3) % 12); bool member = iv == 1; int x = (int)arg;
          c.tok[1] = t; c.started[1] = true;
          if (iv >= 2) {
            long w;
            switch (iv) {
              case 2: g_zeroTokI[c.id] = t; g_argEcho[t] = 0; c.expArg[1] = 0; c.expect[1] = (long)t * 1000 + 1; c.fi->start(c.id == 0 ? &gi0_c0 : c.id == 1 ? &gi0_c1 : &gi0_c2); break;
              case 3: c.expArg[1] = 5; c.expect[1] = (long)t * 1000 + 5; c.fi->start(&gi1, t); break;
              case 4: w = wsumOf(arg, 3); c.expArg[1] = w; c.expect[1] = (long)t * 1000 + (int)(w % 997); c.fi->start(&gi3, t, x + 2, x + 3); break;
              case 5: w = wsumOf(arg, 4); c.expArg[1] = w; c.expect[1] = (long)t * 1000 + (int)(w % 997); c.fi->start(&gi4, t, x + 2, x + 3, x + 4); break;
              case 6: w = wsumOf(arg, 5); c.expArg[1] = w; c.expect[1] = (long)t * 1000 + (int)(w % 997); c.fi->start(&gi5, t, x + 2, x + 3, x + 4, x + 5); break;
              case 7: c.memN.tok0i = t; g_argEcho[t] = 0; c.expArg[1] = c.memN.base; c.expect[1] = c.memN.base + t; c.fi->start(c.memN, &MemberN::i0); break;
              case 8: w = wsumOf(arg, 2); c.expArg[1] = c.memN.base + w; c.expect[1] = c.memN.base + t + (int)(w % 997); c.fi->start(c.memN, &MemberN::i2, t, x + 2); break;
              case 9: w = wsumOf(arg, 3); c.expArg[1] = c.memN.base + w; c.expect[1] = c.memN.base + t + (int)(w % 997); c.fi->start(c.memN, &MemberN::i3, t, x + 2, x + 3); break;
              case 10: w = wsumOf(arg, 4); c.expArg[1] = c.memN.base + w; c.expect[1] = c.memN.base + t + (int)(w % 997); c.fi->start(c.memN, &MemberN::i4, t, x + 2, x + 3, x + 4); break;
              default: w = wsumOf(arg, 2); c.expArg[1] = w; c.expect[1] = (long)t * 1000 + (int)(w % 997); c.fi->start(&gi2, t, x + 2); break;
            }
          } else if (member) { c.expect[1] = c.mem.base + t; c.expArg[1] = c.mem.base; c.fi->start(c.mem, &Member::mi, t); }
          else { int b = (int)(arg % 97); c.expect[1] = (long)t * 1000 + b; c.expArg[1] = b; c.fi->start(&fi2, t, b); }
        } else {
          std::string s = "s" + std::to_string(arg % 50);
          c.tok[2] = t; c.started[2] = true; c.expectS = "r:" + s; c.expArg[2] = (long)s.size();
          c.fs->start(&fs2, t, String(s.data(), s.size()));
        }
        // the previous call of this future must have completed before start() returned (start joins)
        if (prevTok >= 0 && g_executed[prevTok] != 1) failC("restart-before-completion", "start() of a future returned although its previous call had not completed");
        break;
      }
      case 2: if (c.started[f]) { if (f == 0) c.fv->join(); else if (f == 1) c.fi->join(); else c.fs->join(); checkDone(c, f, "join()"); } break;
      case 3:  // result conversion
        if (c.started[f] && f == 1) { int v = *c.fi; checkDone(c, 1, "result conversion"); if (v != (int)c.expect[1]) { char d[128]; snprintf(d, sizeof d, "Future<int> result %d, the function returned %ld", v, c.expect[1]); failC("wrong-result", d); } }
        else if (c.started[f] && f == 2) { const String& v = *c.fs; checkDone(c, 2, "result conversion"); if (std::string((const char*)v, v.length()) != c.expectS) failC("wrong-result", "Future<String> result differs from the function's return value"); }
        break;
      case 4:  // destroy (the destructor joins) and re-create in fresh storage
        if (f == 0) { c.fv->~Future<void>(); if (c.started[0]) checkDone(c, 0, "destructor"); c.fv = new (malloc(sizeof(Future<void>))) Future<void>; }
        else if (f == 1) { c.fi->~Future<int>(); if (c.started[1]) checkDone(c, 1, "destructor"); c.fi = new (malloc(sizeof(Future<int>))) Future<int>; }
        else { c.fs->~Future<String>(); if (c.started[2]) checkDone(c, 2, "destructor"); c.fs = new (malloc(sizeof(Future<String>))) Future<String>; }
        c.started[f] = false; c.tok[f] = -1;
        break;
      case 5: if (c.started[f]) { c.abortReq[f] = true; if (f == 0) c.fv->abort(); else if (f == 1) c.fi->abort(); else c.fs->abort(); if (!(f == 0 ? c.fv->isAborting() : f == 1 ? c.fi->isAborting() : c.fs->isAborting())) failC("state:abort-not-visible", "isAborting() is false right after abort()"); } break;
      case 6: Thread::sleep((unsigned)(arg % 4 == 0 ? 2500 : arg % 40)); break;
      default: (void)(f == 0 ? c.fv->isFinished() : f == 1 ? c.fi->isFinished() : c.fs->isFinished()); break;
    }
  }
  // end of the program: everything is joined through the destructors
  c.fv->~Future<void>(); if (c.started[0]) checkDone(c, 0, "destructor");
  c.fi->~Future<int>(); if (c.started[1]) checkDone(c, 1, "destructor");
  c.fs->~Future<String>(); if (c.started[2]) checkDone(c, 2, "destructor");
}
void* clientMain(void* p) { runClient(*(Client*)p); return nullptr; }
}  // namespace

void pbt_generate(Rng& r, int size, Case& c) {
  int nc = 1 + (int)r.below(MAXC);
  static const long mins[] = {0, 1, 2}, maxs[] = {3, 4, 5}, queues[] = {1, 2, 4, 256};
  c.params["clients"] = nc;
  c.params["min"] = mins[r.below(3)]; c.params["max"] = maxs[r.below(3)]; c.params["queue"] = queues[r.below(4)];
  c.params["globalpool"] = r.chance(25) ? 1 : 0;
  c.params["strategy"] = (long)r.below(4); c.params["sched"] = (long)r.below(1000000); c.params["nsched"] = 6;
  if (r.chance(20)) {
    // scenario mode: grow the pool (every client starts all its futures with long bodies), let it idle past the retirement
    // time, then have all clients start again at the same moment; several rounds (exercises growing, retiring and re-growing)
    nc = 3; c.params["clients"] = 3; c.params["min"] = (long)r.below(2); c.params["max"] = 5; if (r.chance(50)) c.params["queue"] = 256;
    int rounds = 2 + (int)r.below(4);
    for (int rd = 0; rd < rounds; ++rd) {
      for (int f = 0; f < NF; ++f) for (int cl = 0; cl < 3; ++cl) if (rd == 0 || r.chance(70)) c.add("op", cl, 0, f, (long)(3 * r.below(300) + 2));   // start, 2 decision points inside
      for (int cl = 0; cl < 3; ++cl) for (int f = 0; f < NF; ++f) c.add("op", cl, 2, f, 0);                                                          // join
      for (int cl = 0; cl < 3; ++cl) c.add("op", cl, 6, 0, 4 * (long)r.below(100));                                                                   // sleep 2500 ms
      // after the idle period: a burst of short calls (start + join at once) - every start() may retire a worker or grow the pool again
      if (r.chance(60)) for (int cl = 0; cl < 3; ++cl) { int nb = (int)r.below(5); for (int q = 0; q < nb; ++q) { long f = (long)r.below(NF); c.add("op", cl, 0, f, 3 * (long)r.below(300)); if (r.chance(70)) c.add("op", cl, 2, f, 0); } }
    }
    for (int cl = 0; cl < 3; ++cl) c.add("op", cl, 0, (long)r.below(NF), (long)r.below(1000));
    return;
  }
  int n = 2 + (int)r.below((uint64_t)size + 1);
  static const int w[] = {28, 14, 16, 10, 8, 8, 4, 4};
  for (int k = 0; k < n; ++k) c.add("op", (long)r.below((uint64_t)nc), (long)r.weighted(w, 8), (long)r.below(NF), (long)r.below(1000));
}

bool pbt_nontrivial(const Ctx& ctx) { return (ctx.has("clients>=2") && ctx.has("small_queue") && ctx.has("starts>=4")) || ctx.has("worker_retirement_window"); }

void pbt_run(const Case& cs, Ctx& ctx) {
  int nc = (int)std::max(1L, std::min<long>(MAXC, cs.param("clients", 1)));
  long nsched = ctx.replay ? 40 : std::max(1L, std::min(32L, cs.param("nsched", 6)));
  long pmin = std::max(0L, std::min(2L, cs.param("min", 0))), pmax = std::max(3L, std::min(6L, cs.param("max", 3))), pq = std::max(1L, std::min(256L, cs.param("queue", 256)));
  bool globalPool = cs.param("globalpool", 0) != 0;
#ifdef C10_GLOBAL_POOL_ONLY
  // fallback build (the private ThreadPool members this harness uses to install its own pool do not exist in this tree): every case
  // runs on the library's lazily created shared pool; it is never torn down, so the allocation ledger is not consulted for it
  globalPool = true;
#else
#define C10_POOL_INCLUDED 1
#endif
  std::vector<std::vector<const Op*>> progs((size_t)nc);
  int starts = 0; bool longSleep = false;
  for (const Op& op : cs.ops) if (op.name == "op") { progs[(size_t)(((op.a[0] % nc) + nc) % nc)].push_back(&op); int what = (int)(((op.a[1] % 8) + 8) % 8); if (what <= 1) ++starts; if (what == 6 && op.a[3] % 4 == 0) longSleep = true; }
  if (nc >= 2) ctx.label("clients>=2"); if (pq <= 2 && !globalPool) ctx.label("small_queue"); if (starts >= 4) ctx.label("starts>=4");
  if (longSleep && starts >= 3) ctx.label("worker_retirement_window"); if (longSleep && starts >= 12 && nc == 3) ctx.label("grow_idle_regrow_scenario"); if (globalPool) ctx.label("lazy_global_pool");
  for (long s = 0; s < nsched; ++s) {
    vsched::Config cfg; cfg.seed = (uint64_t)cs.param("sched", 1) * 1000003ull + (uint64_t)s; cfg.strategy = (int)((cs.param("strategy", 0) + s) % 4); cfg.stepBound = 400000;
    auto bodyFn = [&]() {
      memset(g_executed, 0, sizeof g_executed); memset(g_argEcho, 0, sizeof g_argEcho); memset(g_points, 0, sizeof g_points); g_tokens = 0;
#ifndef C10_GLOBAL_POOL_ONLY
      typedef Future<void>::Private::ThreadPool Pool;
      Pool* pool = nullptr;
      if (!globalPool) { pool = new Pool((usize)pmin, (usize)pmax, (usize)pq); Future<void>::Private::_threadPool = pool; }
#endif
      std::vector<Client> cl((size_t)nc);
      for (int i = 0; i < nc; ++i) {
        Client& c = cl[(size_t)i]; c.id = i; c.mem.base = 50 + i; c.memN.base = 70 + i; c.memN.tok0v = c.memN.tok0i = 0; c.prog = progs[(size_t)i];
        c.fv = new (malloc(sizeof(Future<void>))) Future<void>; c.fi = new (malloc(sizeof(Future<int>))) Future<int>; c.fs = new (malloc(sizeof(Future<String>))) Future<String>;
        for (int f = 0; f < NF; ++f) { c.tok[f] = -1; c.started[f] = false; c.abortReq[f] = false; c.expect[f] = 0; c.expArg[f] = 0; }
      }
      pthread_t th[MAXC];
      for (int i = 1; i < nc; ++i) pthread_create(&th[i], nullptr, clientMain, &cl[(size_t)i]);
      runClient(cl[0]);
      for (int i = 1; i < nc; ++i) pthread_join(th[i], nullptr);
      // every started call has run exactly once
      for (int t = 0; t < g_tokens; ++t) if (g_executed[t] != 1) { char d[128]; snprintf(d, sizeof d, "call #%d was executed %d times", t, g_executed[t]); failC("execution-count", d); }
      // shut the pool down (joins the workers); afterwards nothing allocated by the library may be left
#ifndef C10_GLOBAL_POOL_ONLY
      Pool* p = Future<void>::Private::_threadPool; Future<void>::Private::_threadPool = nullptr; delete p;
#else
      vs::finishNow();   // the shared pool's idle workers stay behind
#endif
    };
    vs::Result r = vs::runForked(cfg, bodyFn, nullptr, 15000);
    ctx.count("schedules"); ctx.count("decisions", (uint64_t)r.decisions); ctx.count("context_switches", (uint64_t)r.switches);
    if (r.maxThreads >= 4) ctx.label("threads>=4");
    if (r.status == 1) { char d[900]; snprintf(d, sizeof d, "schedule %ld (seed %llu, strategy %d, pool %ld/%ld/%ld%s): %s", s, (unsigned long long)cfg.seed, cfg.strategy, pmin, pmax, pq, globalPool ? " global" : "", r.detail.c_str()); ctx.fail(r.kind, d); }
    if (r.status == 2) ctx.count(std::string("inconclusive:" + r.kind).c_str());
  }
}
