// C20 part "proc": real child processes through Process::start / Process::open in all their forms against the helper
// child harness/c20_child.cpp (compiled once per worker directory in pbt_warmup()).
//
// Case text (pending items are consumed by the next "run"):
//   env 0 0 0 0 x<KEY=VALUE>     pending environment entry (key = text before the first '=', "K" if empty; NUL cut; at most 5 keys)
//   arg q s 0 0 x<bytes>         pending free argument word (at most 6).  q, s: how the word is written in the command-line form
//                                (q%4: 0 quoted only if needed, 1 whole word quoted, 2 tail from position s quoted, 3 only the runs that need it quoted)
//   io i o e c                   pending payloads: stdin size SZ[i%8], stdout pattern size SZ[o%8], stderr pattern size SZ[e%8];
//                                c bits 0-2: read/write chunk selector, bit 3: child echoes stdin to stdout, bit 4: ... to stderr
//   run form streams code mode   start one child, talk to it, end it, check everything
//        form%6:  0 command line, 1 argv with the terminating NULL counted in argc (passed through as is, argv[0] = executable),
//                 2 argv of exactly argc entries (argv[0] is a placeholder), 3 main()-style argv (argv[argc] == NULL, argv[0] placeholder),
//                 4 List<String> (first item is the placeholder for the program name), 5 no arguments at all
//        streams: bits 0-2 = Process::stdoutStream|stderrStream|stdinStream for open(); bit 3: use start() (no redirection)
//        code:    exit code (mod 256)
//        mode:    bits 0-1 reading (0/3 multiplexed read(buf,len,streams), 1 one stream after the other, 2 multiplexed + close(stream) at its end-of-file)
//                 bits 2-3 ending (0 join(exitCode), 1 join(), 2 destructor, 3 kill() of a child that pauses forever)
//                 bit 4 join/kill once more afterwards (must fail), bit 5 write stdin in chunks, bit 6 child serves stderr before stdout,
//                 bit 7 quote the executable word in the command-line form, bits 8-9 variant of form 5
//                 (0 argc 0 / argv NULL, 1 argc 1, 2 empty List, 3 command line of one word), bit 10 the argv[0] placeholder equals the executable,
//                 bit 11 keep the (joined) Process object and start the next child of the case with it
//                 bit 12 do not read the redirected output at all: join() straight away while the child (which waits a moment) still
//                 has its (small) output to write; the exit code and the child's own account must be unaffected
//
// Command lines are built by the rules of DESIGN 4.1: words separated by single spaces, quotes only as "..." segments with
// \" inside, an empty word is ""; a backslash stays in a word only where it cannot be read as the escape of a quote (otherwise it is
// replaced by '/' in this form only), and words with such backslashes are compared modulo backslashes.
#define PBT_MAIN
#include "pbt.hpp"
#include <nstd/Process.hpp>
#include <nstd/List.hpp>
#include <nstd/Map.hpp>
#include <string>
#include <vector>
#include <map>
#include <cerrno>
#include <dirent.h>
#include <sys/stat.h>
#include <sys/wait.h>

const char* pbt_property = "C20";
const char* pbt_part = "proc";

using namespace pbt;
extern char** environ;

namespace {
std::string g_child, g_report;
const long SZ[8] = {0, 1, 4095, 4096, 65535, 65536, 65537, 200000};
const size_t CHUNK[6] = {1, 7, 512, 4096, 65536, 300000};
const char* const MARKER = "C20_MARKER";

unsigned char patternByte(size_t k, unsigned seed) { return (unsigned char)((k * 31u + seed * 101u) ^ (k >> 8) ^ (k >> 15)); }
std::string pattern(size_t n, unsigned seed) { std::string s(n, '\0'); for (size_t k = 0; k < n; ++k) s[k] = (char)patternByte(k, seed); return s; }

int countFds() {
  DIR* d = opendir("/proc/self/fd");
  if (!d) return -1;
  int n = 0;
  while (struct dirent* e = readdir(d)) if (e->d_name[0] != '.') ++n;
  closedir(d);
  return n;
}

bool readFile(const std::string& path, std::string& out) {
  out.clear();
  FILE* f = fopen(path.c_str(), "rb");
  if (!f) return false;
  char b[65536]; size_t n;
  while ((n = fread(b, 1, sizeof b, f)) > 0) out.append(b, n);
  fclose(f);
  return true;
}

struct Report {
  std::vector<std::string> argv, env;
  long inLen = -2; unsigned long long inHash = 0;
  int done = -1;
};
// returns "" or what is wrong with the text
std::string parseReport(const std::string& t, Report& r) {
  size_t p = 0;
  auto line = [&](std::string& l) { size_t e = t.find('\n', p); if (e == std::string::npos) return false; l = t.substr(p, e - p); p = e + 1; return true; };
  auto block = [&](char tag, std::vector<std::string>& v) -> bool {
    std::string l; if (!line(l) || l.size() < 3 || l[0] != tag || l[1] != ' ') return false;
    long n = atol(l.c_str() + 2); if (n < 0 || n > 100000) return false;
    for (long i = 0; i < n; ++i) {
      if (!line(l)) return false;
      size_t len = (size_t)atol(l.c_str());
      if (p + len + 1 > t.size() || t[p + len] != '\n') return false;
      v.push_back(t.substr(p, len)); p += len + 1;
    }
    return true;
  };
  if (!block('A', r.argv)) return "argument block unreadable";
  if (!block('E', r.env)) return "environment block unreadable";
  std::string l;
  if (!line(l) || sscanf(l.c_str(), "I %ld %llx", &r.inLen, &r.inHash) != 2) return "stdin line missing";
  if (line(l)) { if (sscanf(l.c_str(), "D %d", &r.done) != 1) return "done line unreadable"; }
  return "";
}

std::string printable(const std::string& s, size_t max = 60) {
  std::string r; char b[8];
  for (size_t i = 0; i < s.size() && i < max; ++i) { unsigned char c = (unsigned char)s[i]; if (c >= 32 && c < 127 && c != '\\') r += (char)c; else { snprintf(b, sizeof b, "\\x%02x", c); r += b; } }
  if (s.size() > max) r += "...";
  return r;
}

bool needsQuotes(char c) { return c == ' ' || c == '"' || c == '\t' || c == '\n'; }
std::string quoted(const std::string& s, bool& escaped) {
  std::string r = "\"";
  for (char c : s) { if (c == '"') { r += "\\\""; escaped = true; } else r += c; }
  return r + "\"";
}
std::string minimalRuns(const std::string& w, bool& usedQuotes, bool& escaped) {
  std::string r;
  for (size_t i = 0; i < w.size();) {
    size_t j = i; bool nq = needsQuotes(w[i]);
    while (j < w.size() && needsQuotes(w[j]) == nq) ++j;
    if (nq) { r += quoted(w.substr(i, j - i), escaped); usedQuotes = true; } else r += w.substr(i, j - i);
    i = j;
  }
  return r;
}
// one word of the command-line form; w is non-empty and free of backslashes
std::string renderWord(const std::string& w, long q, long s, bool& usedQuotes, bool& escaped) {
  bool any = false; for (char c : w) any = any || needsQuotes(c);
  if (w.empty()) { usedQuotes = true; return "\"\""; }   // an empty word can only be written as an empty quoted segment
  switch (((q % 4) + 4) % 4) {
    case 0: if (!any) return w; usedQuotes = true; return quoted(w, escaped);
    case 1: usedQuotes = true; return quoted(w, escaped);
    case 2: {
      size_t k = (size_t)(((s % (long)(w.size() + 1)) + (long)(w.size() + 1)) % (long)(w.size() + 1));
      std::string r = minimalRuns(w.substr(0, k), usedQuotes, escaped);
      if (k < w.size()) { r += quoted(w.substr(k), escaped); usedQuotes = true; }
      return r;
    }
    default: return minimalRuns(w, usedQuotes, escaped);
  }
}

struct Word { std::string s; long q, sp; };
struct Pending {
  std::vector<std::pair<std::string, std::string>> env;
  std::vector<Word> args;
  long i = 0, o = 0, e = 0, c = 0;
};

char* exact(const std::string& s) { char* p = (char*)malloc(s.size() + 1); memcpy(p, s.c_str(), s.size() + 1); return p; }
long nn(long v, long m) { return ((v % m) + m) % m; }

bool fileExists(const std::string& p, time_t* mt = nullptr) { struct stat st; if (stat(p.c_str(), &st) != 0) return false; if (mt) *mt = st.st_mtime; return true; }
}  // namespace

void pbt_warmup() {
  LedgerPause lp;
  signal(SIGPIPE, SIG_IGN);
  char rp[4096];
  std::string out = realpath(g_ctx.outdir.c_str(), rp) ? rp : g_ctx.outdir;
  for (char c : out) if (needsQuotes(c) || c == '\\') { fprintf(stderr, "c20_proc: the --out directory must not contain blanks, quotes or backslashes: %s\n", out.c_str()); exit(2); }
  std::string src = __FILE__;
  size_t sl = src.rfind('/');
  src = (sl == std::string::npos ? std::string(".") : src.substr(0, sl)) + "/c20_child.cpp";
  g_child = out + "/c20_child";
  g_report = out + "/c20_report";
  time_t ms = 0, mb = 0;
  if (!fileExists(src, &ms)) { fprintf(stderr, "c20_proc: %s not found\n", src.c_str()); exit(2); }
  if (!fileExists(g_child, &mb) || mb < ms) {
    char tmp[4200]; snprintf(tmp, sizeof tmp, "%s.tmp%d", g_child.c_str(), (int)getpid());
    std::string cmd = "ASAN_OPTIONS= c++ -O1 -o '" + std::string(tmp) + "' '" + src + "' && mv '" + std::string(tmp) + "' '" + g_child + "'";
    int rc = system(cmd.c_str());
    if (rc != 0 || !fileExists(g_child)) { fprintf(stderr, "c20_proc: building the helper child failed (%d): %s\n", rc, cmd.c_str()); exit(2); }
  }
  setenv(MARKER, "init", 1);
  // library statics
  String w("x"); String w2(w); w2.append('y');
  { Map<String, String> m; m.insert("a", "b"); List<String> l; l.append("c"); }
}

// ---------------------------------------------------------------- generator
namespace {
std::string rword(Rng& r) {
  static const char ALPHA[] = "ab c\"=-$'*x\t\"  zq";
  int n = (int)r.below(9);
  if (r.chance(8)) n = 0;
  std::string s;
  for (int i = 0; i < n; ++i) {
    if (r.chance(4)) s += '\\';
    else if (r.chance(4)) s += (char)(0x80 + r.below(128));
    else s += ALPHA[r.below(sizeof ALPHA - 1)];
  }
  return s;
}
}

void pbt_generate(Rng& r, int size, Case& c) {
  int nruns = 1 + (size >= 8 ? (int)r.below(2) : 0) + (size >= 20 ? (int)r.below(2) : 0);
  static const char* const KEYS[] = {"A", "PATH", "HOME", "C20_X", "k", "_", "A1", "C20_MARKER", "LANG"};
  for (int k = 0; k < nruns; ++k) {
    if (r.chance(20)) { c.add("pair", (long)r.below(1024), (long)r.below(4096), (long)r.below(65536), (long)r.below(16)); continue; }
    if (r.chance(30)) {   // the parent changes its own environment through the library: inherited by children started without a map
      int np = 1 + (int)r.below(3);
      static const char* const PKEYS[] = {"C20_P0", "C20_P1", "C20_P2", "C20_MARKER2"};
      for (int j = 0; j < np; ++j) c.add("penv", 0, 0, 0, 0, std::string(PKEYS[r.below(4)]) + "=" + (r.chance(30) ? std::string() : rword(r)));
    }
    if (r.chance(45)) {
      int ne = 1 + (int)r.below(5);
      for (int j = 0; j < ne; ++j) {
        std::string v = r.chance(15) ? std::string() : rword(r);
        c.add("env", 0, 0, 0, 0, std::string(KEYS[r.below(sizeof KEYS / sizeof *KEYS)]) + "=" + v);
      }
    }
    int na = (int)r.below(5);
    for (int j = 0; j < na; ++j) c.add("arg", (long)r.below(4), (long)r.below(9), 0, 0, rword(r));
    static const int SW[] = {15, 15, 12, 12, 12, 12, 12, 10};
    c.add("io", r.weighted(SW, 8), r.weighted(SW, 8), r.weighted(SW, 8), (long)r.below(32));
    static const int FW[] = {30, 14, 14, 14, 20, 8};
    long form = r.weighted(FW, 6);
    long streams = (long)r.below(8) | (r.chance(18) ? 8 : 0);
    static const int EW[] = {55, 15, 15, 15};
    long mode = (long)r.below(3) | ((long)r.weighted(EW, 4) << 2) | ((long)r.below(16) << 4) | ((long)r.below(4) << 8) | ((long)r.below(2) << 10) | ((long)r.below(2) << 11) | ((long)(r.chance(12) ? 1 : 0) << 12) | ((long)(r.below(800) == 0 ? 1 : 0) << 13);   // bit 13: a child that stays silent for more than a second before it writes
    long code = r.chance(25) ? (long)(r.chance(50) ? 0 : 255) : (long)r.below(256);
    c.add("run", form, streams, code, mode);
  }
}

bool pbt_nontrivial(const Ctx& ctx) { return ctx.has("big_two_streams") || ctx.has("cmd_escaped_quote"); }

// ---------------------------------------------------------------- interpreter
namespace {
void failf(Ctx& ctx, const std::string& kind, const std::string& d) { ctx.fail(kind, d); }

void runOne(const Op& op, Pending& pd, Ctx& ctx, Process*& kept) {
  long form = nn(op.a[0], 6);
  uint streams = (uint)(op.a[1] & 7);
  bool useStart = (op.a[1] & 8) != 0;
  long code = nn(op.a[2], 256);
  long mode = op.a[3] < 0 ? -op.a[3] : op.a[3];
  int readMode = (int)(mode & 3), endMode = (int)((mode >> 2) & 3);
  bool again = (mode >> 4) & 1, chunkedWrite = (mode >> 5) & 1, errFirst = (mode >> 6) & 1, quoteExe = (mode >> 7) & 1;
  int variant = (int)((mode >> 8) & 3);
  if (form == 4) useStart = false;
  if (form == 5 && variant == 2) useStart = false;
  if (useStart) streams = 0;
  if (form == 5 && endMode == 3) endMode = 0;  // a child without arguments cannot be told to pause
  bool hang = endMode == 3;
  bool noRead = ((mode >> 12) & 1) && !useStart && !hang && form != 5 && endMode <= 1 && (streams & (Process::stdoutStream | Process::stderrStream));

  // ---- environment
  std::map<std::string, std::string> envModel;
  for (auto& kv : pd.env) envModel[kv.first] = kv.second;
  bool listForm = form == 4 || (form == 5 && variant == 2);
  if (listForm && !envModel.empty() && ctx.excluded("C20-open-list-drops-env")) envModel.clear();
  char mark[48]; snprintf(mark, sizeof mark, "m%ld-%ld", code, (long)ctx.opIndex);
  setenv(MARKER, mark, 1);
  ctx.label(envModel.empty() ? "env_inherit" : "env_given");

  // ---- payloads
  bool inR = (streams & Process::stdinStream) != 0, outR = (streams & Process::stdoutStream) != 0, errR = (streams & Process::stderrStream) != 0;
  std::string inBytes = inR && !hang && form != 5 ? pattern((size_t)SZ[nn(pd.i, 8)], 3) : std::string();
  size_t no = outR && !hang && form != 5 ? (size_t)SZ[nn(pd.o, 8)] : 0, ne = errR && !hang && form != 5 ? (size_t)SZ[nn(pd.e, 8)] : 0;
  if (noRead) { if (no > 3000) no = 3000; if (ne > 3000) ne = 3000; if (inBytes.size() > 3000) inBytes.resize(3000); }   // everything fits into the pipes
  bool echoOut = outR && inR && !hang && form != 5 && ((pd.c >> 3) & 1), echoErr = errR && inR && !hang && form != 5 && ((pd.c >> 4) & 1);
  std::string expOut = (echoOut ? inBytes : std::string()) + pattern(no, 1);
  std::string expErr = (echoErr ? inBytes : std::string()) + pattern(ne, 2);
  size_t chunk = CHUNK[nn(pd.c & 7, 6)];
  size_t biggest = std::max(inBytes.size(), std::max(expOut.size(), expErr.size()));
  if (chunk < biggest / 1000) chunk = biggest / 1000;
  int nRedirected = (int)inR + (int)outR + (int)errR;
  if (nRedirected >= 2) ctx.label("streams>=2");
  if (biggest >= 65536) ctx.label("payload>=pipe");
  if (nRedirected >= 2 && biggest >= 65536) ctx.label("big_two_streams");
  if (echoOut || echoErr) ctx.label("echo");
  if (inR) ctx.label("stdin_redirected");

  // a child that is silent for 1.3 s before it writes: reading its output has to wait through that, however the wait is sliced
  bool slowChild = ((mode >> 13) & 1) && !noRead && !hang && !useStart && form != 5 && (streams & (Process::stdoutStream | Process::stderrStream));
  if (slowChild) ctx.label("child_silent_for_more_than_a_second");
  // ---- argument vector
  char ctl[160];
  snprintf(ctl, sizeof ctl, "x%ld,i%d,O%d,E%d,o%zu,e%zu,f%d,h%d%s", code, inR && !hang ? 1 : 0, (int)echoOut, (int)echoErr, no, ne, (int)errFirst, (int)hang, noRead ? ",w30" : slowChild ? ",w1300" : "");
  std::vector<std::string> expArgv;
  bool freeBackslash = false;
  expArgv.push_back(g_child);
  std::string cmdline;
  if (form != 5) {
    expArgv.push_back(g_report);
    expArgv.push_back(ctl);
    bool uq = false, esc = false;
    if (form == 0) { cmdline = renderWord(g_child, quoteExe ? 1 : 0, 0, uq, esc) + " " + g_report + " " + ctl; }
    for (auto& w : pd.args) {
      std::string s = w.s;
      if (form == 0) {
        // A backslash stays only where it cannot be taken for the escape of a quote: followed by a character that is neither a
        // quote nor a backslash, and not at the end of the word (words with q bit 2 set keep none at all).
        for (size_t ci = 0; ci < s.size(); ++ci)
          if (s[ci] == '\\') {
            bool keep = !(w.q & 4) && ci + 1 < s.size() && s[ci + 1] != '"' && s[ci + 1] != '\\';
            if (keep) { freeBackslash = true; } else s[ci] = '/';
          }
        if (s.empty()) ctx.label(&w == &pd.args.back() ? "cmd_empty_word_last" : "cmd_empty_word");
        cmdline += " " + renderWord(s, w.q, w.sp, uq, esc);
      }
      expArgv.push_back(s);
    }
    if (uq) ctx.label("cmd_quoted");
    if (esc) ctx.label("cmd_escaped_quote");
    if (freeBackslash && form == 0) ctx.label(uq ? "cmd_backslash_in_quotes" : "cmd_backslash");
  } else if (variant == 3) cmdline = g_child;

  // ---- start
  unlink(g_report.c_str());
  Map<String, String> env;
  for (auto& kv : envModel) env.insert(String(kv.first.data(), kv.first.size()), String(kv.second.data(), kv.second.size()));
  String exe(g_child.data(), g_child.size());
  Process* P = kept;
  kept = nullptr;
  if (P) ctx.label("object_reused");
  else {
    P = new Process;
    if (P->getProcessId() != 0) failf(ctx, "mismatch:getProcessId", "a new Process has a process id");
  }
  if (P->isRunning()) failf(ctx, "mismatch:isRunning", "isRunning() is true before anything was started");
  std::vector<char*> blocks;   // exactly sized argv strings
  char** av = nullptr; int ac = 0;
  List<String> lst;
  const char* formName = "";
  bool viaCmd = false, viaList = false;
  const std::string placeholder = (mode >> 10) & 1 ? g_child : std::string("argv0-placeholder");
  auto fill = [&](const std::string& first, bool nullSlot) {
    size_t n = expArgv.size();
    av = (char**)malloc(sizeof(char*) * (n + (nullSlot ? 1 : 0)));
    for (size_t i = 0; i < n; ++i) { av[i] = exact(i == 0 ? first : expArgv[i]); blocks.push_back(av[i]); }
    if (nullSlot) av[n] = nullptr;
  };
  switch (form) {
    case 0: viaCmd = true; formName = "cmdline"; break;
    case 1: fill(g_child, true); ac = (int)expArgv.size() + 1; formName = "argv_nullcounted"; break;
    case 2: fill(placeholder, false); ac = (int)expArgv.size(); formName = "argv_exact"; break;
    case 3: fill(placeholder, true); ac = (int)expArgv.size(); formName = "argv_main"; break;
    case 4: viaList = true; lst.append(String(placeholder.data(), placeholder.size())); for (size_t i = 1; i < expArgv.size(); ++i) lst.append(String(expArgv[i].data(), expArgv[i].size())); formName = "list"; break;
    default:
      formName = "noargs";
      if (variant == 0) { av = nullptr; ac = 0; }
      else if (variant == 1) { fill(placeholder, false); ac = 1; }
      else if (variant == 2) viaList = true;
      else viaCmd = true;
      break;
  }
  { std::string l = std::string("form_") + formName; ctx.label(l.c_str()); }
  ctx.label(useStart ? "api_start" : "api_open");
  String cmd(cmdline.data(), cmdline.size());
  uint32 id = 0;
  if (useStart) {
    id = viaCmd ? P->start(cmd, env) : P->start(exe, ac, av, env);
    if (id == 0) failf(ctx, "start-failed", std::string("start() returned 0, form ") + formName);
    if (P->getProcessId() != id) failf(ctx, "mismatch:getProcessId", "getProcessId() differs from the value start() returned");
  } else {
    bool ok = viaCmd ? P->open(cmd, streams, env) : viaList ? P->open(exe, lst, streams, env) : P->open(exe, ac, av, streams, env);
    if (!ok) failf(ctx, "open-failed", std::string("open() returned false, form ") + formName);
    id = P->getProcessId();
    if (id == 0) failf(ctx, "mismatch:getProcessId", "getProcessId() is 0 after open()");
  }
  if (!P->isRunning()) failf(ctx, "mismatch:isRunning", "isRunning() is false after a successful start");
  pid_t pid = (pid_t)id;

  // ---- talk
  std::string gotOut, gotErr;
  if (!hang) {
    if (inR) {
      size_t off = 0;
      while (off < inBytes.size()) {
        size_t n = chunkedWrite ? std::min(chunk, inBytes.size() - off) : inBytes.size() - off;
        ssize k = P->write(inBytes.data() + off, n);
        if (k <= 0) failf(ctx, "write-failed", "write() returned " + std::to_string((long)k) + " at offset " + std::to_string(off) + " errno " + std::to_string(errno));
        off += (size_t)k;
      }
      P->close(Process::stdinStream);
    }
    uint open_ = streams & (Process::stdoutStream | Process::stderrStream);
    if (noRead) { open_ = 0; ctx.label("join_without_reading"); }
    char* buf = (char*)malloc(chunk);
    if (readMode == 1) {
      ctx.label("read_sequential");
      for (int pass = 0; pass < 2; ++pass) {
        bool isErr = (pass == 0) == errFirst;
        uint bit = isErr ? Process::stderrStream : Process::stdoutStream;
        if (!(open_ & bit)) continue;
        for (;;) {
          ssize k; uint s = bit;
          if (!isErr && (pd.c & 1)) k = P->read(buf, chunk); else k = P->read(buf, chunk, s);
          if (k < 0) failf(ctx, "read-failed", "read() returned -1, errno " + std::to_string(errno));
          if (s != bit) failf(ctx, "mismatch:read-stream", "read() reported a stream that was not requested");
          if (k == 0) break;
          if ((size_t)k > chunk) failf(ctx, "mismatch:read-length", "read() returned more than the buffer holds");
          (isErr ? gotErr : gotOut).append(buf, (size_t)k);
        }
      }
    } else if (open_) {
      ctx.label("read_multiplexed");
      uint want = open_, atEof = 0;
      while ((open_ & ~atEof) != 0) {
        uint s = readMode == 2 ? want : (open_ & ~atEof);
        uint asked = s;
        ssize k = P->read(buf, chunk, s);
        if (k < 0) failf(ctx, "read-failed", "read(.., streams) returned -1, errno " + std::to_string(errno));
        if ((s != Process::stdoutStream && s != Process::stderrStream) || !(asked & s) || (atEof & s)) failf(ctx, "mismatch:read-stream", "read(.., streams) reported stream " + std::to_string(s) + " for request " + std::to_string(asked));
        if (k == 0) { atEof |= s; if (readMode == 2) P->close(s); continue; }
        if ((size_t)k > chunk) failf(ctx, "mismatch:read-length", "read() returned more than the buffer holds");
        (s == Process::stderrStream ? gotErr : gotOut).append(buf, (size_t)k);
      }
    }
    free(buf);
  }

  // ---- end
  bool destroyed = false;
  switch (endMode) {
    case 0: {
      ctx.label("end_join_code");
      uint32 ec = 0xfffa2;
      if (!P->join(ec)) failf(ctx, "join-failed", "join(exitCode) returned false");
      long want = form == 5 ? 77 : code;
      if (form == 5 && ec == 78) failf(ctx, "mismatch:argv", "a child started without arguments did not even get its own name as argv[0] (empty argument vector)");
      if ((long)ec != want) failf(ctx, "mismatch:exit-code", "join() reported exit code " + std::to_string(ec) + ", the child exited with " + std::to_string(want));
      break;
    }
    case 1: ctx.label("end_join"); if (!P->join()) failf(ctx, "join-failed", "join() returned false"); break;
    case 2: ctx.label("end_destructor"); delete P; P = nullptr; destroyed = true; break;
    default: ctx.label("end_kill"); if (!P->kill()) failf(ctx, "kill-failed", "kill() returned false for a running child"); break;
  }
  { int st; errno = 0; pid_t w = waitpid(pid, &st, WNOHANG); if (!(w == -1 && errno == ECHILD)) failf(ctx, "not-reaped", "the child was not waited for (waitpid returned " + std::to_string((long)w) + ")"); }
  if (!destroyed) {
    if (P->isRunning()) failf(ctx, "mismatch:isRunning", "isRunning() is true after join/kill");
    if (again) {
      ctx.label("join_again");
      uint32 e2 = 4242;
      if (P->join(e2)) failf(ctx, "mismatch:double-join", "a second join() returned true");
      if (P->kill()) failf(ctx, "mismatch:double-join", "kill() after join returned true");
      if (P->isRunning()) failf(ctx, "mismatch:isRunning", "isRunning() is true after a failed join");
    }
    if ((mode >> 11) & 1) kept = P; else delete P;   // a joined Process object may be used for the next child
  }
  for (char* b : blocks) free(b);
  free(av);

  // ---- what the child saw
  if (hang) return;
  Report rep; std::string text;
  if (form == 5) {
    if (!outR) return;   // the only witness is the exit code 77
    text = gotOut;
  } else {
    if (!readFile(g_report, text)) failf(ctx, "no-report", std::string("the child left no report (form ") + formName + ")");
  }
  std::string bad = parseReport(text, rep);
  if (!bad.empty()) failf(ctx, "bad-report", bad + " (form " + formName + ")");
  if (rep.done != 0) failf(ctx, "child-incomplete", "the child did not finish its stream traffic cleanly (D " + std::to_string(rep.done) + ")");
  // A backslash that escapes nothing is not covered by the quoting rules of the statement (it may be kept or dropped); such words
  // are compared without their backslashes. What the statement does demand is that the start terminates and everything else arrives.
  if (freeBackslash && form == 0) {
    auto strip = [](std::vector<std::string>& v) { for (auto& w : v) { std::string r; for (char ch : w) if (ch != '\\') r += ch; w = r; } };
    strip(rep.argv); strip(expArgv);
  }
  if (rep.argv != expArgv) {
    std::string d = std::string("form ") + formName + ": child argc " + std::to_string(rep.argv.size()) + ", expected " + std::to_string(expArgv.size());
    for (size_t i = 0; i < std::max(rep.argv.size(), expArgv.size()); ++i)
      if (i >= rep.argv.size() || i >= expArgv.size() || rep.argv[i] != expArgv[i]) {
        d += "; argv[" + std::to_string(i) + "] is \"" + (i < rep.argv.size() ? printable(rep.argv[i]) : std::string("<none>")) + "\", expected \"" + (i < expArgv.size() ? printable(expArgv[i]) : std::string("<none>")) + "\"";
        break;
      }
    if (form == 0) d += "; command line: " + printable(cmdline, 200);
    failf(ctx, "mismatch:argv", d);
  }
  std::vector<std::string> got = rep.env; std::sort(got.begin(), got.end());
  if (!envModel.empty()) {
    std::vector<std::string> want; for (auto& kv : envModel) want.push_back(kv.first + "=" + kv.second);
    std::sort(want.begin(), want.end());
    if (got != want) {
      std::string d = std::string("form ") + formName + (useStart ? " start" : " open") + ": child has " + std::to_string(got.size()) + " variables, given " + std::to_string(want.size());
      for (auto& w : want) if (!std::binary_search(got.begin(), got.end(), w)) { d += "; missing \"" + printable(w) + "\""; break; }
      for (auto& g : got) if (!std::binary_search(want.begin(), want.end(), g)) { d += "; unexpected \"" + printable(g) + "\""; break; }
      failf(ctx, "mismatch:env", d);
    }
  } else {
    std::string m = std::string(MARKER) + "=" + mark;
    if (!std::binary_search(got.begin(), got.end(), m)) failf(ctx, "mismatch:env-inherit", "the marker variable " + m + " did not reach the child");
    for (char** e = environ; *e; ++e) if (!std::binary_search(got.begin(), got.end(), std::string(*e))) failf(ctx, "mismatch:env-inherit", "parent variable missing in the child: " + printable(*e));
    { std::vector<std::string> par; for (char** e = environ; *e; ++e) par.push_back(*e); std::sort(par.begin(), par.end());
      for (auto& g : got) if (!std::binary_search(par.begin(), par.end(), g)) failf(ctx, "mismatch:env-inherit", "the child has a variable the parent does not have: " + printable(g)); }
  }
  if (form == 5) return;
  if (inR) {
    uint64_t h = fnv(inBytes);
    if (rep.inLen != (long)inBytes.size() || rep.inHash != h) failf(ctx, "mismatch:stdin", "wrote " + std::to_string(inBytes.size()) + " bytes to stdin, the child read " + std::to_string(rep.inLen) + (rep.inLen == (long)inBytes.size() ? " (content differs)" : ""));
  }
  auto cmp = [&](const char* nm, const std::string& g, const std::string& w) {
    if (g == w) return;
    size_t k = 0; while (k < g.size() && k < w.size() && g[k] == w[k]) ++k;
    failf(ctx, std::string("mismatch:") + nm, std::string(nm) + ": read " + std::to_string(g.size()) + " bytes until end-of-file, the child wrote " + std::to_string(w.size()) + "; first difference at offset " + std::to_string(k));
  };
  if (noRead) return;   // the output was never asked for
  if (outR) cmp("stdout", gotOut, expOut);
  if (errR) cmp("stderr", gotErr, expErr);
}
}  // namespace

namespace {
// Two children alive at the same time ("pair sel sizes codes flags"): each gets its stdin redirected, reads it to end-of-file and
// only then echoes it to stdout followed by a pattern; the steps open / write / close(stdin) / read to end-of-file / join of the
// two are interleaved in a generated order (each child's own order kept). Every such interleaving terminates with a Process
// implementation whose children depend on nothing but their own pipes: a child must see the end of its stdin when ITS parent end is
// closed, whatever other children exist, and ending one child must not disturb the streams of the other.
void runPair(const Op& op, Ctx& ctx) {
  long sel = op.a[0] < 0 ? -op.a[0] : op.a[0], sizes = op.a[1] < 0 ? -op.a[1] : op.a[1], codes = op.a[2] < 0 ? -op.a[2] : op.a[2], flags = op.a[3] < 0 ? -op.a[3] : op.a[3];
  static const long PSZ[] = {0, 1, 100, 4096, 65536, 70001};
  struct Side { Process* p = nullptr; std::string in, expOut, got, report; long code = 0; size_t no = 0; int step = 0; bool errToo = false; uint streams = 0; pid_t pid = 0; } S[2];
  for (int k = 0; k < 2; ++k) {
    Side& x = S[k];
    x.in = pattern((size_t)PSZ[(sizes >> (3 * k)) % 6], 3 + k);
    x.no = (size_t)PSZ[(sizes >> (6 + 3 * k)) % 6];
    x.expOut = x.in + pattern(x.no, 1);
    x.code = (codes >> (8 * k)) & 255;
    x.errToo = (flags >> k) & 1;
    x.streams = Process::stdinStream | Process::stdoutStream | (x.errToo ? (uint)Process::stderrStream : 0u);
    x.report = g_report + (k ? ".B" : ".A");
    unlink(x.report.c_str());
    x.p = new Process;
  }
  // interleaving: 10 steps, bit i of the selector chooses the side when both still have steps left
  ctx.label("pair");
  bool overlapAtClose = false;
  for (int n = 0; n < 10; ++n) {
    int k = (sel >> n) & 1;
    if (S[k].step >= 5) k = 1 - k;
    Side& x = S[k]; Side& y = S[1 - k];
    std::string who = k ? "B" : "A";
    switch (x.step++) {
      case 0: {
        char ctl[160]; snprintf(ctl, sizeof ctl, "x%ld,i1,O1,E0,o%zu,e%d,f0,h0", x.code, x.no, x.errToo ? 7 : 0);
        List<String> lst; lst.append(String("child")); lst.append(String(x.report.data(), x.report.size())); lst.append(String(ctl));
        Map<String, String> env;
        bool ok;
        if ((flags >> (2 + k)) & 1) { std::string cl = g_child + " " + x.report + " " + ctl; ok = x.p->open(String(cl.data(), cl.size()), x.streams, env); }
        else ok = x.p->open(String(g_child.data(), g_child.size()), lst, x.streams, env);
        if (!ok) failf(ctx, "open-failed", "pair: open() of child " + who + " returned false");
        x.pid = (pid_t)x.p->getProcessId();
        if (y.step >= 1 && y.step < 5) ctx.label("pair_second_child_started_while_first_alive");
        if (y.step >= 3 && y.step < 5) ctx.label("pair_open_after_other_closed_stdin");
        break;
      }
      case 1: {
        size_t off = 0;
        while (off < x.in.size()) { ssize w = x.p->write(x.in.data() + off, x.in.size() - off); if (w <= 0) failf(ctx, "write-failed", "pair: write() to child " + who + " returned " + std::to_string((long)w)); off += (size_t)w; }
        break;
      }
      case 2: x.p->close(Process::stdinStream); if (y.step >= 1 && y.step < 5) { overlapAtClose = true; ctx.label("pair_stdin_closed_while_other_child_alive"); } break;
      case 3: {
        char* buf = (char*)malloc(8192); uint open_ = x.streams & (Process::stdoutStream | Process::stderrStream), atEof = 0; std::string gotErr;
        while (open_ & ~atEof) {
          uint s = open_ & ~atEof;
          ssize r = x.p->read(buf, 8192, s);
          if (r < 0) failf(ctx, "read-failed", "pair: read() from child " + who + " returned -1, errno " + std::to_string(errno) + (y.step >= 5 ? " (after the other child was joined)" : ""));
          if (r == 0) { atEof |= s; continue; }
          (s == Process::stderrStream ? gotErr : x.got).append(buf, (size_t)r);
        }
        free(buf);
        if (x.errToo && gotErr != pattern(7, 2)) failf(ctx, "mismatch:stderr", "pair: child " + who + " wrote 7 bytes to stderr, read " + std::to_string(gotErr.size()));
        break;
      }
      default: {
        uint32 ec = 0xfffa2;
        if (!x.p->join(ec)) failf(ctx, "join-failed", "pair: join() of child " + who + " returned false");
        if ((long)ec != x.code) failf(ctx, "mismatch:exit-code", "pair: join() of child " + who + " reported exit code " + std::to_string(ec) + ", it exited with " + std::to_string(x.code));
        if (y.step >= 1 && y.step < 5) ctx.label("pair_join_while_other_child_alive");
        break;
      }
    }
  }
  (void)overlapAtClose;
  for (int k = 0; k < 2; ++k) {
    Side& x = S[k]; std::string who = k ? "B" : "A";
    delete x.p;
    if (x.got != x.expOut) {
      size_t q = 0; while (q < x.got.size() && q < x.expOut.size() && x.got[q] == x.expOut[q]) ++q;
      failf(ctx, "mismatch:stdout", "pair: child " + who + ": read " + std::to_string(x.got.size()) + " bytes until end-of-file, the child wrote " + std::to_string(x.expOut.size()) + "; first difference at offset " + std::to_string(q));
    }
    Report rep; std::string text;
    if (!readFile(x.report, text)) failf(ctx, "no-report", "pair: child " + who + " left no report");
    std::string bad = parseReport(text, rep);
    if (!bad.empty()) failf(ctx, "bad-report", "pair: child " + who + ": " + bad);
    if (rep.done != 0) failf(ctx, "child-incomplete", "pair: child " + who + " did not finish its stream traffic cleanly (D " + std::to_string(rep.done) + ")");
    if (rep.inLen != (long)x.in.size() || rep.inHash != fnv(x.in)) failf(ctx, "mismatch:stdin", "pair: wrote " + std::to_string(x.in.size()) + " bytes to the stdin of child " + who + ", it read " + std::to_string(rep.inLen));
    unlink(x.report.c_str());
  }
}
}  // namespace

namespace {
// the parent's own environment must survive every start / open unchanged (apart from what the case itself sets): a launch that
// leaves ::environ pointing somewhere else poisons everything that comes later in the process
std::vector<std::string> envSnapshot() { std::vector<std::string> v; for (char** e = environ; e && *e; ++e) if (strncmp(*e, "C20_", 4) != 0) v.push_back(*e); std::sort(v.begin(), v.end()); return v; }
}
void pbt_run(const Case& c, Ctx& ctx) {
  setenv(MARKER, "init", 1);
  unsetenv("C20_P0"); unsetenv("C20_P1"); unsetenv("C20_P2"); unsetenv("C20_MARKER2");   // a case is a pure function of its text
  setenv("C20_EMPTY", "", 1);   // (a variable with an empty value is part of every inherited environment)
  int fds0 = countFds();
  {
    Pending pd;
    Process* kept = nullptr;
    const std::vector<std::string> env0 = envSnapshot();
    long idx = 0; int runs = 0;
    for (const Op& op : c.ops) {
      ctx.opIndex = idx++;
      if (op.name == "env") {
        std::string d(op.data.c_str());
        size_t eq = d.find('=');
        std::string k = eq == std::string::npos ? d : d.substr(0, eq), v = eq == std::string::npos ? std::string() : d.substr(eq + 1);
        if (k.empty()) k = "K";
        bool known = false; for (auto& kv : pd.env) if (kv.first == k) { kv.second = v; known = true; }
        if (!known) { if (pd.env.size() >= 5) ctx.count("skipped"); else pd.env.push_back({k, v}); }
      } else if (op.name == "penv") {
        std::string d(op.data.c_str());
        size_t eq = d.find('=');
        std::string k = eq == std::string::npos ? d : d.substr(0, eq), v = eq == std::string::npos ? std::string() : d.substr(eq + 1);
        if (k.compare(0, 4, "C20_") != 0 || k.find('=') != std::string::npos) { ctx.count("skipped"); continue; }
        bool ok = Process::setEnvironmentVariable(String(k.data(), k.size()), String(v.data(), v.size()));
        const char* now = getenv(k.c_str());
        // an empty value removes the variable
        if (v.empty() ? now != nullptr : (now == nullptr || v != now)) failf(ctx, "mismatch:setenv", "after setEnvironmentVariable(\"" + k + "\", \"" + printable(v) + "\") the variable " + (now ? "is \"" + printable(now) + "\"" : std::string("is not set")));
        if (!ok) failf(ctx, "mismatch:setenv-result", "setEnvironmentVariable(\"" + k + "\", \"" + printable(v) + "\") changed the environment as asked but returned false");
        String dflt("<default>"); String gv = Process::getEnvironmentVariable(String(k.data(), k.size()), dflt);
        std::string want = now ? std::string(now) : std::string("<default>");
        if (std::string((const char*)gv, gv.length()) != want) failf(ctx, "mismatch:getenv", "getEnvironmentVariable(\"" + k + "\") returned \"" + printable(std::string((const char*)gv, gv.length())) + "\", the environment says \"" + printable(want) + "\"");
        // the whole environment as a map: one entry per name, the value of its first occurrence
        Map<String, String> all = Process::getEnvironmentVariables();
        std::map<std::string, std::string> ref; for (char** e = environ; *e; ++e) { const char* x = strchr(*e, '='); if (!x) continue; std::string kk(*e, (size_t)(x - *e)); if (!ref.count(kk)) ref[kk] = x + 1; }
        if (all.size() != ref.size()) failf(ctx, "mismatch:getenv-all", "getEnvironmentVariables() has " + std::to_string(all.size()) + " entries, the environment " + std::to_string(ref.size()) + " names");
        for (Map<String, String>::Iterator i = all.begin(); i != all.end(); ++i) { std::string kk((const char*)i.key(), i.key().length()), vv((const char*)*i, (*i).length()); auto it = ref.find(kk); if (it == ref.end() || it->second != vv) failf(ctx, "mismatch:getenv-all", "getEnvironmentVariables(): entry \"" + printable(kk) + "\" = \"" + printable(vv) + "\" differs from the environment"); }
        ctx.label(v.empty() ? "parent_env_unset" : "parent_env_set");
      } else if (op.name == "arg") {
        if (pd.args.size() >= 6) ctx.count("skipped"); else pd.args.push_back({std::string(op.data.c_str()), op.a[0], op.a[1]});
      } else if (op.name == "io") {
        pd.i = op.a[0]; pd.o = op.a[1]; pd.e = op.a[2]; pd.c = op.a[3] < 0 ? -op.a[3] : op.a[3];
      } else if (op.name == "run") {
        if (runs >= 4) { ctx.count("skipped"); continue; }
        ++runs;
        runOne(op, pd, ctx, kept);
        pd = Pending();
        if (envSnapshot() != env0) failf(ctx, "parent-environment-changed", "after a start / open the environment of the calling process differs from what it was before");
      } else if (op.name == "pair") {
        if (runs >= 4) { ctx.count("skipped"); continue; }
        ++runs;
        runPair(op, ctx);
      } else ctx.count("unknown_op");
    }
    delete kept;
  }
  ctx.opIndex = -2;
  { int st; errno = 0; pid_t w = waitpid(-1, &st, WNOHANG); if (!(w == -1 && errno == ECHILD)) ctx.fail("not-reaped", "a child process is left after the case"); }
  int fds1 = countFds();
  if (fds0 != fds1) ctx.fail("fd-leak", "open file descriptors before the case: " + std::to_string(fds0) + ", after: " + std::to_string(fds1));
}
