// C18: text codecs and numeric conversions. Plain enumerator; oracle/c18.py judges the records with Python's codecs / int / base64.
//   c18_codec unicode                 all 1,114,112 code points (+ values above): "U <cp> <hex of toString> <fromString> <length(lead)>"
//   c18_codec decoders <maxlen>       all byte strings up to maxlen through length / isValid / fromString on exactly sized blocks (ASan); prints counts
//   c18_codec numbers <seed> <n>      "I <kind> <text from String> <value by libc> <back-conversion ok>"
//   c18_codec hex <seed> <n>          "X <inhex> <fromHex>"
//   c18_codec b64 <file>              file lines "<base64> <expected hex>": prints "B <base64> <hex of fromBase64>"
//   c18_codec b64junk <seed> <n>      all strings of length 4 over a 40 symbol alphabet + n random longer ones: must not crash (ASan/UBSan bounds)
#include <nstd/Unicode.hpp>
#include <nstd/String.hpp>
#include <cstdio>
#include <cstdlib>
#include <cstring>
#include <string>
#include <climits>
#include <cstdint>

static uint64_t rs = 1;
static uint64_t rnd() { rs += 0x9E3779B97F4A7C15ull; uint64_t z = rs; z = (z ^ (z >> 30)) * 0xBF58476D1CE4E5B9ull; z = (z ^ (z >> 27)) * 0x94D049BB133111EBull; return z ^ (z >> 31); }
static std::string hex(const unsigned char* d, size_t n) { static const char* H = "0123456789abcdef"; std::string r; for (size_t i = 0; i < n; ++i) { r += H[d[i] >> 4]; r += H[d[i] & 15]; } if (!n) r = "-"; return r; }

// strict reference decoder for one code point at the start of [p,p+n): returns -1 if not a valid (generalised, i.e. surrogates allowed) UTF-8 sequence of exactly the lead byte's length
static long refDecode(const unsigned char* p, size_t n, size_t& len) {
  if (!n) return -1; unsigned c = p[0];
  if (c < 0x80) { len = 1; return c; }
  int l = (c & 0xE0) == 0xC0 ? 2 : (c & 0xF0) == 0xE0 ? 3 : (c & 0xF8) == 0xF0 ? 4 : 0;
  if (!l || n < (size_t)l) return -1;
  long cp = l == 2 ? (c & 0x1F) : l == 3 ? (c & 0x0F) : (c & 0x07);
  for (int k = 1; k < l; ++k) { if ((p[k] & 0xC0) != 0x80) return -1; cp = (cp << 6) | (p[k] & 0x3F); }
  len = (size_t)l; return cp;
}

static void decoders(size_t maxlen) {
  unsigned long long total = 0, validCount = 0, multi = 0, truncated = 0, agree = 0;
  // length() of every byte value: 1 for ASCII, 2..4 for the UTF-8 lead bytes, 0 for continuation bytes and for 0xF8..0xFF
  for (unsigned b = 0; b < 256; ++b) {
    usize want = b < 0x80 ? 1 : (b & 0xE0) == 0xC0 ? 2 : (b & 0xF0) == 0xE0 ? 3 : (b & 0xF8) == 0xF0 ? 4 : 0, got = Unicode::length((char)b);
    if (got != want) { printf("MISMATCH length of byte %02x lib=%u ref=%u\n", b, (unsigned)got, (unsigned)want); fflush(stdout); exit(1); }
  }
  // every lead byte followed by eight continuation bytes, in an exactly sized block: fromString must stay inside its tables and the block
  for (unsigned b = 0x80; b < 256; ++b) for (size_t len = 1; len <= 9; ++len) {
    char* p = (char*)malloc(len); p[0] = (char)b; for (size_t k = 1; k < len; ++k) p[k] = (char)(0x80 | (k * 7 & 0x3F));
    (void)Unicode::fromString(p, len); (void)Unicode::isValid(p, len); free(p); ++total;
  }
  unsigned char buf[4];
  for (size_t len = 0; len <= maxlen; ++len) {
    unsigned long long combos = 1; for (size_t k = 0; k < len; ++k) combos *= 256;
    for (unsigned long long v = 0; v < combos; ++v) {
      for (size_t k = 0; k < len; ++k) buf[k] = (unsigned char)(v >> (8 * k));
      // exactly sized heap block: any read outside [p, p+len) is an ASan report
      // (the empty range lies at the very end of a one byte block that holds a continuation byte)
      char* blk = (char*)malloc(len ? len : 1); char* p = len ? blk : blk + 1; if (len) memcpy(p, buf, len); else blk[0] = (char)0xA5;
      bool valid = Unicode::isValid(p, len);
      uint32 cp = Unicode::fromString(p, len);
      if (!len && cp != 0) { printf("MISMATCH fromString of the empty range lib=%u ref=0\n", cp); fflush(stdout); exit(1); }
      usize l = len ? Unicode::length(p[0]) : 0;
      ++total; if (valid) ++validCount;
      if (len && (buf[0] & 0x80)) { ++multi; if (l > len) ++truncated; }
      // whole string valid per the reference <=> isValid (generalised UTF-8: over-long forms and surrogates are not rejected by either)
      bool refValid = true; size_t off = 0; while (off < len) { size_t sl = 0; if (refDecode(buf + off, len - off, sl) < 0) { refValid = false; break; } off += sl; }
      if (refValid != valid) { printf("MISMATCH isValid %s lib=%d ref=%d\n", hex(buf, len).c_str(), (int)valid, (int)refValid); fflush(stdout); exit(1); }
      size_t sl = 0; long rcp = refDecode(buf, len, sl);
      if (rcp >= 0) { ++agree; if ((long)cp != rcp) { printf("MISMATCH fromString %s lib=%u ref=%ld\n", hex(buf, len).c_str(), cp, rcp); fflush(stdout); exit(1); } }
      free(blk);
    }
  }
  printf("D total=%llu valid=%llu multibyte_lead=%llu truncated_tail=%llu decoded_equal=%llu\n", total, validCount, multi, truncated, agree);
}

int main(int argc, char** argv) {
  if (argc < 2) return 2;
  std::string mode = argv[1];
  if (mode == "unicode") {
    for (uint32 cp = 0; cp <= 0x110010; ++cp) {
      String s = Unicode::toString(cp);
      // decode from an exactly sized copy
      usize n = s.length(); char* p = (char*)malloc(n ? n : 1); memcpy(p, (const char*)s, n);
      uint32 back = Unicode::fromString(p, n);
      usize l = n ? Unicode::length(p[0]) : 0;
      bool valid = Unicode::isValid(p, n);
      printf("U %u %s %u %u %d\n", cp, hex((const unsigned char*)p, n).c_str(), back, (unsigned)l, (int)valid);
      free(p);
    }
    // a few far-away values
    uint32 far[] = {0x110000u, 0x1FFFFFu, 0x200000u, 0x7FFFFFFFu, 0xFFFFFFFFu};
    for (uint32 cp : far) { String s = Unicode::toString(cp); String t("x"); bool ok = Unicode::append(cp, t); printf("F %u %s %d\n", cp, hex((const unsigned char*)(const char*)s, s.length()).c_str(), (int)ok); }
    return 0;
  }
  if (mode == "decoders" && argc >= 3) { decoders((size_t)atoi(argv[2])); return 0; }
  if (mode == "numbers" && argc >= 4) {
    rs = strtoull(argv[2], 0, 10) * 77 + 5; long n = atol(argv[3]);
    static const long long B[] = {0, 1, -1, 9, 10, 11, 99, 100, 101, INT_MAX, INT_MIN, (long long)INT_MAX + 1, (long long)INT_MIN - 1, UINT_MAX, (long long)UINT_MAX + 1, LLONG_MAX, LLONG_MIN, LLONG_MAX - 1, LLONG_MIN + 1};
    // the same text as a String that views part of a larger, unterminated buffer in which a digit follows (a field of a record):
    // the conversion must stop at the String's end; the block is exactly sized, so running on is also an ASan report
    auto view = [&](const String& t, char follow, auto conv) {
      usize n = t.length(); char* b = (char*)malloc(n + 1); memcpy(b, (const char*)t, n); b[n] = follow;
      bool r; { String v; v.attach(b, n); r = conv(v); }
      free(b); return r;
    };
    auto one = [&](long long sv, unsigned long long uv) {
      char fo = "0179"[rnd() % 4];
      { int v = (int)sv; String t = String::fromInt(v); if (!view(t, fo, [&](const String& s) { return s.toInt() == v; })) { printf("MISMATCH view toInt %s\n", (const char*)t); fflush(stdout); exit(1); } }
      { uint v = (uint)uv; String t = String::fromUInt(v); if (!view(t, fo, [&](const String& s) { return s.toUInt() == v; })) { printf("MISMATCH view toUInt %s\n", (const char*)t); fflush(stdout); exit(1); } }
      { int64 v = (int64)sv; String t = String::fromInt64(v); if (!view(t, fo, [&](const String& s) { return s.toInt64() == v; })) { printf("MISMATCH view toInt64 %s\n", (const char*)t); fflush(stdout); exit(1); } }
      { uint64 v = (uint64)uv; String t = String::fromUInt64(v); if (!view(t, fo, [&](const String& s) { return s.toUInt64() == v; })) { printf("MISMATCH view toUInt64 %s\n", (const char*)t); fflush(stdout); exit(1); } }
      { int v = (int)sv; String t = String::fromInt(v); String copy(t); bool ok = t.toInt() == v && String::toInt((const char*)copy) == v; printf("I int %s %d %d\n", (const char*)t, v, (int)ok); }
      { uint v = (uint)uv; String t = String::fromUInt(v); bool ok = t.toUInt() == v; printf("I uint %s %u %d\n", (const char*)t, v, (int)ok); }
      { int64 v = (int64)sv; String t = String::fromInt64(v); bool ok = t.toInt64() == v; printf("I int64 %s %lld %d\n", (const char*)t, (long long)v, (int)ok); }
      { uint64 v = (uint64)uv; String t = String::fromUInt64(v); bool ok = t.toUInt64() == v; printf("I uint64 %s %llu %d\n", (const char*)t, (unsigned long long)v, (int)ok); }
    };
    for (long long b : B) { one(b, (unsigned long long)b); one(-b, (unsigned long long)-b); }
    for (int k = 0; k < 64; ++k) { unsigned long long p2 = 1ull << k; one((long long)p2, p2); one((long long)p2 - 1, p2 - 1); one((long long)p2 + 1, p2 + 1); one(-(long long)p2, ~p2); }
    { unsigned long long p10 = 1; for (int k = 0; k < 20; ++k) { one((long long)p10, p10); one((long long)p10 - 1, p10 - 1); one(-(long long)p10, p10 + 1); p10 *= 10; } }
    one(0, 18446744073709551615ull);
    for (long i = 0; i < n; ++i) { unsigned long long r = rnd() >> (rnd() % 64); one((long long)(rnd() & 1 ? r : ~r), r); }
    return 0;
  }
  if (mode == "hex" && argc >= 4) {
    rs = strtoull(argv[2], 0, 10) * 31 + 9; long n = atol(argv[3]);
    for (long i = 0; i < n + 600; ++i) {
      size_t len = i < 256 ? 1 : i < 600 ? (size_t)(i - 256) % 70 : (size_t)(rnd() % 200);
      unsigned char* p = (unsigned char*)malloc(len ? len : 1);
      for (size_t k = 0; k < len; ++k) p[k] = i < 256 ? (unsigned char)i : (unsigned char)rnd();
      String h = String::fromHex(p, len);
      printf("X %s %s\n", hex(p, len).c_str(), h.length() ? (const char*)h : "-");
      free(p);
    }
    return 0;
  }
  if (mode == "b64" && argc >= 3) {
    FILE* f = fopen(argv[2], "r"); if (!f) return 2;
    char line[4096];
    while (fgets(line, sizeof line, f)) {
      char b64[2048], exp[4096]; if (sscanf(line, "%2047s %4095s", b64, exp) != 2) continue;
      std::string in = b64; if (in == "-") in.clear();
      String s(in.data(), in.size());
      String out = String::fromBase64(s);
      // the same text as a String attached to the start of an exactly sized (terminated) heap block: nothing in front of the text belongs to it
      { char* blk = (char*)malloc(in.size() + 1); memcpy(blk, in.data(), in.size()); blk[in.size()] = 0; String at; at.attach(blk, in.size());
        String out2 = String::fromBase64(at); if (out2.length() != out.length() || memcmp((const char*)out2, (const char*)out, out.length()) != 0) printf("MISMATCH fromBase64 of an attached text differs from fromBase64 of its copy: %s\n", b64);
        free(blk); }
      printf("B %s %s\n", b64, hex((const unsigned char*)(const char*)out, out.length()).c_str());
    }
    fclose(f); return 0;
  }
  if (mode == "b64junk" && argc >= 4) {
    rs = strtoull(argv[2], 0, 10) * 13 + 3; long n = atol(argv[3]);
    static const unsigned char AL[40] = {'A', 'Z', 'a', 'z', '0', '9', '+', '/', '=', '=', '-', '_', ' ', '\t', '\n', 1, 0x7f, 0x80, 0x81, 0xbf, 0xc0, 0xfe, 0xff, '{', '|', '}', '~', '@', '[', '`', 'M', 'm', '5', '.', ',', '*', '!', '#', 0x7b, 0x7a};
    unsigned long long cnt = 0, nonEmpty = 0, high = 0;
    for (int a = 0; a < 40; ++a) for (int b = 0; b < 40; ++b) for (int c = 0; c < 40; ++c) for (int d = 0; d < 40; ++d) {
      char in[4] = {(char)AL[a], (char)AL[b], (char)AL[c], (char)AL[d]};
      String s(in, 4); String out = String::fromBase64(s); ++cnt; if (out.length()) ++nonEmpty; if ((AL[a] | AL[b] | AL[c] | AL[d]) & 0x80) ++high;
    }
    for (long i = 0; i < n; ++i) {
      size_t len = 4 * (size_t)(1 + rnd() % 20); std::string in;
      for (size_t k = 0; k < len; ++k) in += (char)((rnd() % 4) ? AL[rnd() % 40] : (unsigned char)(1 + rnd() % 255));
      String s(in.data(), in.size()); String out = String::fromBase64(s); ++cnt; if (out.length()) ++nonEmpty;
      for (char ch : in) if (ch & 0x80) { ++high; break; }
    }
    printf("J total=%llu decoded_nonempty=%llu with_high_bytes=%llu\n", cnt, nonEmpty, high);
    return 0;
  }
  return 2;
}
