// C07: Variant keeps the last assigned value with independent lazy copies.
// Four Variant variables, value-tree model with value semantics, deep comparison of every variable after every op.
#define PBT_MAIN
#include "pbt.hpp"
#include <nstd/Variant.hpp>
#include <string>
#include <cmath>
#include <climits>
#include <cerrno>

const char* pbt_property = "C07";
const char* pbt_part = "variant";

using namespace pbt;

namespace {
const int NV = 4;
struct MV {
  Variant::Type t = Variant::nullType;
  bool b = false; double d = 0; long long i = 0; unsigned long long u = 0;
  std::string s;
  std::vector<MV> items;                             // list / array
  std::vector<std::pair<std::string, MV>> map;      // insertion ordered, unique keys
};
int depthOf(const MV& v) {
  int d = 0;
  if (v.t == Variant::listType || v.t == Variant::arrayType) { for (auto& x : v.items) d = std::max(d, depthOf(x)); return d + 1; }
  if (v.t == Variant::mapType) { for (auto& x : v.map) d = std::max(d, depthOf(x.second)); return d + 1; }
  return 0;
}
bool isContainerOrString(const MV& v) { return v.t == Variant::listType || v.t == Variant::arrayType || v.t == Variant::mapType || v.t == Variant::stringType; }

std::string fmt(const char* f, ...) { char b[512]; va_list ap; va_start(ap, f); vsnprintf(b, sizeof b, f, ap); va_end(ap); return b; }

// documented conversion to string (const accessor)
std::string toStr(const MV& v) {
  switch (v.t) {
    case Variant::boolType: return v.b ? "true" : "false";
    case Variant::doubleType: return fmt("%f", v.d);
    case Variant::intType: case Variant::int64Type: return fmt("%lld", v.i);
    case Variant::uintType: case Variant::uint64Type: return fmt("%llu", v.u);
    case Variant::stringType: return v.s;
    default: return std::string();
  }
}

const long long IB[] = {0, 1, -1, 2, 7, 42, -100, INT_MAX, INT_MIN, (long long)INT_MAX + 1, (long long)INT_MIN - 1, LLONG_MAX, LLONG_MIN, 1000000007LL, 4294967295LL, 4294967296LL};
const double DB[] = {0.0, 1.0, -1.0, 0.5, -0.5, 2.75, 1e9, -1e9, 3e9, 1e18, 1e-7, 123456.789, 2147483647.0, -2147483648.0, HUGE_VAL, -HUGE_VAL, -0.0, 1.7976931348623157e308, 4.9e-324, 1e19, 1.5e19, 9223372036854775808.0};

void fail(Ctx& ctx, const char* kind, const std::string& d) { ctx.fail(kind, d); }

void cmp(Ctx& ctx, const Variant& v, const MV& m, const std::string& path, int depth = 0) {
  if (v.getType() != m.t) fail(ctx, "mismatch:type", path + fmt(": type %d, model %d", (int)v.getType(), (int)m.t));
  if (v.isNull() != (m.t == Variant::nullType)) fail(ctx, "mismatch:isNull", path);
  switch (m.t) {
    case Variant::nullType: break;
    case Variant::boolType: if (v.toBool() != m.b) fail(ctx, "mismatch:value", path + ": bool"); break;
    case Variant::doubleType: if (v.toDouble() != m.d) fail(ctx, "mismatch:value", path + ": double"); break;
    case Variant::intType: if (v.toInt() != (int)m.i) fail(ctx, "mismatch:value", path + fmt(": int %d model %lld", v.toInt(), m.i)); break;
    case Variant::int64Type: if (v.toInt64() != (int64)m.i) fail(ctx, "mismatch:value", path + ": int64"); break;
    case Variant::uintType: if (v.toUInt() != (uint)m.u) fail(ctx, "mismatch:value", path + ": uint"); break;
    case Variant::uint64Type: if (v.toUInt64() != (uint64)m.u) fail(ctx, "mismatch:value", path + ": uint64"); break;
    case Variant::stringType: { String s = v.toString(); if (s.length() != m.s.size() || memcmp((const char*)s, m.s.data(), m.s.size()) != 0) fail(ctx, "mismatch:value", path + ": string '" + std::string((const char*)s) + "' model '" + m.s + "'"); break; }
    case Variant::listType: {
      const List<Variant>& l = v.toList();
      if (l.size() != m.items.size()) fail(ctx, "mismatch:list-size", path + fmt(": list size %zu model %zu", (size_t)l.size(), m.items.size()));
      size_t k = 0; for (List<Variant>::Iterator it = l.begin(); it != l.end(); ++it, ++k) cmp(ctx, *it, m.items[k], path + fmt("[%zu]", k), depth + 1);
      break;
    }
    case Variant::arrayType: {
      const Array<Variant>& a = v.toArray();
      if (a.size() != m.items.size()) fail(ctx, "mismatch:array-size", path + fmt(": array size %zu model %zu", (size_t)a.size(), m.items.size()));
      size_t k = 0; for (Array<Variant>::Iterator it = a.begin(); it != a.end(); ++it, ++k) cmp(ctx, *it, m.items[k], path + fmt("<%zu>", k), depth + 1);
      break;
    }
    case Variant::mapType: {
      const HashMap<String, Variant>& h = v.toMap();
      if (h.size() != m.map.size()) fail(ctx, "mismatch:map-size", path + fmt(": map size %zu model %zu", (size_t)h.size(), m.map.size()));
      size_t k = 0;
      for (HashMap<String, Variant>::Iterator it = h.begin(); it != h.end(); ++it, ++k) {
        const String& key = it.key();
        if (key.length() != m.map[k].first.size() || memcmp((const char*)key, m.map[k].first.data(), key.length()) != 0) fail(ctx, "mismatch:map-key", path + ": key order");
        cmp(ctx, *it, m.map[k].second, path + "{" + m.map[k].first + "}", depth + 1);
      }
      break;
    }
  }
  // accessors of the other container kinds return empty containers
  if (m.t != Variant::listType && !v.toList().isEmpty()) fail(ctx, "mismatch:coercion", path + ": toList() of a non-list is not empty");
  if (m.t != Variant::arrayType && !v.toArray().isEmpty()) fail(ctx, "mismatch:coercion", path + ": toArray() of a non-array is not empty");
  if (m.t != Variant::mapType && !v.toMap().isEmpty()) fail(ctx, "mismatch:coercion", path + ": toMap() of a non-map is not empty");
}

// conversions restricted to the uncontroversial cases
void conv(Ctx& ctx, const Variant& v, const MV& m, const std::string& path) {
  auto chkStr = [&](const std::string& want) { String s = v.toString(); if (s.length() != want.size() || memcmp((const char*)s, want.data(), want.size()) != 0) fail(ctx, "mismatch:coercion", path + ": toString() gives '" + std::string((const char*)s) + "', expected '" + want + "'"); };
  auto chkInts = [&](bool neg, unsigned long long mag, long long sval) {
    // value = neg ? sval : mag ; compare each integer accessor when the value is representable in its type
    if (!neg ? mag <= (unsigned long long)INT_MAX : sval >= INT_MIN) { if (v.toInt() != (int)sval) fail(ctx, "mismatch:coercion", path + fmt(": toInt() %d expected %lld", v.toInt(), sval)); }
    if (!neg && mag <= UINT_MAX) { if (v.toUInt() != (uint)mag) fail(ctx, "mismatch:coercion", path + ": toUInt()"); }
    if (neg || mag <= (unsigned long long)LLONG_MAX) { if (v.toInt64() != (int64)sval) fail(ctx, "mismatch:coercion", path + ": toInt64()"); }
    if (!neg) { if (v.toUInt64() != (uint64)mag) fail(ctx, "mismatch:coercion", path + ": toUInt64()"); }
    if (v.toBool() != (neg || mag != 0)) fail(ctx, "mismatch:coercion", path + ": toBool()");
  };
  switch (m.t) {
    case Variant::nullType:
      if (v.toBool() || v.toInt() || v.toUInt() || v.toInt64() || v.toUInt64() || v.toDouble() != 0.) fail(ctx, "mismatch:coercion", path + ": null is not 0/false");
      chkStr(""); break;
    case Variant::boolType:
      if (v.toInt() != (int)m.b || v.toUInt() != (uint)m.b || v.toInt64() != (int64)m.b || v.toUInt64() != (uint64)m.b || v.toDouble() != (m.b ? 1. : 0.)) fail(ctx, "mismatch:coercion", path + ": bool to number");
      chkStr(m.b ? "true" : "false"); break;
    case Variant::intType: case Variant::int64Type:
      chkInts(m.i < 0, (unsigned long long)m.i, m.i);
      if (v.toDouble() != (double)m.i) fail(ctx, "mismatch:coercion", path + ": toDouble()");
      chkStr(toStr(m)); break;
    case Variant::uintType: case Variant::uint64Type:
      chkInts(false, m.u, (long long)m.u);
      if (v.toDouble() != (double)m.u) fail(ctx, "mismatch:coercion", path + ": toDouble()");
      chkStr(toStr(m)); break;
    case Variant::doubleType: {
      if (v.toBool() != (m.d != 0.)) fail(ctx, "mismatch:coercion", path + ": double toBool()");
      double t = std::trunc(m.d);
      if (t >= -2147483648.0 && t <= 2147483647.0 && v.toInt() != (int)t) fail(ctx, "mismatch:coercion", path + ": double toInt()");
      if (t >= 0 && t <= 4294967295.0 && v.toUInt() != (uint)t) fail(ctx, "mismatch:coercion", path + ": double toUInt()");
      if (t >= -9e18 && t <= 9e18 && v.toInt64() != (int64)t) fail(ctx, "mismatch:coercion", path + ": double toInt64()");
      if (t >= 0 && t <= 1.8e19 && v.toUInt64() != (uint64)t) fail(ctx, "mismatch:coercion", path + ": double toUInt64()");
      chkStr(toStr(m)); break;
    }
    case Variant::stringType: {
      if (m.s.empty()) { if (v.toBool()) fail(ctx, "mismatch:coercion", path + ": empty string toBool()"); }
      else if (m.s == "true") { if (!v.toBool()) fail(ctx, "mismatch:coercion", path + ": 'true' toBool()"); }
      else if (m.s == "false") { if (v.toBool()) fail(ctx, "mismatch:coercion", path + ": 'false' toBool()"); }
      // canonical decimal integer text
      bool neg = !m.s.empty() && m.s[0] == '-'; size_t p0 = neg ? 1 : 0; bool digits = m.s.size() > p0 && m.s.size() - p0 <= 20;
      for (size_t q = p0; q < m.s.size(); ++q) if (m.s[q] < '0' || m.s[q] > '9') digits = false;
      if (digits && (m.s[p0] != '0' || m.s.size() == p0 + 1) && !(neg && m.s == "-0")) {
        // every decimal text of a value that some 64 bit alternative holds (chkInts compares only the accessors whose type holds it)
        errno = 0;
        if (neg) { long long val = strtoll(m.s.c_str(), nullptr, 10); if (!errno) { chkInts(val < 0, (unsigned long long)val, val); if (v.toDouble() != (double)val) fail(ctx, "mismatch:coercion", path + ": decimal string toDouble()"); } }
        else { unsigned long long mag = strtoull(m.s.c_str(), nullptr, 10); if (!errno) { if (mag > (unsigned long long)LLONG_MAX) ctx.label("decimal_string>=2^63"); chkInts(false, mag, (long long)mag); if (v.toDouble() != (double)mag) fail(ctx, "mismatch:coercion", path + ": decimal string toDouble()"); } }
      }
      break;
    }
    default:
      if (v.toBool() || v.toInt() || v.toUInt() || v.toInt64() || v.toUInt64() || v.toDouble() != 0.) fail(ctx, "mismatch:coercion", path + ": container is not 0/false");
      chkStr(""); break;
  }
}
}  // namespace

void pbt_warmup() { Variant a(String("x")); Variant b(a); (void)b.toList(); (void)((const Variant&)b).toMap().isEmpty(); (void)((const Variant&)b).toArray().isEmpty(); (void)((const Variant&)b).toList().isEmpty(); }

void pbt_generate(Rng& r, int size, Case& c) {
  int nops = 2 + (int)r.below((uint64_t)size + 1);
  static const char* names[] = {"null", "bool", "int", "uint", "int64", "uint64", "double", "str", "mklist", "mkarray", "mkmap", "assign", "copy", "clear", "swap",
                                "mstr", "mlist_app", "mlist_rmfront", "marray_app", "mmap_set", "mmap_rm", "mnested", "mtouch", "assign_elem"};
  static const int w[] = {2, 3, 5, 3, 4, 3, 4, 7, 8, 6, 7, 12, 8, 2, 5, 6, 7, 3, 5, 6, 3, 6, 4, 6};
  const int N = sizeof w / sizeof *w;
  for (int k = 0; k < nops; ++k) {
    int o = r.weighted(w, N);
    std::string d;
    std::string nm = names[o];
    if (nm == "str" || nm == "mstr" || nm == "mnested") { static const char* ss[] = {"", "true", "false", "0", "42", "-7", "abc", "4294967296", "x y", "12ab", "9223372036854775807", "9223372036854775808", "18446744073709551615", "-9223372036854775808"}; d = r.chance(60) ? ss[r.below(14)] : std::string(1 + r.below(5), (char)('a' + r.below(26))); }
    c.add(names[o], (long)r.below(NV), (long)r.below(NV), (long)r.below(64), (long)r.below(1000), d);
  }
}

bool pbt_nontrivial(const Ctx& ctx) { return ctx.has("mutable_access_while_shared") && ctx.has("depth>=2"); }

void pbt_run(const Case& cs, Ctx& ctx) {
  pbt::g_ledger.limitBytes = 32u << 20;
  Variant* v[NV]; MV m[NV]; int group[NV]; int nextGroup = 1;
  for (int i = 0; i < NV; ++i) { v[i] = new Variant; group[i] = 0; }
  auto shared = [&](int i) { if (!isContainerOrString(m[i])) return false; for (int j = 0; j < NV; ++j) if (j != i && group[j] == group[i] && group[i]) return true; return false; };
  auto fresh = [&](int i) { group[i] = nextGroup++; };
  auto size = [&](const MV& x) { size_t n = 1; std::vector<const MV*> st{&x}; while (!st.empty()) { const MV* c = st.back(); st.pop_back(); for (auto& q : c->items) { st.push_back(&q); ++n; } for (auto& q : c->map) { st.push_back(&q.second); ++n; } } return n; };

  auto checkAll = [&](const char* opname) {
    for (int i = 0; i < NV; ++i) {
      std::string path = std::string("after ") + opname + fmt(": v%d", i);
      cmp(ctx, *v[i], m[i], path);
      conv(ctx, *v[i], m[i], path);
      Variant c(*v[i]);
      if (!(c == *v[i]) || !(*v[i] == c) || (c != *v[i])) fail(ctx, "mismatch:copy-not-equal", path + ": a fresh copy does not compare equal");
      cmp(ctx, c, m[i], path + "(copy)");
      if (isContainerOrString(m[i])) {
        // a copy that has been detached from the shared payload by a mutable access (without any modification) is still a copy
        Variant c2(*v[i]);
        switch (m[i].t) { case Variant::listType: (void)c2.toList(); break; case Variant::arrayType: (void)c2.toArray(); break; case Variant::mapType: (void)c2.toMap(); break; default: (void)c2.toString(); }
        if (!(c2 == *v[i]) || !(*v[i] == c2) || (c2 != *v[i])) fail(ctx, "mismatch:detached-copy-not-equal", path + ": a copy detached by an unmodifying mutable access does not compare equal");
        cmp(ctx, c2, m[i], path + "(detached copy)");
      }
      if (depthOf(m[i]) >= 2) ctx.label("depth>=2");
    }
  };

  long idx = 0;
  for (const Op& op : cs.ops) {
    ctx.opIndex = idx++;
    int i = (int)(((op.a[0] % NV) + NV) % NV), j = (int)(((op.a[1] % NV) + NV) % NV);
    long a2 = op.a[2] < 0 ? -op.a[2] : op.a[2], a3 = op.a[3] < 0 ? -op.a[3] : op.a[3];
    int k = (int)(a3 % NV);
    bool viaCtor = (a2 & 1) != 0;
    const std::string& nm = op.name; const std::string& d = op.data;
    Variant& V = *v[i]; MV& M = m[i];
    // keep trees small
    if (size(m[0]) + size(m[1]) + size(m[2]) + size(m[3]) > 400 && (nm == "mklist" || nm == "mkarray" || nm == "mkmap" || nm == "mlist_app" || nm == "marray_app" || nm == "mmap_set")) { ctx.count("skipped_big"); continue; }

#define SETSCALAR(TYPE, CTYPE, FIELD, VALUE) { CTYPE val = (CTYPE)(VALUE); if (viaCtor) { delete v[i]; v[i] = new Variant(val); } else V = val; M = MV(); M.t = TYPE; M.FIELD = val; group[i] = 0; }
    if (nm == "null") { if (viaCtor) { delete v[i]; v[i] = new Variant; } else V.clear(); M = MV(); group[i] = 0; }
    else if (nm == "bool") SETSCALAR(Variant::boolType, bool, b, a3 & 1)
    else if (nm == "int") SETSCALAR(Variant::intType, int, i, (a3 % 3 == 0) ? (long long)(int)IB[a3 % 9] : (long long)(int)(a3 * 7919 - 5000))
    else if (nm == "uint") SETSCALAR(Variant::uintType, uint, u, (a3 % 3 == 0) ? (a3 % 2 ? 4294967295u : 0u) : (uint)(a3 * 2654435761u))
    else if (nm == "int64") SETSCALAR(Variant::int64Type, int64, i, (a3 % 2 == 0) ? IB[a3 % 16] : (long long)a3 * 1000003LL * 1000003LL)
    else if (nm == "uint64") SETSCALAR(Variant::uint64Type, uint64, u, (a3 % 3 == 0) ? 18446744073709551615ull : (unsigned long long)a3 * 11400714819323198485ull)
    else if (nm == "double") SETSCALAR(Variant::doubleType, double, d, (a3 % 2 == 0) ? DB[(a3 / 2) % 22] : (double)a3 / 8.0 - 30.0)
    else if (nm == "str") { String s(d.data(), d.size()); if (viaCtor) { delete v[i]; v[i] = new Variant(s); } else V = s; M = MV(); M.t = Variant::stringType; M.s = d; fresh(i); }
    else if (nm == "mklist" || nm == "mkarray") {
      bool isList = nm == "mklist";
      int n = (int)(a2 % 4); MV nv; nv.t = isList ? Variant::listType : Variant::arrayType;
      List<Variant> l; Array<Variant> a;
      for (int q = 0; q < n; ++q) { int src = (j + q * (k + 1)) % NV; if (isList) l.append(*v[src]); else a.append(*v[src]); nv.items.push_back(m[src]); }
      if (isList) { if (viaCtor) { delete v[i]; v[i] = new Variant(l); } else V = l; } else { if (viaCtor) { delete v[i]; v[i] = new Variant(a); } else V = a; }
      m[i] = nv; fresh(i);
    }
    else if (nm == "mkmap") {
      int n = (int)(a2 % 4); MV nv; nv.t = Variant::mapType; HashMap<String, Variant> h;
      static const char* keys[] = {"a", "b", "key", "a"};
      for (int q = 0; q < n; ++q) {
        int src = (j + q * (k + 1)) % NV; std::string key = keys[(a3 + q) % 4];
        h.append(String(key.data(), key.size()), *v[src]);
        bool found = false; for (auto& e : nv.map) if (e.first == key) { e.second = m[src]; found = true; }
        if (!found) nv.map.emplace_back(key, m[src]);
      }
      if (viaCtor) { delete v[i]; v[i] = new Variant(h); } else V = h;
      m[i] = nv; fresh(i);
    }
    else if (nm == "assign") { if (i == j) ctx.label("self_assign"); V = *v[j]; if (i != j) { m[i] = m[j]; if (!group[j] && isContainerOrString(m[j])) fresh(j); group[i] = group[j]; } }
    else if (nm == "copy") { if (i == j) { ctx.count("skipped"); continue; } delete v[i]; v[i] = new Variant(*v[j]); m[i] = m[j]; if (!group[j] && isContainerOrString(m[j])) fresh(j); group[i] = group[j]; }
    else if (nm == "clear") { V.clear(); M = MV(); group[i] = 0; }
    else if (nm == "swap") { V.swap(*v[j]); if (i != j) { std::swap(m[i], m[j]); std::swap(group[i], group[j]); } else ctx.label("swap_self"); }
    else if (nm == "mstr") {
      if (shared(i)) ctx.label("mutable_access_while_shared");
      if (M.t != Variant::stringType) ctx.label("mutable_access_converts");
      std::string cur = toStr(M);
      String& s = V.toString(); s.append(String(d.data(), d.size()));
      M = MV(); M.t = Variant::stringType; M.s = cur + d; fresh(i);
    }
    else if (nm == "mlist_app" || nm == "marray_app") {
      bool isList = nm == "mlist_app";
      if (i == j) { ctx.count("skipped_self_containment"); continue; }
      if (shared(i)) ctx.label("mutable_access_while_shared");
      Variant::Type want = isList ? Variant::listType : Variant::arrayType;
      if (M.t != want) { ctx.label("mutable_access_converts"); M = MV(); M.t = want; }
      MV add = m[j];
      if (isList) V.toList().append(*v[j]); else V.toArray().append(*v[j]);
      M.items.push_back(add); fresh(i);
    }
    else if (nm == "mlist_rmfront") {
      if (shared(i)) ctx.label("mutable_access_while_shared");
      if (M.t != Variant::listType) { ctx.label("mutable_access_converts"); M = MV(); M.t = Variant::listType; }
      List<Variant>& l = V.toList();
      if (!l.isEmpty()) { l.removeFront(); M.items.erase(M.items.begin()); }
      fresh(i);
    }
    else if (nm == "mmap_set" || nm == "mmap_rm") {
      if (i == j && nm == "mmap_set") { ctx.count("skipped_self_containment"); continue; }
      if (shared(i)) ctx.label("mutable_access_while_shared");
      if (M.t != Variant::mapType) { ctx.label("mutable_access_converts"); M = MV(); M.t = Variant::mapType; }
      static const char* keys[] = {"a", "b", "key", "zz"}; std::string key = keys[a3 % 4];
      HashMap<String, Variant>& h = V.toMap();
      if (nm == "mmap_set") { MV add = m[j]; h.append(String(key.data(), key.size()), *v[j]); bool f = false; for (auto& e : M.map) if (e.first == key) { e.second = add; f = true; } if (!f) M.map.emplace_back(key, add); }
      else { h.remove(String(key.data(), key.size())); for (size_t q = 0; q < M.map.size(); ++q) if (M.map[q].first == key) { M.map.erase(M.map.begin() + (long)q); break; } }
      fresh(i);
    }
    else if (nm == "mnested") {
      // mutate an element inside a container through two mutable accessors
      if (M.t == Variant::listType && !M.items.empty()) {
        if (shared(i)) ctx.label("mutable_access_while_shared");
        Variant& e = V.toList().back(); std::string cur = toStr(M.items.back());
        e.toString().append(String(d.data(), d.size()));
        M.items.back() = MV(); M.items.back().t = Variant::stringType; M.items.back().s = cur + d; fresh(i); ctx.label("nested_mutation");
      } else if (M.t == Variant::mapType && !M.map.empty()) {
        if (shared(i)) ctx.label("mutable_access_while_shared");
        HashMap<String, Variant>& h = V.toMap(); Variant& e = h.back();
        e = (int)a3; M.map.back().second = MV(); M.map.back().second.t = Variant::intType; M.map.back().second.i = (int)a3; fresh(i); ctx.label("nested_mutation");
      } else if (M.t == Variant::arrayType && !M.items.empty()) {
        if (shared(i)) ctx.label("mutable_access_while_shared");
        Array<Variant>& a = V.toArray(); size_t ix = (size_t)a3 % M.items.size();
        a[ix] = String(d.data(), d.size()); M.items[ix] = MV(); M.items[ix].t = Variant::stringType; M.items[ix].s = d; fresh(i); ctx.label("nested_mutation");
      } else ctx.count("skipped");
    }
    else if (nm == "mtouch") {
      // mutable access without modification must not change any value
      if (shared(i)) ctx.label("mutable_access_while_shared");
      switch (M.t) { case Variant::listType: (void)V.toList(); break; case Variant::arrayType: (void)V.toArray(); break; case Variant::mapType: (void)V.toMap(); break; case Variant::stringType: (void)V.toString(); break; default: ctx.count("skipped"); }
      fresh(i);
    }
    else if (nm == "assign_elem") {
      // a variable is given the value of an element nested in variable j's container - j may be the variable itself
      // (v = v.toList().front(): the assignment releases the container that holds its own source)
      MV& S = m[j]; Variant& SV = *v[j]; const Variant& CSV = SV;
      bool mut = (a2 & 2) != 0, back = (a3 & 1) != 0;
      if ((S.t == Variant::listType || S.t == Variant::arrayType) && !S.items.empty()) {
        if (mut && shared(j)) ctx.label("mutable_access_while_shared");
        size_t ix = S.t == Variant::listType ? (back ? S.items.size() - 1 : 0) : (size_t)a3 % S.items.size();
        MV e = S.items[ix];
        if (S.t == Variant::listType) { if (mut) { List<Variant>& l = SV.toList(); V = back ? l.back() : l.front(); } else { const List<Variant>& l = CSV.toList(); V = back ? l.back() : l.front(); } }
        else { if (mut) V = SV.toArray()[ix]; else V = CSV.toArray()[ix]; }
        if (mut) fresh(j);
        m[i] = e; group[i] = isContainerOrString(e) ? nextGroup++ : 0;
        ctx.label(i == j ? "assign_own_element" : "assign_element");
      } else if (S.t == Variant::mapType && !S.map.empty()) {
        if (mut && shared(j)) ctx.label("mutable_access_while_shared");
        MV e = S.map.back().second;
        if (mut) V = SV.toMap().back(); else { HashMap<String, Variant>::Iterator it = CSV.toMap().end(); --it; V = *it; }   // (HashMap's const back() does not compile for V != T)
        if (mut) fresh(j);
        m[i] = e; group[i] = isContainerOrString(e) ? nextGroup++ : 0;
        ctx.label(i == j ? "assign_own_element" : "assign_element");
      } else ctx.count("skipped");
    }
    else ctx.count("unknown_op");
    checkAll(nm.c_str());
  }
  ctx.opIndex = -2;
  for (int i = 0; i < NV; ++i) delete v[i];
}
