// C14 (third part): establishers created from a host NAME. The address is resolved by a job of the Future worker pool; the loop
// is woken through interrupt(), turns the finished resolver into a connecting establisher (or into onAbolished) and - if the
// establisher was removed in the meantime - must drop the result silently.
// This part runs in real time with real threads (no virtual clock, allocation ledger off; ASan stays on): the checked statements
// do not depend on timing - an establisher is notified at most once, with the right kind of notification, never after remove()
// has returned - and the bounded waits only decide how much of the state space a case reaches.
#define PBT_MAIN
#include "pbt.hpp"
#include <nstd/Socket/Server.hpp>
#include <nstd/Socket/Socket.hpp>
#include <nstd/Time.hpp>
#include <netinet/in.h>
#include <arpa/inet.h>
#include <unistd.h>

const char* pbt_property = "C14";
const char* pbt_part = "resolve";

using namespace pbt;

namespace {
const int NES = 4;
struct H;
struct Obj { virtual ~Obj() {} };
struct EstCb : public Server::Establisher::ICallback, public Obj {
  H* h; int slot; bool alive = true; bool done = false; bool expectConnect = false; Server::Establisher* handle = nullptr;
  Server::Client::ICallback* onConnected(Server::Client& client) override; void onAbolished() override;
};
struct ListenerCb : public Server::Listener::ICallback { H* h; long accepted = 0; Server::Client::ICallback* onAccepted(Server::Client&, uint32, uint16) override { ++accepted; return nullptr; } };
struct Dog : public Server::Timer::ICallback { Server* s; void onActivated() override { s->interrupt(); } };

struct H {
  Ctx* ctx; Server* srv = nullptr; EstCb* est[NES] = {nullptr, nullptr, nullptr, nullptr}; std::vector<Obj*> graveyard;
  ListenerCb lcb; Server::Listener* listener = nullptr; int port = 0; int closedPortFd = -1; int closedPort = 0;
  std::vector<const Op*> reactions; size_t nextReaction = 0; int depth = 0;
  int burstOpen = 0;   // establishers of a burst that are not notified yet (the last notification interrupts the loop)
  void removeEst(int s, const char* why) {
    EstCb* e = est[s]; if (!e) return;
    if (!e->done) ctx->label("removed_before_notification");
    if (!e->done && burstOpen > 0 && --burstOpen == 0) srv->interrupt();   // (removed from inside a callback during a burst: nothing to wait for any more)
    srv->remove(*e->handle); e->alive = false; est[s] = nullptr; graveyard.push_back(e); (void)why;
  }
  void react(int self) {
    if (depth > 0 || nextReaction >= reactions.size()) return;
    const Op& r = *reactions[nextReaction++]; ++depth;
    long a = r.a[0] < 0 ? -r.a[0] : r.a[0];
    if (r.name == "r_rm") { int s = (int)(a % NES); if (s != self) { removeEst(s, "reaction"); ctx->label("removal_inside_callback"); } }
    else if (r.name == "r_new") newEst((int)(a % NES), (r.a[1] & 1) != 0 && (a & 4) != 0);
    --depth;
  }
  void newEst(int s, bool live, bool numeric = false) {
    if (est[s]) return;
    EstCb* e = new EstCb; e->h = this; e->slot = s; e->expectConnect = live;
    // (a host given as dotted numbers takes the direct path: no look-up, same obligations)
    e->handle = srv->connect(String(numeric ? "127.0.0.1" : "localhost"), (uint16)(live ? port : closedPort), *e);
    if (numeric) ctx->label("host_as_numbers");
    if (!e->handle) { delete e; ctx->count("connect_call_failed"); return; }
    est[s] = e; ctx->label(live ? "by_name_to_listener" : "by_name_to_closed_port");
  }
  void runFor(long ms) { Dog d; d.s = srv; Server::Timer* t = srv->time(ms, d); srv->run(); srv->remove(*t); }
};
Server::Client::ICallback* EstCb::onConnected(Server::Client&) {
  if (!alive) h->ctx->fail("removed:establisher-callback", "onConnected after remove() returned (establisher created from a host name)");
  if (done) h->ctx->fail("dispatch:establisher-twice", "an establisher was notified twice");
  done = true;
  if (!expectConnect) h->ctx->fail("dispatch:connected-to-closed-port", "onConnected for a port nobody listens on");
  h->ctx->label("onConnected"); H* hh = h; int me = slot; if (hh->burstOpen > 0 && --hh->burstOpen == 0) hh->srv->interrupt(); hh->react(me);
  return nullptr;
}
void EstCb::onAbolished() {
  if (!alive) h->ctx->fail("removed:establisher-callback", "onAbolished after remove() returned (establisher created from a host name)");
  if (done) h->ctx->fail("dispatch:establisher-twice", "an establisher was notified twice");
  done = true;
  // (a connection attempt to a listening port may still fail for reasons outside the library - no local port left while thousands
  // of connections per second leave TIME_WAIT entries behind, a full accept queue - and the statement does not promise otherwise)
  if (expectConnect) h->ctx->count("abolished_although_listening");
  h->ctx->label("onAbolished"); H* hh = h; int me = slot; if (hh->burstOpen > 0 && --hh->burstOpen == 0) hh->srv->interrupt(); hh->react(me);
}
int boundSocket(int& port, bool listening) {
  int s = socket(AF_INET, SOCK_STREAM, 0); sockaddr_in a; memset(&a, 0, sizeof a); a.sin_family = AF_INET; a.sin_addr.s_addr = htonl(INADDR_LOOPBACK); a.sin_port = 0;
  bind(s, (sockaddr*)&a, sizeof a); socklen_t l = sizeof a; getsockname(s, (sockaddr*)&a, &l); port = ntohs(a.sin_port); if (listening) listen(s, 16); return s;
}
}  // namespace

void pbt_warmup() {
  // the first job creates the worker pool, the first look-up loads the resolver's tables
  Server s; struct W : public Server::Establisher::ICallback { bool done = false; Server* s; Server::Client::ICallback* onConnected(Server::Client&) override { done = true; s->interrupt(); return nullptr; } void onAbolished() override { done = true; s->interrupt(); } } w; w.s = &s;
  int port; int fd = boundSocket(port, false);
  if (s.connect(String("localhost"), (uint16)port, w)) { Dog d; d.s = &s; Server::Timer* t = s.time(3000, d); s.run(); s.remove(*t); }
  close(fd);
}

void pbt_generate(Rng& r, int size, Case& c) {
  int n = 2 + (int)r.below((uint64_t)std::min(size, 12) + 1);
  static const char* names[] = {"est", "rm", "run", "wait", "burst", "intr"};
  static const int w[] = {10, 6, 6, 6, 1, 1};
  for (int k = 0; k < n; ++k) c.add(names[r.weighted(w, 6)], (long)r.below(NES), (long)r.below(64), (long)r.below(8));
  int nr = (int)r.below(4); for (int k = 0; k < nr; ++k) c.add(r.chance(70) ? "r_rm" : "r_new", (long)r.below(NES), (long)r.below(2));
}

bool pbt_nontrivial(const Ctx& ctx) { return ctx.has("removed_before_notification") && (ctx.has("onConnected") || ctx.has("onAbolished")); }

void pbt_run(const Case& cs, Ctx& ctx) {
  pbt::g_ledger.on = 0;   // worker threads allocate concurrently; ASan watches the memory
  H h; h.ctx = &ctx; h.lcb.h = &h;
  for (const Op& op : cs.ops) if (op.name.compare(0, 2, "r_") == 0) h.reactions.push_back(&op);
  Server* server = new Server; h.srv = server;
  for (int tries = 0; tries < 5 && !h.listener; ++tries) { int p; int fd = boundSocket(p, false); close(fd); h.listener = server->listen(Socket::loopbackAddress, (uint16)p, h.lcb); h.port = p; }
  if (!h.listener) { ctx.count("listen_failed"); delete server; return; }
  h.closedPortFd = boundSocket(h.closedPort, false);
  long idx = 0;
  for (const Op& op : cs.ops) {
    ctx.opIndex = idx++;
    long a = op.a[0] < 0 ? -op.a[0] : op.a[0], b = op.a[1] < 0 ? -op.a[1] : op.a[1];
    if (op.name == "est") h.newEst((int)(a % NES), (b & 7) == 0, op.a[2] == 7);   // mostly to the closed port: a refused attempt leaves no TIME_WAIT entry behind, and the look-up is the same
    else if (op.name == "rm") h.removeEst((int)(a % NES), "script");
    else if (op.name == "run") { h.runFor(1 + b % 4); ctx.label("run"); }
    else if (op.name == "wait") { usleep((useconds_t)(b % 8) * 150); }
    else if (op.name == "intr") {
      // interrupt() while the wake-up of a finished look-up is still pending (both go through the one event descriptor): the next
      // run() has to return because of the interrupt - a distant watchdog tells when it did not
      h.newEst((int)(a % NES), false); usleep(40000);   // (long enough for the look-up to be over)
      server->interrupt();
      struct Late : public Server::Timer::ICallback { Server* s; bool fired = false; void onActivated() override { fired = true; s->interrupt(); } } late; late.s = server;
      int64 r0 = Time::ticks();
      Server::Timer* t = server->time(3000, late); server->run(); server->remove(*t);
      // (the loop may notice the pending interrupt when the watchdog's time-out wakes it, before it runs the timer: the elapsed time tells)
      if (late.fired || Time::ticks() - r0 >= 2000) { ctx.opIndex = -2; ctx.fail("run:interrupt-ignored", "interrupt() was called before run() while a finished host-name look-up was waiting to be handed on: run() did not return within 3 s"); }
      ctx.label("interrupt_with_pending_lookup");
    }
    else if (op.name == "burst") {
      // several look-ups finish before the loop runs (their wake-ups through the one event descriptor merge into one): the loop
      // must hand all of them on when it wakes up, not one per wake-up. No timer runs meanwhile except a distant watchdog; the
      // last notification interrupts the loop, so a correct loop returns within milliseconds
      for (int i = 0; i < NES; ++i) h.removeEst(i, "burst");
      h.runFor(2);
      int k = 2 + (int)(b % 3); for (int i = 0; i < k; ++i) h.newEst(i, false);
      int open = 0; for (int i = 0; i < NES; ++i) if (h.est[i] && !h.est[i]->done) ++open;
      if (open >= 2) {
        usleep(4000); h.burstOpen = open;
        struct Late : public Server::Timer::ICallback { Server* s; bool fired = false; void onActivated() override { fired = true; s->interrupt(); } } late; late.s = server;
        Server::Timer* t = server->time(3000, late); server->run(); server->remove(*t); h.burstOpen = 0;
        if (late.fired) { int left = 0; for (int i = 0; i < NES; ++i) if (h.est[i] && !h.est[i]->done) ++left;
          if (left > 0) { ctx.opIndex = -2; ctx.fail("dispatch:establisher-starved", std::to_string(left) + " of " + std::to_string(open) + " establishers whose look-ups had finished before the loop ran were not notified within 3 s (one wake-up, several finished look-ups)"); } }
        ctx.label("lookups_finished_together");
      }
    }   // lets the resolver job finish (or not) before the next action
  }
  ctx.opIndex = -3;
  // every establisher that is still there has to be notified: the look-up of this host's own name and a connection attempt on the
  // loopback interface end within milliseconds; the bound is generous (6 s, below the 10 s alarm of a case) so that only a notification that never comes trips it
  int64 t0 = Time::ticks();
  for (;;) {
    bool open = false; for (int i = 0; i < NES; ++i) if (h.est[i] && !h.est[i]->done) open = true;
    if (!open) break;
    if (Time::ticks() - t0 > 6000) { ctx.opIndex = -2; ctx.fail("dispatch:establisher-never-notified", "an establisher created from a host name got neither onConnected nor onAbolished within 6 s of running the loop"); }
    h.runFor(2);
  }
  for (int i = 0; i < NES; ++i) h.removeEst(i, "end");
  // removed establishers whose look-up is still under way: their results arrive now and must be dropped
  h.runFor(3);
  ctx.opIndex = -2;
  delete server;
  close(h.closedPortFd);
  for (Obj* o : h.graveyard) delete o;
}
