// Shared by the XML harnesses (C16): model tree, structural comparison, error-position oracle (from json_common.hpp).
#pragma once
#include <string>
#include <vector>
#include <nstd/Document/Xml.hpp>
#include "json_common.hpp"  // lineLengths / checkErrorPos

namespace xmlref {
struct Node {
  bool isText = false;
  std::string text;                                        // text node
  std::string name;                                        // element
  std::vector<std::pair<std::string, std::string>> attrs;
  std::vector<Node> kids;
};
inline std::string hex(const std::string& d) { static const char* H = "0123456789abcdef"; std::string r; for (unsigned char c : d) { r += H[c >> 4]; r += H[c & 15]; } return r; }
inline std::string str(const String& s) { return std::string((const char*)s, s.length()); }
inline bool blank(const std::string& s) { for (char c : s) if (!((c >= 9 && c <= 13) || c == 32)) return false; return true; }
inline std::string squeeze(const std::string& s) { std::string r; for (char c : s) if (!((c >= 9 && c <= 13) || c == 32)) r += c; return r; }

inline Xml::Element build(const Node& n) {
  Xml::Element e; e.line = 0; e.column = 0;
  e.type = String(n.name.data(), n.name.size());
  for (auto& a : n.attrs) e.attributes.append(String(a.first.data(), a.first.size()), String(a.second.data(), a.second.size()));
  for (auto& k : n.kids) { if (k.isText) e.content.append(Xml::Variant(String(k.text.data(), k.text.size()))); else e.content.append(Xml::Variant(build(k))); }
  return e;
}
// exact structural comparison; returns "" when equal
inline std::string cmp(const Xml::Element& e, const Node& n, const std::string& path) {
  if (str(e.type) != n.name) return path + ": element name '" + str(e.type) + "' expected '" + n.name + "'";
  if (e.attributes.size() != n.attrs.size()) return path + ": number of attributes differs";
  size_t k = 0;
  for (HashMap<String, String>::Iterator i = e.attributes.begin(); i != e.attributes.end(); ++i, ++k) {
    if (str(i.key()) != n.attrs[k].first) return path + ": attribute order/name differs at " + n.attrs[k].first;
    if (str(*i) != n.attrs[k].second) return path + ": value of attribute " + n.attrs[k].first + " is " + hex(str(*i)) + " expected " + hex(n.attrs[k].second);
  }
  if (e.content.size() != n.kids.size()) { char b[96]; snprintf(b, sizeof b, ": %zu content nodes, expected %zu", (size_t)e.content.size(), n.kids.size()); return path + b; }
  k = 0;
  for (List<Xml::Variant>::Iterator i = e.content.begin(); i != e.content.end(); ++i, ++k) {
    const Xml::Variant& v = *i; const Node& c = n.kids[k];
    if (c.isText) { if (!v.isText()) return path + ": expected a text node"; if (str(v.toString()) != c.text) return path + ": text is " + hex(str(v.toString())) + " expected " + hex(c.text); }
    else { if (!v.isElement()) return path + ": expected an element"; std::string r = cmp(v.toElement(), c, path + "/" + c.name); if (!r.empty()) return r; }
  }
  return std::string();
}
// comparison modulo comments: elements / attributes exact; per element the concatenated text with white space removed
inline std::string cmpLoose(const Xml::Element& e, const Node& n, const std::string& path) {
  if (str(e.type) != n.name) return path + ": element name differs";
  if (e.attributes.size() != n.attrs.size()) return path + ": number of attributes differs";
  size_t k = 0;
  for (HashMap<String, String>::Iterator i = e.attributes.begin(); i != e.attributes.end(); ++i, ++k)
    if (str(i.key()) != n.attrs[k].first || str(*i) != n.attrs[k].second) return path + ": attribute " + n.attrs[k].first + " differs";
  std::string t1, t2; std::vector<const Xml::Element*> ek; std::vector<const Node*> nk;
  for (List<Xml::Variant>::Iterator i = e.content.begin(); i != e.content.end(); ++i) { if ((*i).isText()) t1 += squeeze(str((*i).toString())); else if ((*i).isElement()) ek.push_back(&(*i).toElement()); }
  for (auto& c : n.kids) { if (c.isText) t2 += squeeze(c.text); else nk.push_back(&c); }
  if (t1 != t2) return path + ": text differs (white space ignored): " + hex(t1) + " expected " + hex(t2);
  if (ek.size() != nk.size()) return path + ": number of child elements differs";
  for (size_t q = 0; q < ek.size(); ++q) { std::string r = cmpLoose(*ek[q], *nk[q], path + "/" + nk[q]->name); if (!r.empty()) return r; }
  return std::string();
}
// every element's line / column lies inside the text
inline std::string checkPositions(const Xml::Element& e, const std::string& text) {
  std::string r = jsonref::checkErrorPos(text, e.line, e.column);
  if (!r.empty()) return "element '" + str(e.type) + "': " + r;
  for (List<Xml::Variant>::Iterator i = e.content.begin(); i != e.content.end(); ++i) if ((*i).isElement()) { r = checkPositions((*i).toElement(), text); if (!r.empty()) return r; }
  return std::string();
}
}  // namespace xmlref
