// C12: signals reach exactly the connected slots, safely under re-entrancy.
// Heap allocated emitters and listeners; top-level ops plus a reaction script consumed by slot invocations;
// a model of connection records predicts the exact invocation sequence.
#define PBT_MAIN
#include "pbt.hpp"
#include <nstd/Callback.hpp>
#include <set>

const char* pbt_property = "C12";
const char* pbt_part = "callback";
void pbt_warmup() {}

using namespace pbt;

namespace {
const int NE = 3, NL = 4, NS = 10, NK = 2;  // emitters, listeners, signals per emitter, slots per signal kind per listener
// Signals 0 (sigA) and 2 (sigC) have the same signature and take the same slot functions (slotA0/slotA1): one slot of one listener can
// be connected to two signals of one emitter, and a disconnect must then name the signal as well. Signal 1 (sigB) carries an int.
// Signals 3..9 carry 2..8 int arguments (x, x+1, ...): every emit() overload of the library is a separate copy of the loop.
inline int slotType(int s) { return s == 1 ? 1 : s >= 3 ? s - 1 : 0; }   // 0 void(), 1 (int), 2..8 that many ints

struct H;  // harness state
H* g = nullptr;

struct Em : public Callback::Emitter {
  void fireA() { emit(&Em::sigA); }
  void fireB(int x) { emit(&Em::sigB, x); }
  void fireC() { emit(&Em::sigC); }
  void sig2(int, int) {}
  void fire2(int x) { emit(&Em::sig2, x, x + 1); }
  void sig3(int, int, int) {}
  void fire3(int x) { emit(&Em::sig3, x, x + 1, x + 2); }
  void sig4(int, int, int, int) {}
  void fire4(int x) { emit(&Em::sig4, x, x + 1, x + 2, x + 3); }
  void sig5(int, int, int, int, int) {}
  void fire5(int x) { emit(&Em::sig5, x, x + 1, x + 2, x + 3, x + 4); }
  void sig6(int, int, int, int, int, int) {}
  void fire6(int x) { emit(&Em::sig6, x, x + 1, x + 2, x + 3, x + 4, x + 5); }
  void sig7(int, int, int, int, int, int, int) {}
  void fire7(int x) { emit(&Em::sig7, x, x + 1, x + 2, x + 3, x + 4, x + 5, x + 6); }
  void sig8(int, int, int, int, int, int, int, int) {}
  void fire8(int x) { emit(&Em::sig8, x, x + 1, x + 2, x + 3, x + 4, x + 5, x + 6, x + 7); }
  void sigC() {}
  void sigA() {}
  void sigB(int) {}
};
struct Li : public Callback::Listener {
  void slotA0(); void slotA1(); void slotB0(int); void slotB1(int);
  void s2_0(int a0, int a1); void s2_1(int a0, int a1); void s3_0(int a0, int a1, int a2); void s3_1(int a0, int a1, int a2); void s4_0(int a0, int a1, int a2, int a3); void s4_1(int a0, int a1, int a2, int a3); void s5_0(int a0, int a1, int a2, int a3, int a4); void s5_1(int a0, int a1, int a2, int a3, int a4); void s6_0(int a0, int a1, int a2, int a3, int a4, int a5); void s6_1(int a0, int a1, int a2, int a3, int a4, int a5); void s7_0(int a0, int a1, int a2, int a3, int a4, int a5, int a6); void s7_1(int a0, int a1, int a2, int a3, int a4, int a5, int a6); void s8_0(int a0, int a1, int a2, int a3, int a4, int a5, int a6, int a7); void s8_1(int a0, int a1, int a2, int a3, int a4, int a5, int a6, int a7);
};

struct Rec { int l, k; int state; };  // state 0 connected, 1 pending, 2 gone
struct Frame { int e, s; size_t cursor; bool dead; int arg; };

struct H {
  Ctx* ctx; const Case* cs;
  Em* em[NE]; Li* li[NL];
  std::set<const void*> liveL;
  std::vector<Rec> recs[NE][NS];
  int depth[NE][NS];
  std::vector<Frame> frames;
  std::vector<const Op*> reactions; size_t nextReaction = 0;
  bool probing = false;
  long calls = 0;

  int liIndex(const void* p) { for (int i = 0; i < NL; ++i) if (li[i] == p) return i; return -1; }
  bool hasLive(int e, int s, int l, int k) { for (auto& r : recs[e][s]) if (r.l == l && r.k == k && r.state != 2) return true; return false; }

  void purge(int e, int s) { auto& v = recs[e][s]; for (size_t i = 0; i < v.size();) { if (v[i].state == 2) v.erase(v.begin() + (long)i); else { v[i].state = 0; ++i; } } }

  void doConnect(int e, int s, int l, int k) {
    int dup = 0; for (auto& r : recs[e][s]) if (r.l == l && r.k == k && r.state != 2) ++dup;
    if (!em[e] || !li[l] || dup >= 3) { ctx->count("skipped"); return; }
    if (dup) ctx->label(dup >= 2 ? "connected_three_times" : "connected_twice");
    if (s == 0) { if (k == 0) Callback::connect(em[e], &Em::sigA, li[l], &Li::slotA0); else Callback::connect(em[e], &Em::sigA, li[l], &Li::slotA1); }
    else if (s == 2) { if (k == 0) Callback::connect(em[e], &Em::sigC, li[l], &Li::slotA0); else Callback::connect(em[e], &Em::sigC, li[l], &Li::slotA1); if (hasLive(e, 0, l, k)) ctx->label("slot_connected_to_two_signals"); }
    else if (s == 3) { if (k == 0) Callback::connect(em[e], &Em::sig2, li[l], &Li::s2_0); else Callback::connect(em[e], &Em::sig2, li[l], &Li::s2_1); }
    else if (s == 4) { if (k == 0) Callback::connect(em[e], &Em::sig3, li[l], &Li::s3_0); else Callback::connect(em[e], &Em::sig3, li[l], &Li::s3_1); }
    else if (s == 5) { if (k == 0) Callback::connect(em[e], &Em::sig4, li[l], &Li::s4_0); else Callback::connect(em[e], &Em::sig4, li[l], &Li::s4_1); }
    else if (s == 6) { if (k == 0) Callback::connect(em[e], &Em::sig5, li[l], &Li::s5_0); else Callback::connect(em[e], &Em::sig5, li[l], &Li::s5_1); }
    else if (s == 7) { if (k == 0) Callback::connect(em[e], &Em::sig6, li[l], &Li::s6_0); else Callback::connect(em[e], &Em::sig6, li[l], &Li::s6_1); }
    else if (s == 8) { if (k == 0) Callback::connect(em[e], &Em::sig7, li[l], &Li::s7_0); else Callback::connect(em[e], &Em::sig7, li[l], &Li::s7_1); }
    else if (s == 9) { if (k == 0) Callback::connect(em[e], &Em::sig8, li[l], &Li::s8_0); else Callback::connect(em[e], &Em::sig8, li[l], &Li::s8_1); }
    else { if (k == 0) Callback::connect(em[e], &Em::sigB, li[l], &Li::slotB0); else Callback::connect(em[e], &Em::sigB, li[l], &Li::slotB1); }
    { LedgerPause lp; recs[e][s].push_back(Rec{l, k, depth[e][s] > 0 ? 1 : 0}); }
    if (depth[e][s] > 0) ctx->label("connect_during_emission_of_same_signal");
  }
  void doDisconnect(int e, int s, int l, int k) {
    if (!em[e] || !li[l]) { ctx->count("skipped"); return; }
    bool live = hasLive(e, s, l, k);
    if (!live && ctx->excluded("C12-disconnect-never-connected")) return;
    if (slotType(s) == 0 && hasLive(e, 2 - s, l, k)) ctx->label(live ? "disconnect_one_of_two_signals" : "disconnect_unconnected_signal_of_connected_slot");
    if (s == 0) { if (k == 0) Callback::disconnect(em[e], &Em::sigA, li[l], &Li::slotA0); else Callback::disconnect(em[e], &Em::sigA, li[l], &Li::slotA1); }
    else if (s == 2) { if (k == 0) Callback::disconnect(em[e], &Em::sigC, li[l], &Li::slotA0); else Callback::disconnect(em[e], &Em::sigC, li[l], &Li::slotA1); }
    else if (s == 3) { if (k == 0) Callback::disconnect(em[e], &Em::sig2, li[l], &Li::s2_0); else Callback::disconnect(em[e], &Em::sig2, li[l], &Li::s2_1); }
    else if (s == 4) { if (k == 0) Callback::disconnect(em[e], &Em::sig3, li[l], &Li::s3_0); else Callback::disconnect(em[e], &Em::sig3, li[l], &Li::s3_1); }
    else if (s == 5) { if (k == 0) Callback::disconnect(em[e], &Em::sig4, li[l], &Li::s4_0); else Callback::disconnect(em[e], &Em::sig4, li[l], &Li::s4_1); }
    else if (s == 6) { if (k == 0) Callback::disconnect(em[e], &Em::sig5, li[l], &Li::s5_0); else Callback::disconnect(em[e], &Em::sig5, li[l], &Li::s5_1); }
    else if (s == 7) { if (k == 0) Callback::disconnect(em[e], &Em::sig6, li[l], &Li::s6_0); else Callback::disconnect(em[e], &Em::sig6, li[l], &Li::s6_1); }
    else if (s == 8) { if (k == 0) Callback::disconnect(em[e], &Em::sig7, li[l], &Li::s7_0); else Callback::disconnect(em[e], &Em::sig7, li[l], &Li::s7_1); }
    else if (s == 9) { if (k == 0) Callback::disconnect(em[e], &Em::sig8, li[l], &Li::s8_0); else Callback::disconnect(em[e], &Em::sig8, li[l], &Li::s8_1); }
    else { if (k == 0) Callback::disconnect(em[e], &Em::sigB, li[l], &Li::slotB0); else Callback::disconnect(em[e], &Em::sigB, li[l], &Li::slotB1); }
    if (!live) { ctx->label("disconnect_not_connected"); return; }
    auto& v = recs[e][s];
    for (size_t i = 0; i < v.size(); ++i) if (v[i].l == l && v[i].k == k && v[i].state != 2) {
      if (depth[e][s] > 0) { if (v[i].state == 1) ctx->label("disconnect_pending"); v[i].state = 2; ctx->label("disconnect_during_emission_of_same_signal"); }
      else v.erase(v.begin() + (long)i);
      break;
    }
  }
  void doEmit(int e, int s, int arg) {
    if (!em[e]) { ctx->count("skipped"); return; }
    if (frames.size() >= 3) { ctx->count("skipped_depth"); return; }
    if (!frames.empty()) { ctx->label("nested_emit"); if (frames.size() >= 2) ctx->label("nesting_depth>=2(3 emissions)"); for (auto& f : frames) if (f.e == e && f.s == s) ctx->label("recursive_emit_same_signal"); }
    { LedgerPause lp; frames.push_back(Frame{e, s, 0, false, arg}); }
    depth[e][s]++;
    Em* target = em[e];
    if (s == 0) target->fireA(); else if (s == 2) target->fireC(); else if (s == 3) target->fire2(arg); else if (s == 4) target->fire3(arg); else if (s == 5) target->fire4(arg); else if (s == 6) target->fire5(arg); else if (s == 7) target->fire6(arg); else if (s == 8) target->fire7(arg); else if (s == 9) target->fire8(arg); else target->fireB(arg);
    Frame f = frames.back(); frames.pop_back();
    if (!f.dead) {
      // every record that is connected now and not yet visited should have been called
      auto& v = recs[e][s];
      for (size_t i = f.cursor; i < v.size(); ++i) if (v[i].state == 0) { char d[200]; snprintf(d, sizeof d, "emission of e%d.sig%c ended without invoking connected slot l%d.slot%c%d", e, 'A' + s, v[i].l, 'A' + s, v[i].k); ctx->fail("missing-call", d); }
      if (--depth[e][s] == 0) purge(e, s);
    }
  }
  void doDelListener(int l) {
    if (!li[l]) { ctx->count("skipped"); return; }
    for (auto& f : frames) (void)f;
    Li* p = li[l]; li[l] = nullptr; liveL.erase(p);
    delete p;
    for (int e = 0; e < NE; ++e) for (int s = 0; s < NS; ++s) {
      auto& v = recs[e][s];
      for (size_t i = 0; i < v.size();) { if (v[i].l == l && v[i].state != 2) { if (depth[e][s] > 0) { v[i].state = 2; ++i; } else v.erase(v.begin() + (long)i); } else ++i; }
    }
  }
  void doDelEmitter(int e) {
    if (!em[e]) { ctx->count("skipped"); return; }
    Em* p = em[e]; em[e] = nullptr;
    for (auto& f : frames) if (f.e == e) { f.dead = true; ctx->label("emitter_destroyed_during_its_emission"); }
    delete p;
    for (int s = 0; s < NS; ++s) { recs[e][s].clear(); depth[e][s] = 0; }
  }

  // called from every slot: 'self' is only used as a pointer value
  void onSlot(const void* selfPtr, int s, int k, int arg) {
    ++calls;
    if (!liveL.count(selfPtr)) { char d[160]; snprintf(d, sizeof d, "slot%c%d invoked on a destroyed listener (%p)", 'A' + s, k, selfPtr); ctx->fail("call-on-dead-listener", d); }
    int l = liIndex(selfPtr);
    if (frames.empty()) ctx->fail("unexpected-call", "slot invoked although no emission is in progress");
    Frame& f = frames.back();
    if (f.dead) { char d[160]; snprintf(d, sizeof d, "l%d.slot%c%d invoked by an emission of destroyed emitter e%d", l, 'A' + s, k, f.e); ctx->fail("call-after-emitter-destroyed", d); }
    if (slotType(f.s) != s) ctx->fail("unexpected-call", "slot of a signal with the other signature invoked");
    if (s >= 1 && arg != f.arg) ctx->fail("wrong-argument", "signal argument differs");
    auto& v = recs[f.e][f.s];
    size_t i = f.cursor; while (i < v.size() && v[i].state != 0) ++i;
    if (i >= v.size() || v[i].l != l || v[i].k != k) {
      char d[240];
      if (i < v.size()) snprintf(d, sizeof d, "e%d.sig%c invoked l%d.slot%c%d, the model expects l%d.slot%c%d next", f.e, 'A' + f.s, l, 'A' + s, k, v[i].l, 'A' + s, v[i].k);
      else snprintf(d, sizeof d, "e%d.sig%c invoked l%d.slot%c%d, the model expects no further call (not connected, connected during this emission, or disconnected)", f.e, 'A' + f.s, l, 'A' + s, k);
      ctx->fail("unexpected-call", d);
    }
    f.cursor = i + 1;
    int fe = f.e, fs = f.s;  // f may be invalidated by nested pushes
    if (probing || nextReaction >= reactions.size()) return;
    const Op& r = *reactions[nextReaction++];
    int e2 = (int)(((r.a[0] % NE) + NE) % NE), s2 = (int)(((r.a[1] % NS) + NS) % NS), l2 = (int)(((r.a[2] % NL) + NL) % NL), k2 = (int)(((r.a[3] % NK) + NK) % NK);
    bool self = (r.a[3] & 2) != 0;
    const std::string& nm = r.name;
    if (nm == "r_none") return;
    ctx->label("reaction");
    if (nm == "r_connect") { if (self) { e2 = fe; s2 = fs; } doConnect(e2, s2, l2, k2); if (e2 == fe && s2 == fs) ctx->label("reaction_changes_emitted_signal"); }
    else if (nm == "r_disconnect") { if (self) { e2 = fe; s2 = fs; l2 = l; k2 = k; ctx->label("disconnect_self"); } else if (r.a[3] & 4) { e2 = fe; s2 = fs; } doDisconnect(e2, s2, l2, k2); if (e2 == fe && s2 == fs) ctx->label("reaction_changes_emitted_signal"); }
    else if (nm == "r_emit") { if (self) { e2 = fe; s2 = fs; } doEmit(e2, s2, (int)r.a[2]); }
    else if (nm == "r_dell") { if (self) { l2 = l; ctx->label("listener_deletes_itself"); } if (li[l2]) ctx->label("destruction_inside_slot"); doDelListener(l2); }
    else if (nm == "r_dele") { if (self) e2 = fe; if (em[e2]) ctx->label("destruction_inside_slot"); doDelEmitter(e2); }
  }
};

void Li::slotA0() { g->onSlot(this, 0, 0, 0); }
void Li::slotA1() { g->onSlot(this, 0, 1, 0); }
void Li::slotB0(int x) { g->onSlot(this, 1, 0, x); }
void Li::slotB1(int x) { g->onSlot(this, 1, 1, x); }
void Li::s2_0(int a0, int a1) { if (!(a1 == a0 + 1)) g->ctx->fail("wrong-argument", "an argument of a 2-argument signal arrived changed"); g->onSlot(this, 2, 0, a0); }
void Li::s2_1(int a0, int a1) { if (!(a1 == a0 + 1)) g->ctx->fail("wrong-argument", "an argument of a 2-argument signal arrived changed"); g->onSlot(this, 2, 1, a0); }
void Li::s3_0(int a0, int a1, int a2) { if (!(a1 == a0 + 1 && a2 == a0 + 2)) g->ctx->fail("wrong-argument", "an argument of a 3-argument signal arrived changed"); g->onSlot(this, 3, 0, a0); }
void Li::s3_1(int a0, int a1, int a2) { if (!(a1 == a0 + 1 && a2 == a0 + 2)) g->ctx->fail("wrong-argument", "an argument of a 3-argument signal arrived changed"); g->onSlot(this, 3, 1, a0); }
void Li::s4_0(int a0, int a1, int a2, int a3) { if (!(a1 == a0 + 1 && a2 == a0 + 2 && a3 == a0 + 3)) g->ctx->fail("wrong-argument", "an argument of a 4-argument signal arrived changed"); g->onSlot(this, 4, 0, a0); }
void Li::s4_1(int a0, int a1, int a2, int a3) { if (!(a1 == a0 + 1 && a2 == a0 + 2 && a3 == a0 + 3)) g->ctx->fail("wrong-argument", "an argument of a 4-argument signal arrived changed"); g->onSlot(this, 4, 1, a0); }
void Li::s5_0(int a0, int a1, int a2, int a3, int a4) { if (!(a1 == a0 + 1 && a2 == a0 + 2 && a3 == a0 + 3 && a4 == a0 + 4)) g->ctx->fail("wrong-argument", "an argument of a 5-argument signal arrived changed"); g->onSlot(this, 5, 0, a0); }
void Li::s5_1(int a0, int a1, int a2, int a3, int a4) { if (!(a1 == a0 + 1 && a2 == a0 + 2 && a3 == a0 + 3 && a4 == a0 + 4)) g->ctx->fail("wrong-argument", "an argument of a 5-argument signal arrived changed"); g->onSlot(this, 5, 1, a0); }
void Li::s6_0(int a0, int a1, int a2, int a3, int a4, int a5) { if (!(a1 == a0 + 1 && a2 == a0 + 2 && a3 == a0 + 3 && a4 == a0 + 4 && a5 == a0 + 5)) g->ctx->fail("wrong-argument", "an argument of a 6-argument signal arrived changed"); g->onSlot(this, 6, 0, a0); }
void Li::s6_1(int a0, int a1, int a2, int a3, int a4, int a5) { if (!(a1 == a0 + 1 && a2 == a0 + 2 && a3 == a0 + 3 && a4 == a0 + 4 && a5 == a0 + 5)) g->ctx->fail("wrong-argument", "an argument of a 6-argument signal arrived changed"); g->onSlot(this, 6, 1, a0); }
void Li::s7_0(int a0, int a1, int a2, int a3, int a4, int a5, int a6) { if (!(a1 == a0 + 1 && a2 == a0 + 2 && a3 == a0 + 3 && a4 == a0 + 4 && a5 == a0 + 5 && a6 == a0 + 6)) g->ctx->fail("wrong-argument", "an argument of a 7-argument signal arrived changed"); g->onSlot(this, 7, 0, a0); }
void Li::s7_1(int a0, int a1, int a2, int a3, int a4, int a5, int a6) { if (!(a1 == a0 + 1 && a2 == a0 + 2 && a3 == a0 + 3 && a4 == a0 + 4 && a5 == a0 + 5 && a6 == a0 + 6)) g->ctx->fail("wrong-argument", "an argument of a 7-argument signal arrived changed"); g->onSlot(this, 7, 1, a0); }
void Li::s8_0(int a0, int a1, int a2, int a3, int a4, int a5, int a6, int a7) { if (!(a1 == a0 + 1 && a2 == a0 + 2 && a3 == a0 + 3 && a4 == a0 + 4 && a5 == a0 + 5 && a6 == a0 + 6 && a7 == a0 + 7)) g->ctx->fail("wrong-argument", "an argument of a 8-argument signal arrived changed"); g->onSlot(this, 8, 0, a0); }
void Li::s8_1(int a0, int a1, int a2, int a3, int a4, int a5, int a6, int a7) { if (!(a1 == a0 + 1 && a2 == a0 + 2 && a3 == a0 + 3 && a4 == a0 + 4 && a5 == a0 + 5 && a6 == a0 + 6 && a7 == a0 + 7)) g->ctx->fail("wrong-argument", "an argument of a 8-argument signal arrived changed"); g->onSlot(this, 8, 1, a0); }
}  // namespace

void pbt_generate(Rng& r, int size, Case& c) {
  int nops = 3 + (int)r.below((uint64_t)size + 1);
  int nreact = (int)r.below((uint64_t)size + 2);
  static const char* tops[] = {"connect", "disconnect", "emit", "dell", "dele", "newl", "newe"};
  static const int wt[] = {40, 10, 30, 4, 3, 5, 4};
  static const char* reacts[] = {"r_none", "r_connect", "r_disconnect", "r_emit", "r_dell", "r_dele"};
  static const int wr[] = {20, 22, 25, 18, 9, 6};
  int focusE = (int)r.below(NE), focusS = (int)r.below(NS);  // concentrate on one signal so that chains get long
  bool pairAC = r.chance(35);                                  // ... or on the two signals that share their slot functions
  std::vector<Op> top, re;
  for (int k = 0; k < nops; ++k) {
    int o = r.weighted(wt, 7);
    long e = r.chance(70) ? focusE : (long)r.below(NE), s = pairAC ? (r.chance(50) ? 0 : 2) : r.chance(70) ? focusS : (long)r.below(NS);
    if (o >= 3) top.emplace_back(tops[o], (long)r.below(o == 3 || o == 5 ? NL : NE), 0, 0, 0);
    else top.emplace_back(tops[o], e, s, (long)r.below(NL), (long)r.below(NK));
  }
  for (int k = 0; k < nreact; ++k) {
    int o = r.weighted(wr, 6);
    long e = r.chance(70) ? focusE : (long)r.below(NE), s = pairAC ? (r.chance(50) ? 0 : 2) : r.chance(70) ? focusS : (long)r.below(NS);
    re.emplace_back(reacts[o], e, s, (long)r.below(NL), (long)r.below(8));
  }
  // interleave for readability: top-level ops first, reactions after (order within each kind is what matters)
  for (auto& o : top) c.ops.push_back(o);
  for (auto& o : re) c.ops.push_back(o);
  c.params["teardown"] = (long)r.below(720);
}

bool pbt_nontrivial(const Ctx& ctx) {
  return (ctx.has("reaction_changes_emitted_signal") && ctx.has("nesting_depth>=2(3 emissions)")) || ctx.has("destruction_inside_slot");
}

void pbt_run(const Case& cs, Ctx& ctx) {
  pbt::g_ledger.limitBytes = 16u << 20;
  H h; g = &h; h.ctx = &ctx; h.cs = &cs;
  for (int e = 0; e < NE; ++e) { h.em[e] = new Em; for (int s = 0; s < NS; ++s) h.depth[e][s] = 0; }
  for (int l = 0; l < NL; ++l) { h.li[l] = new Li; LedgerPause lp; h.liveL.insert(h.li[l]); }
  { LedgerPause lp; for (const Op& op : cs.ops) if (op.name.compare(0, 2, "r_") == 0) h.reactions.push_back(&op); }

  long idx = 0;
  for (const Op& op : cs.ops) {
    ctx.opIndex = idx++;
    if (op.name.compare(0, 2, "r_") == 0) continue;
    const std::string& nm = op.name;
    int a0 = (int)(op.a[0] < 0 ? -op.a[0] : op.a[0]);
    int e = a0 % NE, s = (int)(((op.a[1] % NS) + NS) % NS), l = (int)(((op.a[2] % NL) + NL) % NL), k = (int)(((op.a[3] % NK) + NK) % NK);
    if (nm == "connect") h.doConnect(e, s, l, k);
    else if (nm == "disconnect") h.doDisconnect(e, s, l, k);
    else if (nm == "emit") h.doEmit(e, s, (int)op.a[2] * 31 + 7);
    else if (nm == "dell") h.doDelListener(a0 % NL);
    else if (nm == "dele") h.doDelEmitter(e);
    else if (nm == "newl") { int q = a0 % NL; if (!h.li[q]) { h.li[q] = new Li; LedgerPause lp; h.liveL.insert(h.li[q]); } else ctx.count("skipped"); }
    else if (nm == "newe") { if (!h.em[e]) h.em[e] = new Em; else ctx.count("skipped"); }
    else ctx.count("unknown_op");
    if (!h.frames.empty()) ctx.fail("harness", "frame stack not empty between top-level ops");
  }
  // probe emissions: every signal of every live emitter must reach exactly the modelled connections
  ctx.opIndex = -3;
  h.probing = true;
  for (int e = 0; e < NE; ++e) for (int s = 0; s < NS; ++s) if (h.em[e]) h.doEmit(e, s, 99);
  // teardown in a generated order
  ctx.opIndex = -2;
  long order = cs.param("teardown", 0);
  int objs[NE + NL]; for (int i = 0; i < NE + NL; ++i) objs[i] = i;
  for (int i = NE + NL - 1; i > 0; --i) { int j = (int)(order % (i + 1)); order /= 2; std::swap(objs[i], objs[j]); order += i; }
  for (int i = 0; i < NE + NL; ++i) { int o = objs[i]; if (o < NE) h.doDelEmitter(o); else h.doDelListener(o - NE); }
  { LedgerPause lp; h.liveL.clear(); for (int e = 0; e < NE; ++e) for (int s = 0; s < NS; ++s) { h.recs[e][s].clear(); h.recs[e][s].shrink_to_fit(); } h.frames.clear(); h.frames.shrink_to_fit(); h.reactions.clear(); h.reactions.shrink_to_fit(); }
  g = nullptr;
}
