// C02 (part "hashkeys"): the library's own hash() overloads (Base.hpp: integers, pointers; String.hpp: String) on the path of
// HashMap / HashSet with small and default table sizes, against an insertion-ordered reference.
#define PBT_MAIN
#include "pbt.hpp"
#include <nstd/HashMap.hpp>
#include <nstd/HashSet.hpp>
#include <nstd/PoolMap.hpp>
#include <nstd/String.hpp>

const char* pbt_property = "C02";
const char* pbt_part = "hashkeys";
void pbt_warmup() {}

using namespace pbt;

namespace {
const char* const WORDS[] = {"", "a", "b", "ab", "ba", "a1b1c", "a2b2c", "a3b3c", "axbyc", "aybxc", "hello", "hellp", "world", "x", "xy", "xyz", "xyzw", "0", "00", "000"};
const int NW = sizeof WORDS / sizeof *WORDS;

template <class K, class MK> struct Ref { std::vector<std::pair<MK, long>> v; int find(const MK& k) const { for (size_t i = 0; i < v.size(); ++i) if (v[i].first == k) return (int)i; return -1; } };

template <class K, class MK, class Make>
void runMap(const Case& cs, Ctx& ctx, long cap, Make make, const char* tname) {
  HashMap<K, long>* h = cap < 0 ? new HashMap<K, long>() : new HashMap<K, long>((usize)cap);
  HashSet<K>* hs = cap < 0 ? new HashSet<K>() : new HashSet<K>((usize)cap);
  // PoolMap with a plain value type: append(key) creates the entry with a value-initialised value (0), an existing entry is left
  // untouched; removed entries are recycled, so a fresh entry must not show its predecessor's value
  PoolMap<K, unsigned short>* pm = cap < 0 ? new PoolMap<K, unsigned short>() : new PoolMap<K, unsigned short>((usize)cap);
  Ref<K, MK> m, ms, mp;
  long idx = 0;
  for (const Op& op : cs.ops) {
    ctx.opIndex = idx++;
    long kraw = op.a[0]; long val = op.a[1];
    MK mk; K key = make(kraw, mk);
    const std::string& nm = op.name;
    if (nm == "put") {
      { int p = mp.find(mk); unsigned short& slot = pm->append(key); if (p < 0) { if (slot != 0) { char d[200]; snprintf(d, sizeof d, "%s: PoolMap::append(key) of a new key returned an entry whose value is %ld, not the value-initialised 0", tname, (long)slot); ctx.fail("mismatch:poolmap-fresh-value", d); } slot = (unsigned short)val; mp.v.emplace_back(mk, val); } else if (slot != mp.v[(size_t)p].second) ctx.fail("mismatch:poolmap-value", tname); }
      h->append(key, val); int p = m.find(mk); if (p >= 0) m.v[(size_t)p].second = val; else m.v.emplace_back(mk, val); hs->append(key); if (ms.find(mk) < 0) ms.v.emplace_back(mk, 0); }
    else if (nm == "del") { { pm->remove(key); int p = mp.find(mk); if (p >= 0) mp.v.erase(mp.v.begin() + p); }
      h->remove(key); int p = m.find(mk); if (p >= 0) m.v.erase(m.v.begin() + p); hs->remove(key); p = ms.find(mk); if (p >= 0) ms.v.erase(ms.v.begin() + p); }
    else if (nm == "get") {
      typename HashMap<K, long>::Iterator it = h->find(key); int p = m.find(mk);
      if ((it == h->end()) != (p < 0)) { char d[160]; snprintf(d, sizeof d, "%s: HashMap::find disagrees with the reference for raw key %ld", tname, kraw); ctx.fail("mismatch:find", d); }
      if (p >= 0 && *it != m.v[(size_t)p].second) ctx.fail("mismatch:value", tname);
      if (hs->contains(key) != (ms.find(mk) >= 0)) ctx.fail("mismatch:set-contains", tname);
      { typename PoolMap<K, unsigned short>::Iterator pi = pm->find(key); int pp = mp.find(mk); if ((pi == pm->end()) != (pp < 0)) ctx.fail("mismatch:poolmap-find", tname); if (pp >= 0 && *pi != mp.v[(size_t)pp].second) ctx.fail("mismatch:poolmap-value", tname); }
    }
    else if (nm == "clear") { h->clear(); hs->clear(); pm->clear(); m.v.clear(); ms.v.clear(); mp.v.clear(); }
    else if (nm == "copy") { HashMap<K, long> c2(*h); if (!(c2 == *h)) ctx.fail("mismatch:copy-equal", tname); *h = c2; HashSet<K> s2(*hs); if (s2 != *hs) ctx.fail("mismatch:set-copy-equal", tname); }
    else { ctx.count("unknown_op"); continue; }
    if (pm->size() != mp.v.size()) ctx.fail("mismatch:poolmap-size", tname);
    { size_t q = 0; for (typename PoolMap<K, unsigned short>::Iterator it = pm->begin(); it != pm->end(); ++it, ++q) if (q >= mp.v.size() || *it != mp.v[q].second) ctx.fail("mismatch:poolmap-iteration", tname); }
    if (h->size() != m.v.size() || hs->size() != ms.v.size()) { char d[160]; snprintf(d, sizeof d, "%s after %s: sizes %zu/%zu, reference %zu/%zu", tname, nm.c_str(), (size_t)h->size(), (size_t)hs->size(), m.v.size(), ms.v.size()); ctx.fail("mismatch:size", d); }
    // every reference key is found, in insertion order
    size_t i = 0; for (typename HashMap<K, long>::Iterator it = h->begin(); it != h->end(); ++it, ++i) { MK tmp; (void)tmp; if (i >= m.v.size() || *it != m.v[i].second) ctx.fail("mismatch:iteration", tname); }
    for (auto& e : m.v) { MK dummy; K k2 = make(-1, dummy, &e.first); if (h->find(k2) == h->end()) { char d[160]; snprintf(d, sizeof d, "%s after %s: a key of the reference is not found", tname, nm.c_str()); ctx.fail("mismatch:lookup-lost", d); } }
    if (m.v.size() >= 6) ctx.label("table>=6");
  }
  delete h; delete hs; delete pm;
}
}  // namespace

void pbt_generate(Rng& r, int size, Case& c) {
  static const long caps[] = {-1, 1, 2, 3, 7, 16};
  c.params["type"] = (long)r.below(4); c.params["cap"] = caps[r.below(6)];
  int n = 2 + (int)r.below((uint64_t)size * 2 + 1);
  int U = 2 + (int)r.below(24);
  static const char* names[] = {"put", "del", "get", "clear", "copy"}; static const int w[] = {45, 20, 28, 2, 5};
  for (int k = 0; k < n; ++k) c.add(names[r.weighted(w, 5)], (long)r.below((uint64_t)U), (long)r.below(1000));
}
bool pbt_nontrivial(const Ctx& ctx) { return ctx.has("table>=6"); }

void pbt_run(const Case& cs, Ctx& ctx) {
  long type = ((cs.param("type", 0) % 4) + 4) % 4, cap = cs.param("cap", -1);
  static char pool[64];
  switch (type) {
    case 0: ctx.label("key_int"); runMap<int, long>(cs, ctx, cap, [](long raw, long& mk, const long* from = nullptr) { mk = from ? *from : (raw % 3 == 0 ? raw * 500 : raw) - 5; return (int)mk; }, "int"); break;
    case 1: ctx.label("key_int64"); runMap<int64, long>(cs, ctx, cap, [](long raw, long& mk, const long* from = nullptr) { mk = from ? *from : raw * 4294967296L + raw; return (int64)mk; }, "int64"); break;
    case 2: ctx.label("key_pointer"); runMap<const void*, long>(cs, ctx, cap, [](long raw, long& mk, const long* from = nullptr) { mk = from ? *from : (raw % 64); return (const void*)(pool + mk); }, "const void*"); break;
    default: ctx.label("key_String"); runMap<String, std::string>(cs, ctx, cap, [](long raw, std::string& mk, const std::string* from = nullptr) { mk = from ? *from : std::string(WORDS[((raw % NW) + NW) % NW]); 
      // one key in three is a view attached to the word inside a larger buffer (a non-zero byte in front of it, the terminator behind it): equal keys must
      // hash and compare alike whatever their representation
      static char views[NW][16]; static bool init = false; if (!init) { init = true; for (int w = 0; w < NW; ++w) { views[w][0] = 'Z'; strcpy(views[w] + 1, WORDS[w]); } }
      if (!from && (raw % 3 == 1 || raw >= NW)) { int w = (int)(((raw % NW) + NW) % NW); String v; v.attach(views[w] + 1, strlen(WORDS[w])); return v; }
      return String(mk.data(), mk.size()); }, "String"); break;
  }
}
