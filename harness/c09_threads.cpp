// C09 (threads part, vsched): different handles to one shared payload used by different threads under generated
// interleavings.  Each logical thread owns its handles and a thread-local value model; the allocation ledger
// (quarantine + poison) gives exact verdicts for double release, write after release and leaks.
#define PBT_MAIN
#include "pbt.hpp"
#include "vs_common.hpp"
#include "c09_kinds.hpp"
#include <pthread.h>

const char* pbt_property = "C09";
const char* pbt_part = "threads";
void pbt_warmup() {}

using namespace pbt;

using namespace c09;
namespace {
struct Prog { std::vector<const Op*> ops; };
struct ThreadCtx { int tid; Kind* k; void* slot[NSLOT]; std::string model[NSLOT]; Prog* prog; };

void failC(const char* kind, const std::string& d) { vs::childFail(kind, d.c_str()); }

void runProgram(ThreadCtx& t) {
  for (const Op* op : t.prog->ops) {
    int what = (int)(((op->a[1] % 6) + 6) % 6), a = (int)(((op->a[2] % NSLOT) + NSLOT) % NSLOT), b = (int)(((op->a[3] % NSLOT) + NSLOT) % NSLOT);
    vsched::point("op");
    switch (what) {
      case 0:  // copy a -> b
        if (!t.slot[a] || a == b) break;
        if (t.slot[b]) { t.k->destroy(t.slot[b]); t.slot[b] = nullptr; }
        t.slot[b] = t.k->copy(t.slot[a]); t.model[b] = t.model[a]; break;
      case 1: if (t.slot[a]) { t.k->destroy(t.slot[a]); t.slot[a] = nullptr; } break;
      case 2: if (t.slot[a] && t.slot[b]) { t.k->assign(t.slot[b], t.slot[a]); t.model[b] = t.model[a]; } break;
      case 3: if (t.slot[a]) t.k->modify(t.slot[a], t.tid, (int)op->a[3], t.model[a]); break;
      case 5: if (t.slot[a]) t.k->clear(t.slot[a], t.model[a]); break;
      default: break;
    }
    // every handle of this thread still shows the value this thread gave it
    for (int s = 0; s < NSLOT; ++s) if (t.slot[s]) { std::string got = t.k->read(t.slot[s]); if (got != t.model[s]) failC("mismatch:handle-content", "thread " + std::to_string(t.tid) + " slot " + std::to_string(s) + " reads '" + got + "', its own history says '" + t.model[s] + "' (payload modified through another handle or released early)"); }
  }
  for (int s = 0; s < NSLOT; ++s) if (t.slot[s]) { t.k->destroy(t.slot[s]); t.slot[s] = nullptr; }
}
void* threadMain(void* p) { runProgram(*(ThreadCtx*)p); return nullptr; }
}  // namespace

void pbt_generate(Rng& r, int size, Case& c) {
  int nt = 2 + (int)r.below(3);
  c.params["kind"] = (long)r.below(NKIND);
  c.params["threads"] = nt;
  c.params["strategy"] = (long)r.below(4);
  c.params["sched"] = (long)r.below(1000000);
  c.params["nsched"] = 12;
  c.params["share"] = (long)r.below(3);  // how many threads get a handle to payload 1 as well
  int n = 2 + (int)r.below((uint64_t)size + 1);
  static const int w[] = {28, 20, 13, 22, 5, 12};
  for (int k = 0; k < n; ++k) c.add("op", (long)r.below((uint64_t)nt), (long)r.weighted(w, 6), (long)r.below(NSLOT), (long)r.below(NSLOT));
}

bool pbt_nontrivial(const Ctx& ctx) { return ctx.has("interleaved_counter_ops"); }

void pbt_run(const Case& cs, Ctx& ctx) {
  int kind = (int)(((cs.param("kind", 0) % NKIND) + NKIND) % NKIND), nt = (int)std::max(2L, std::min<long>(MAXT, cs.param("threads", 2)));
  long nsched = ctx.replay ? 60 : std::max(1L, std::min(64L, cs.param("nsched", 8)));
  long share = cs.param("share", 0);
  static const char* KN[] = {"kind_String", "kind_Variant_string", "kind_Variant_list", "kind_RefCountPtr", "kind_XmlVariant", "kind_RefCountPtr_converting", "kind_Variant_map", "kind_Variant_array"};
  ctx.label(KN[kind]);
  if (isPtrKind(kind) && ctx.excluded("C09-ptr-swap")) {}
  std::vector<Prog> progs((size_t)nt);
  for (const Op& op : cs.ops) if (op.name == "op") progs[(size_t)(((op.a[0] % nt) + nt) % nt)].ops.push_back(&op);
  for (long s = 0; s < nsched; ++s) {
    vsched::Config cfg; cfg.seed = (uint64_t)cs.param("sched", 1) * 1000003ull + (uint64_t)s; cfg.strategy = (int)((cs.param("strategy", 0) + s) % 4); cfg.stepBound = 100000;
    auto body = [&]() {
      Kind* k = kindOf(kind);
      memset(g_dtor, 0, sizeof g_dtor); g_objs = 0;
      void* pay[NPAY]; for (int p = 0; p < NPAY; ++p) pay[p] = k->make(p);
      std::vector<ThreadCtx> tc((size_t)nt);
      for (int t = 0; t < nt; ++t) {
        tc[(size_t)t].tid = t; tc[(size_t)t].k = k; tc[(size_t)t].prog = &progs[(size_t)t];
        for (int q = 0; q < NSLOT; ++q) tc[(size_t)t].slot[q] = nullptr;
        tc[(size_t)t].slot[0] = k->copy(pay[0]); tc[(size_t)t].model[0] = k->initial(0);
        if (t < share) { tc[(size_t)t].slot[1] = k->copy(pay[1]); tc[(size_t)t].model[1] = k->initial(1); }
      }
      // the setup handles go away at a generated moment too: thread 0 drops them before its own program
      pthread_t th[MAXT];
      for (int t = 1; t < nt; ++t) pthread_create(&th[t], nullptr, threadMain, &tc[(size_t)t]);
      for (int p = 0; p < NPAY; ++p) k->destroy(pay[p]);
      runProgram(tc[0]);
      for (int t = 1; t < nt; ++t) pthread_join(th[t], nullptr);
    };
    auto check = [&]() {
      for (int i = 0; i < g_objs; ++i) if (g_dtor[i] != 1) { char d[128]; snprintf(d, sizeof d, "object %d was destroyed %d times (expected exactly once, after its last handle)", i, g_dtor[i]); vs::childFail("refcount:destructor-count", d); }
    };
    vs::Result r = vs::runForked(cfg, body, check);
    ctx.count("schedules");
    ctx.count("decisions", (uint64_t)r.decisions); ctx.count("context_switches", (uint64_t)r.switches);
    if (r.interleaved > 0) ctx.label("interleaved_counter_ops");
    if (r.switches >= 3) ctx.label("switches>=3");
    if (r.status == 1) { char d[900]; snprintf(d, sizeof d, "schedule %ld (seed %llu, strategy %d): %s", s, (unsigned long long)cfg.seed, cfg.strategy, r.detail.c_str()); ctx.fail(r.kind, d); }
    if (r.status == 2) ctx.count(std::string("inconclusive:" + r.kind).c_str());
  }
}
