// C06: String is an independent byte-string value matching a reference model.
// Four String variables that may share buffers; literals and a guarded attach pool that must never change;
// std::string model per variable; every variable re-checked after every operation.
#define PBT_MAIN
#include "pbt.hpp"
#include <nstd/String.hpp>
#include <nstd/List.hpp>
#include <nstd/HashSet.hpp>
#include <string>

const char* pbt_property = "C06";
const char* pbt_part = "string";

using namespace pbt;

namespace {
const int NV = 4;
// literals (real arrays: the template constructor needs them)
const char L0[] = "";
const char L1[] = "a";
const char L2[] = "ab,cd;;e";
const char L3[] = "Hello World";
const char L4[] = "  x y  ";
const char L5[] = "aXbXXc/d.e\\\"q";
const char* const LIT[] = {L0, L1, L2, L3, L4, L5};
const size_t LITN[] = {sizeof L0, sizeof L1, sizeof L2, sizeof L3, sizeof L4, sizeof L5};
char LITCOPY[6][32];
const int NLIT = 6;

const int GUARD = 8, PLEN = 64, NPOOL = 3;
unsigned char* pool[NPOOL];
unsigned char pristine[NPOOL][GUARD + PLEN + GUARD];

const char ALPHA[] = "abAB/. ,;\"\\abXxyz";

String* mkLit(int k) {
  switch (k % NLIT) { case 0: return new String(L0); case 1: return new String(L1); case 2: return new String(L2); case 3: return new String(L3); case 4: return new String(L4); default: return new String(L5); }
}

bool nulFree(const std::string& s) { return s.find('\0') == std::string::npos; }
char lc(char c) { return (c >= 'A' && c <= 'Z') ? (char)(c + 32) : c; }
char uc(char c) { return (c >= 'a' && c <= 'z') ? (char)(c - 32) : c; }

std::string rstr(Rng& r, int maxlen, bool allowNul = false) {
  int n = (int)r.below((uint64_t)maxlen + 1);
  std::string s;
  for (int i = 0; i < n; ++i) {
    if (r.chance(6)) s += (char)(0x80 + r.below(128));
    else if (allowNul && r.chance(3)) s += '\0';
    else s += ALPHA[r.below(sizeof ALPHA - 1)];
  }
  return s;
}

// window selection inside a pool buffer: NULs sit at every 8th byte (index 7, 15, ...)
void window(long a, long b, bool terminated, int& off, int& len) {
  off = (int)(((a % 56) + 56) % 56);
  int nextNul = (off | 7);  // first index >= off with (idx & 7) == 7
  if (terminated) len = nextNul - off;
  else { int room = nextNul - off; len = room == 0 ? 0 : (int)(((b % room) + room) % room); if (room == 0) { off += 1; len = (int)(((b % 7) + 7) % 7); } }
}
}  // namespace

void resetPool();
void pbt_warmup() {
  for (int k = 0; k < NLIT; ++k) memcpy(LITCOPY[k], LIT[k], LITN[k]);
  for (int p = 0; p < NPOOL; ++p) pool[p] = (unsigned char*)malloc(GUARD + PLEN + GUARD);
  resetPool();
  String warm("x"); String w2(warm); w2.append(warm);
}

void resetPool() {
  for (int p = 0; p < NPOOL; ++p) {
    for (int i = 0; i < GUARD + PLEN + GUARD; ++i) {
      int j = i - GUARD;
      unsigned char c = (j < 0 || j >= PLEN) ? (unsigned char)(0xE0 + (i & 7)) : ((j & 7) == 7 ? 0 : (unsigned char)ALPHA[(j * 5 + p * 3) % (sizeof ALPHA - 1)]);
      pool[p][i] = pristine[p][i] = c;
    }
  }
}

void pbt_generate(Rng& r, int size, Case& c) {
  int nops = 2 + (int)r.below((uint64_t)size + 1);
  static const char* names[] = {"lit", "buf", "fill", "cap", "copy", "assign", "attach", "append", "appendp", "appendc", "prepend", "prependp", "pluseq", "plus",
                                "clear", "resize", "reserve", "detach", "replacec", "replace", "lower", "upper", "trim", "substr", "token", "tokens", "split", "join",
                                "printf", "cstr", "query", "recreate", "poke"};
  static const int w[] = {6, 4, 2, 2, 8, 8, 8, 8, 4, 3, 5, 3, 2, 3,
                          2, 4, 3, 2, 3, 5, 2, 2, 3, 4, 3, 3, 3, 2,
                          3, 5, 10, 1, 4};
  const int N = sizeof w / sizeof *w;
  for (int k = 0; k < nops; ++k) {
    int o = r.weighted(w, N);
    std::string nm = names[o];
    std::string d;
    if (nm == "appendp" || nm == "prependp") d = rstr(r, 12, true);
    else if (nm == "trim" || nm == "tokens" || nm == "split") { static const char* sets[] = {" ", ",;", " \t\r\n\v", "/.", "ab", "X"}; d = sets[r.below(6)]; }
    else if (nm == "printf") { d = rstr(r, r.chance(20) ? 260 : 10); if (r.chance(25)) { d.clear(); int n = 90 + (int)r.below(20) + (r.chance(50) ? 95 : 0); for (int q = 0; q < n; ++q) d += ALPHA[r.below(sizeof ALPHA - 1)]; } }
    c.add(names[o], (long)r.below(NV), (long)r.below(NV), (long)r.range(-3, 70), (long)r.below(1000), d);
  }
}

bool pbt_nontrivial(const Ctx& ctx) {
  return ctx.has("mutate_while_shared") && (ctx.has("mutate_unterminated_attached") || ctx.has("self_argument"));
}

void pbt_run(const Case& cs, Ctx& ctx) {
  pbt::g_ledger.limitBytes = 16u << 20;
  resetPool();  // a case is a pure function of its text
  String* s[NV]; std::string m[NV];
  struct Win { int p, off, len; } win[NV] = {};
  int group[NV]; int nextGroup = 1; int state[NV];  // state: 0 empty/lit, 1 owned, 2 attached-terminated, 3 attached-unterminated
  for (int i = 0; i < NV; ++i) { s[i] = new String; group[i] = 0; state[i] = 0; }

  auto shared = [&](int i) { if (state[i] != 1) return false; for (int j = 0; j < NV; ++j) if (j != i && state[j] == 1 && group[j] == group[i]) return true; return false; };
  auto mutating = [&](int i) { if (shared(i)) ctx.label("mutate_while_shared"); if (state[i] == 3) ctx.label("mutate_unterminated_attached"); if (state[i] == 2) ctx.label("mutate_attached"); state[i] = 1; group[i] = nextGroup++; };
  auto fresh = [&](int i) { state[i] = 1; group[i] = nextGroup++; };

  auto checkAll = [&](const char* opname) {
    for (int i = 0; i < NV; ++i) {
      const String& S = *s[i];
      if (S.length() != m[i].size()) { char d[200]; snprintf(d, sizeof d, "after %s: s%d length %zu, model %zu", opname, i, (size_t)S.length(), m[i].size()); ctx.fail("mismatch:length", d); }
      if (S.isEmpty() != m[i].empty()) ctx.fail("mismatch:isEmpty", opname);
      String ref(m[i].data(), m[i].size());
      if (!(S == ref) || (S != ref) || !(ref == S)) {
        char d[300]; snprintf(d, sizeof d, "after %s: s%d bytes differ from the model (len %zu) model=%s", opname, i, m[i].size(), Case::hex(m[i]).substr(0, 120).c_str()); ctx.fail("mismatch:bytes", d);
      }
    }
    for (int k = 0; k < NLIT; ++k) if (memcmp(LITCOPY[k], LIT[k], LITN[k]) != 0) ctx.fail("stray-write:literal", opname);
    for (int p = 0; p < NPOOL; ++p) if (memcmp(pool[p], pristine[p], GUARD + PLEN + GUARD) != 0) {
      int k = 0; while (pool[p][k] == pristine[p][k]) ++k;
      char d[200]; snprintf(d, sizeof d, "after %s: attached/source memory pool %d byte %d changed", opname, p, k - GUARD); ctx.fail("stray-write:pool", d);
    }
  };
  auto cstrCheck = [&](int i, const char* opname) {
    const String& S = *s[i];
    const char* p = S;  // may detach an unterminated attached string
    if (state[i] == 3) { state[i] = 1; group[i] = nextGroup++; }
    if (p[m[i].size()] != 0) { char d[160]; snprintf(d, sizeof d, "%s: C-string view of s%d is not terminated at length()", opname, i); ctx.fail("cstr:unterminated", d); }
    if (memcmp(p, m[i].data(), m[i].size()) != 0) ctx.fail("cstr:bytes", opname);
  };

  long idx = 0;
  for (const Op& op : cs.ops) {
    ctx.opIndex = idx++;
    int i = (int)(((op.a[0] % NV) + NV) % NV), j = (int)(((op.a[1] % NV) + NV) % NV);
    long a2 = op.a[2], a3 = op.a[3] < 0 ? -op.a[3] : op.a[3];
    int k3 = (int)(a3 % NV);
    const std::string& nm = op.name;
    const std::string& d = op.data;
    String& S = *s[i];
    // keep the case within its memory budget: no further growing operations on a string that is already long
    if (m[i].size() > 100000 && (nm == "replace" || nm == "join" || nm == "printf" || nm == "appendp" || nm == "prependp" || nm == "appendc")) { ctx.count("skipped_big"); continue; }

    if (nm == "lit") { delete s[i]; s[i] = mkLit((int)a3); m[i].assign(LIT[a3 % NLIT], LITN[a3 % NLIT] - 1); state[i] = 0; group[i] = 0; }
    else if (nm == "buf") { int off, len; window(a3, a2, (a3 & 1) != 0, off, len); int p = (int)(a3 % NPOOL); delete s[i]; s[i] = new String((const char*)pool[p] + GUARD + off, (usize)len); m[i].assign((const char*)pool[p] + GUARD + off, (size_t)len); fresh(i); }
    else if (nm == "fill") { size_t n = (size_t)(a2 < 0 ? 0 : a2 % 40); char c = ALPHA[a3 % (sizeof ALPHA - 1)]; delete s[i]; s[i] = new String((usize)n, c); m[i].assign(n, c); fresh(i); }
    else if (nm == "cap") { size_t n = (size_t)(a2 < 0 ? 0 : a2); delete s[i]; s[i] = new String((usize)n); m[i].clear(); fresh(i); if (s[i]->capacity() < n) ctx.fail("mismatch:capacity", "String(capacity)"); }
    else if (nm == "copy") {
      if (i == j) ctx.count("skipped");
      else { delete s[i]; s[i] = new String(*s[j]); m[i] = m[j]; if (state[j] == 1) { state[i] = 1; group[i] = group[j]; ctx.label("shared_by_copy"); } else if (m[j].empty() && state[j] == 0) { state[i] = 0; group[i] = 0; } else fresh(i); }
    }
    else if (nm == "assign") {
      if (i == j) ctx.label("self_argument");
      S = *s[j];
      if (i != j) { m[i] = m[j]; if (state[j] == 1) { state[i] = 1; group[i] = group[j]; ctx.label("shared_by_assign"); } else fresh(i); }
      else if (state[i] != 1) fresh(i);
    }
    else if (nm == "attach") {
      int off, len; bool term = (a3 & 1) != 0; window(a3 / 2, a2, term, off, len); int p = (int)((a3 / 2) % NPOOL);
      const char* ptr = (const char*)pool[p] + GUARD + off;
      S.attach(ptr, (usize)len); m[i].assign(ptr, (size_t)len);
      state[i] = ptr[len] ? 3 : 2; group[i] = 0; win[i] = Win{p, off, len};
      ctx.label(state[i] == 3 ? "attach_unterminated" : "attach_terminated");
    }
    else if ((nm == "append" || nm == "pluseq" || nm == "prepend") && m[i].size() + m[j].size() > 60000) ctx.count("skipped_big");   // repeated concatenation doubles the lengths
    else if (nm == "plus" && m[j].size() + m[k3].size() > 60000) ctx.count("skipped_big");
    else if (nm == "append" || nm == "pluseq") {
      if (i == j) ctx.label("self_argument");
      std::string add = m[j]; mutating(i);
      if (nm == "append") { String& r = S.append(*s[j]); if (&r != &S) ctx.fail("mismatch:return", "append"); } else S += *s[j];
      m[i] += add;
    }
    else if (nm == "appendp") {
      char* ex = (char*)malloc(d.size() + 1); memcpy(ex, d.data(), d.size()); mutating(i);
      S.append(ex, (usize)d.size()); m[i] += d; free(ex);
    }
    else if (nm == "appendc") { char c = ALPHA[a3 % (sizeof ALPHA - 1)]; mutating(i); if (a3 & 64) S += c; else S.append(c); m[i] += c; }
    else if (nm == "prepend") {
      if (i == j && ctx.excluded("C06-prepend-self")) continue;
      if (i == j) ctx.label("self_argument");
      std::string add = m[j]; mutating(i);
      S.prepend(*s[j]); m[i] = add + m[i];
    }
    else if (nm == "prependp") { char* ex = (char*)malloc(d.size() + 1); memcpy(ex, d.data(), d.size()); mutating(i); S.prepend(ex, (usize)d.size()); m[i] = d + m[i]; free(ex); }
    else if (nm == "plus") {
      // s[i] = s[j] + s[k]
      String r = *s[j] + *s[k3];
      std::string mr = m[j] + m[k3];
      if (a3 & 128) { r = *s[j] + L3 + L5; mr = m[j] + std::string(L3) + std::string(L5); ctx.label("plus_literal"); }
      if (i == j || i == k3) ctx.label("self_argument");
      S = r; m[i] = mr; fresh(i);
    }
    else if (nm == "clear") { if (shared(i)) ctx.label("mutate_while_shared"); S.clear(); m[i].clear(); if (state[i] != 1 || shared(i)) { state[i] = 0; group[i] = 0; } }
    else if (nm == "resize") {
      size_t n = (size_t)(a2 < 0 ? 0 : a2 % 48), old = m[i].size(); mutating(i);
      S.resize((usize)n); m[i].resize(n, '?');
      if (n > old) { char* w = S; for (size_t q = old; q < n; ++q) { w[q] = (char)('0' + q % 10); m[i][q] = w[q]; } }
      if (S.capacity() < n) ctx.fail("mismatch:capacity", "resize");
    }
    else if (nm == "reserve") { size_t n = (size_t)(a2 < 0 ? 0 : a2); mutating(i); S.reserve((usize)n); if (S.capacity() < n || S.capacity() < m[i].size()) ctx.fail("mismatch:capacity", "reserve"); }
    else if (nm == "detach") { mutating(i); S.detach(); }
    else if (nm == "replacec") {
      char c1 = ALPHA[a3 % (sizeof ALPHA - 1)], c2 = ALPHA[(a3 / 17) % (sizeof ALPHA - 1)];
      if (!nulFree(m[i])) { ctx.count("skipped_nul"); continue; }
      mutating(i); S.replace(c1, c2); for (auto& ch : m[i]) if (ch == c1) ch = c2;
    }
    else if (nm == "replace") {
      // needle s[j] (non-empty), replacement s[k]; all NUL-free
      if (m[j].empty() || !nulFree(m[i]) || !nulFree(m[j]) || !nulFree(m[k3])) { ctx.count("skipped_nul_or_empty"); continue; }
      if (state[i] == 3 && ctx.excluded("C06-replace-unterminated")) continue;
      if (i == j || i == k3) ctx.label("self_argument");
      std::string needle = m[j], rep = m[k3], src = m[i], out;
      // a replacement by a long string multiplies the length: keep the case (and the model's own strings) within the memory budget
      { size_t cnt = 0; for (size_t f = src.find(needle); f != std::string::npos; f = src.find(needle, f + needle.size())) ++cnt;
        if (ctx.verbose) fprintf(stderr, "replace: subject %zu bytes, needle %zu, replacement %zu, %zu occurrences\n", src.size(), needle.size(), rep.size(), cnt);
        if (src.size() + cnt * rep.size() > 200000) { ctx.count("skipped_big"); continue; } }
      size_t pos = 0; bool any = false;
      for (;;) { size_t f = src.find(needle, pos); if (f == std::string::npos) { out += src.substr(pos); break; } any = true; out += src.substr(pos, f - pos); out += rep; pos = f + needle.size(); }
      int stI = state[i];
      S.replace(*s[j], *s[k3]);
      // conversions to C strings may have detached the unterminated arguments
      if (state[j] == 3) fresh(j);
      if (any) { if (stI == 3) ctx.label("mutate_unterminated_attached"); m[i] = out; fresh(i); ctx.label("replace_hit"); }
    }
    else if (nm == "lower" || nm == "upper") {
      if (!nulFree(m[i])) { ctx.count("skipped_nul"); continue; }
      mutating(i);
      if (nm == "lower") { S.toLowerCase(); for (auto& ch : m[i]) ch = lc(ch); } else { S.toUpperCase(); for (auto& ch : m[i]) ch = uc(ch); }
    }
    else if (nm == "trim") {
      if (!nulFree(m[i]) || d.empty()) { ctx.count("skipped_nul"); continue; }
      size_t b = 0, e = m[i].size();
      while (b < e && d.find(m[i][b]) != std::string::npos) ++b;
      while (e > b && d.find(m[i][e - 1]) != std::string::npos) --e;
      bool changes = (e - b) != m[i].size();
      if (changes) { if (shared(i)) ctx.label("mutate_while_shared"); if (state[i] == 3) ctx.label("mutate_unterminated_attached"); }
      if (a3 & 1 && d == " \t\r\n\v") S.trim(); else S.trim(d.c_str());
      if (changes) { m[i] = m[i].substr(b, e - b); fresh(i); }
    }
    else if (nm == "substr") {
      long start = a2 - 10; long len = (long)(a3 % 30) - 3;
      String r = len < 0 ? s[j]->substr((ssize)start) : s[j]->substr((ssize)start, (ssize)len);
      long n = (long)m[j].size(), st = start;
      if (st < 0) { st = n + st; if (st < 0) st = 0; } else if (st > n) st = n;
      long en = len >= 0 ? std::min(n, st + len) : n;
      std::string mr = m[j].substr((size_t)st, (size_t)(en - st));
      if (i == j) ctx.label("self_argument");
      S = r; m[i] = mr; fresh(i);
    }
    else if (nm == "token") {
      if (!nulFree(m[j])) { ctx.count("skipped_nul"); continue; }
      char sep = ",; /X"[a3 % 5];
      usize start = 0; size_t ms = 0; int guard = 0;
      for (;;) {
        String t = s[j]->token(sep, start);
        if (state[j] == 3) fresh(j);
        size_t f = ms >= m[j].size() ? std::string::npos : m[j].find(sep, ms);
        std::string mt; size_t mnext;
        if (f != std::string::npos) { mt = m[j].substr(ms, f - ms); mnext = f + 1; } else { mt = ms <= m[j].size() ? m[j].substr(ms) : std::string(); mnext = m[j].size(); }
        if (t.length() != mt.size() || memcmp((const char*)t, mt.data(), mt.size()) != 0 || start != mnext) { char dd[200]; snprintf(dd, sizeof dd, "token('%c') from %zu: got len %zu next %zu, model len %zu next %zu", sep, ms, (size_t)t.length(), (size_t)start, mt.size(), mnext); ctx.fail("mismatch:token", dd); }
        if (ms >= m[j].size() || ++guard > 100) break;
        ms = mnext;
      }
      ctx.label("token");
    }
    else if (nm == "tokens") {
      if (!nulFree(m[j]) || d.empty()) { ctx.count("skipped_nul"); continue; }
      usize start = 0; size_t ms = 0; int guard = 0;
      for (;;) {
        String t = s[j]->token(d.c_str(), start);
        if (state[j] == 3) fresh(j);
        size_t f = m[j].find_first_of(d, ms);
        std::string mt; size_t mnext;
        if (f != std::string::npos) { mt = m[j].substr(ms, f - ms); mnext = f + 1; } else { mt = m[j].substr(ms); mnext = m[j].size(); }
        if (t.length() != mt.size() || memcmp((const char*)t, mt.data(), mt.size()) != 0 || start != mnext) ctx.fail("mismatch:token-set", "token(separators,start)");
        if (ms >= m[j].size() || ++guard > 100) break;
        ms = mnext;
      }
      ctx.label("token");
    }
    else if (nm == "split") {
      if (!nulFree(m[j]) || d.empty()) { ctx.count("skipped_nul"); continue; }
      bool skipEmpty = (a3 & 1) != 0;
      std::vector<std::string> mt;
      { size_t p0 = 0; for (;;) { size_t f = m[j].find_first_of(d, p0); std::string piece = f == std::string::npos ? m[j].substr(p0) : m[j].substr(p0, f - p0); if (!piece.empty() || !skipEmpty) mt.push_back(piece); if (f == std::string::npos) break; p0 = f + 1; } }
      {
        List<String> toks; toks.append(String("junk"));
        usize n = s[j]->split(toks, d.c_str(), skipEmpty);
        if (state[j] == 3) fresh(j);
        if (n != mt.size() || toks.size() != mt.size()) { char dd[160]; snprintf(dd, sizeof dd, "split into List: %zu tokens, model %zu", (size_t)n, mt.size()); ctx.fail("mismatch:split", dd); }
        size_t q = 0; for (List<String>::Iterator it = toks.begin(); it != toks.end(); ++it, ++q) if ((*it).length() != mt[q].size() || memcmp((const char*)*it, mt[q].data(), mt[q].size()) != 0) ctx.fail("mismatch:split-token", "split token differs");
        if (a3 & 2) {  // join them again
          char sep = d[0]; String jn("old"); jn.join(toks, sep);
          std::string mj; for (size_t z = 0; z < mt.size(); ++z) { if (z) mj += sep; mj += mt[z]; }
          if (jn.length() != mj.size() || memcmp((const char*)jn, mj.data(), mj.size()) != 0) ctx.fail("mismatch:join", "join(tokens, separator)");
          S = jn; m[i] = mj; fresh(i);
        }
      }
      {
        HashSet<String> set;
        usize n = s[j]->split(set, d.c_str(), skipEmpty);
        std::vector<std::string> uniq; for (auto& t : mt) if (std::find(uniq.begin(), uniq.end(), t) == uniq.end()) uniq.push_back(t);
        if (n != uniq.size()) ctx.fail("mismatch:split-set", "split into HashSet: size");
        size_t q = 0; for (HashSet<String>::Iterator it = set.begin(); it != set.end(); ++it, ++q) if ((*it).length() != uniq[q].size() || memcmp((const char*)*it, uniq[q].data(), uniq[q].size()) != 0) ctx.fail("mismatch:split-set-token", "split set token differs");
      }
      ctx.label("split");
    }
    else if (nm == "join") {
      List<String> toks; std::string mj; char sep = ",;/ "[a3 % 4];
      int n = (int)(a2 < 0 ? 0 : a2 % 5);
      for (int q = 0; q < n; ++q) { int v = (int)((a3 + q) % NV); toks.append(*s[v]); if (q) mj += sep; mj += m[v]; if (v == i) ctx.label("self_argument"); }
      if (mj.size() > 200000) { ctx.count("skipped_big"); continue; }
      if (shared(i)) ctx.label("mutate_while_shared");
      S.join(toks, sep); m[i] = mj; fresh(i);
      if (mj.empty()) { state[i] = n ? 1 : 0; }
    }
    else if (nm == "printf") {
      if (!nulFree(d)) { ctx.count("skipped_nul"); continue; }
      char big[2048]; int kind = (int)(a3 % 6); int r2 = 0, r = 0;
      int iv = (int)(a2 * 7919 - 100); unsigned uv = (unsigned)(a3 * 2654435761u); long long lv = (long long)a3 * 1000003LL * (a2 - 30);
      if (shared(i)) ctx.label("mutate_while_shared"); if (state[i] == 3) ctx.label("mutate_unterminated_attached");
      switch (kind) {
        case 0: r = S.printf("%d", iv); r2 = snprintf(big, sizeof big, "%d", iv); break;
        case 1: r = S.printf("%u-%s", uv, d.c_str()); r2 = snprintf(big, sizeof big, "%u-%s", uv, d.c_str()); break;
        case 2: r = S.printf("%lld", lv); r2 = snprintf(big, sizeof big, "%lld", lv); break;
        case 3: r = S.printf("%c%c%%", 'a' + (int)(a3 % 26), 'Z'); r2 = snprintf(big, sizeof big, "%c%c%%", 'a' + (int)(a3 % 26), 'Z'); break;
        case 4: r = S.printf("%s|%s", d.c_str(), d.c_str()); r2 = snprintf(big, sizeof big, "%s|%s", d.c_str(), d.c_str()); break;
        default: { String f = String::fromPrintf("[%s] %d", d.c_str(), iv); r2 = snprintf(big, sizeof big, "[%s] %d", d.c_str(), iv); r = (int)f.length(); S = f; }
      }
      if (r != r2) { char dd[128]; snprintf(dd, sizeof dd, "printf returned %d, reference %d", r, r2); ctx.fail("mismatch:printf-result", dd); }
      m[i].assign(big, (size_t)r2); fresh(i);
      if (r2 >= 200) ctx.label("printf_beyond_first_buffer"); else if (r2 >= 196) ctx.label("printf_near_boundary");
    }
    else if (nm == "cstr") { cstrCheck(i, "cstr"); ctx.label("cstr"); }
    else if (nm == "query") {
      const String& A = *s[i]; const String& B = *s[j];
      const std::string& ma = m[i]; const std::string& mb = m[j];
      // byte-exact queries
      if ((A == B) != (ma == mb) || (A != B) == (ma == mb)) ctx.fail("mismatch:eq", "operator==/!=");
      bool sw = ma.size() >= mb.size() && memcmp(ma.data(), mb.data(), mb.size()) == 0;
      bool ew = ma.size() >= mb.size() && memcmp(ma.data() + ma.size() - mb.size(), mb.data(), mb.size()) == 0;
      if (A.startsWith(B) != sw) ctx.fail("mismatch:startsWith", "startsWith");
      if (A.endsWith(B) != ew) ctx.fail("mismatch:endsWith", "endsWith");
      // comparison with literals (the array-reference overloads)
#define LITEQ(L) if ((A == L) != (ma == std::string(L, sizeof L - 1)) || (A != L) == (ma == std::string(L, sizeof L - 1))) ctx.fail("mismatch:eq-literal", "operator==/!= with a literal");
      LITEQ(L0) LITEQ(L1) LITEQ(L2) LITEQ(L3) LITEQ(L4) LITEQ(L5)
#undef LITEQ
      char c = ALPHA[a3 % (sizeof ALPHA - 1)];
      { const char* f = A.find(c); size_t mf = ma.find(c); if ((f != 0) != (mf != std::string::npos)) ctx.fail("mismatch:find-char", "find(char) presence"); }
      if (nulFree(ma) && nulFree(mb)) {
        // C-string based queries (take the C-string views first: they may detach)
        const char* pa = A; const char* pb = B;
        if (state[i] == 3) fresh(i); if (state[j] == 3) fresh(j);
        pa = A; pb = B;
        auto sgn = [](int v) { return v < 0 ? -1 : v > 0 ? 1 : 0; };
        int cmp = 0; { size_t q = 0; for (;; ++q) { unsigned char x = q < ma.size() ? (unsigned char)ma[q] : 0, y = q < mb.size() ? (unsigned char)mb[q] : 0; if (x != y || !x) { cmp = (int)x - (int)y; break; } } }
        if (A.compare(B) != cmp) { char dd[128]; snprintf(dd, sizeof dd, "compare returned %d, reference %d", A.compare(B), cmp); ctx.fail("mismatch:compare", dd); }
        if ((A < B) != (cmp < 0) || (A > B) != (cmp > 0) || (A <= B) != (cmp <= 0) || (A >= B) != (cmp >= 0)) ctx.fail("mismatch:relational", "< > <= >=");
        size_t n = (size_t)(a2 < 0 ? 0 : a2 % 12);
        { int c2 = 0; for (size_t q = 0; q < n; ++q) { unsigned char x = q < ma.size() ? (unsigned char)ma[q] : 0, y = q < mb.size() ? (unsigned char)mb[q] : 0; if (!x || x != y) { c2 = (int)x - (int)y; break; } } if (A.compare(B, (usize)n) != c2) ctx.fail("mismatch:compare-n", "compare(other, n)"); }
        { int c3 = 0; size_t q = 0; for (;; ++q) { unsigned char x = q < ma.size() ? (unsigned char)lc(ma[q]) : 0, y = q < mb.size() ? (unsigned char)lc(mb[q]) : 0; if (x != y || !x) { c3 = (int)x - (int)y; break; } }
          if (sgn(A.compareIgnoreCase(B)) != sgn(c3)) ctx.fail("mismatch:compareIgnoreCase", "compareIgnoreCase");
          if (A.equalsIgnoreCase(B) != (ma.size() == mb.size() && c3 == 0)) ctx.fail("mismatch:equalsIgnoreCase", "equalsIgnoreCase"); }
        { int c4 = 0; for (size_t q = 0; q < n; ++q) { unsigned char x = q < ma.size() ? (unsigned char)lc(ma[q]) : 0, y = q < mb.size() ? (unsigned char)lc(mb[q]) : 0; if (!x || x != y) { c4 = (int)x - (int)y; break; } }
          if (sgn(A.compareIgnoreCase(B, (usize)n)) != sgn(c4)) ctx.fail("mismatch:compareIgnoreCase-n", "compareIgnoreCase(other, n)");
          if (A.equalsIgnoreCase(B, (usize)n) != (c4 == 0)) ctx.fail("mismatch:equalsIgnoreCase-n", "equalsIgnoreCase(other, n)"); }
        auto off = [&](const char* f) -> long { return f ? (long)(f - pa) : -1; };
        auto moff = [](size_t f) -> long { return f == std::string::npos ? -1 : (long)f; };
        size_t st = (size_t)(a2 < 0 ? 0 : a2 % 14);
        if (off(A.find(c)) != moff(ma.find(c))) ctx.fail("mismatch:find-char", "find(char)");
        if (off(A.findLast(c)) != moff(ma.rfind(c))) ctx.fail("mismatch:findLast-char", "findLast(char)");
        if (off(A.find(c, (usize)st)) != (st >= ma.size() ? -1 : moff(ma.find(c, st)))) ctx.fail("mismatch:find-char-start", "find(char,start)");
        if (!mb.empty()) {
          if (off(A.find(pb)) != moff(ma.find(mb))) ctx.fail("mismatch:find-str", "find(str)");
          if (off(A.find(pb, (usize)st)) != (st >= ma.size() ? -1 : moff(ma.find(mb, st)))) ctx.fail("mismatch:find-str-start", "find(str,start)");
          if (off(A.findLast(pb)) != moff(ma.rfind(mb))) ctx.fail("mismatch:findLast-str", "findLast(str)");
          if (off(A.findOneOf(pb)) != moff(ma.find_first_of(mb))) ctx.fail("mismatch:findOneOf", "findOneOf");
          if (off(A.findOneOf(pb, (usize)st)) != (st >= ma.size() ? -1 : moff(ma.find_first_of(mb, st)))) ctx.fail("mismatch:findOneOf-start", "findOneOf(chars,start)");
          if (off(A.findLastOf(pb)) != moff(ma.find_last_of(mb))) ctx.fail("mismatch:findLastOf", "findLastOf");
        }
        ctx.label("cstring_queries");
      } else ctx.count("skipped_nul");
    }
    else if (nm == "poke") {
      // the owner of the attached memory changes a byte inside the window of s[i]: s[i] may follow (it is a view), every other
      // String that is not attached to that byte must keep its value (copies are independent of the memory they were created from)
      if ((state[i] != 2 && state[i] != 3) || win[i].len == 0) { ctx.count("skipped"); }
      else {
        int at = win[i].off + (int)(a3 % win[i].len); int p = win[i].p;
        unsigned char& b = pool[p][GUARD + at]; unsigned char nb = (unsigned char)ALPHA[(a3 / 7) % (sizeof ALPHA - 1)]; if (nb == b) nb = (unsigned char)(b == 'q' ? 'r' : 'q');
        unsigned char old = b; b = nb; pristine[p][GUARD + at] = nb;
        for (int v = 0; v < NV; ++v) if ((state[v] == 2 || state[v] == 3) && win[v].p == p && at >= win[v].off && at < win[v].off + win[v].len) {
          std::string alt = m[v]; if ((size_t)(at - win[v].off) < alt.size() && (unsigned char)alt[(size_t)(at - win[v].off)] == old) alt[(size_t)(at - win[v].off)] = (char)nb;
          String ref(alt.data(), alt.size()); if (*s[v] == ref) m[v] = alt;
        }
        ctx.label("poke_attached_memory");
      }
    }
    else if (nm == "recreate") { delete s[i]; s[i] = new String; m[i].clear(); state[i] = 0; group[i] = 0; }
    else ctx.count("unknown_op");

    checkAll(nm.c_str());
  }
  ctx.opIndex = -2;
  // final: C-string view of every variable
  for (int i = 0; i < NV; ++i) cstrCheck(i, "final");
  checkAll("final");
  for (int i = 0; i < NV; ++i) delete s[i];
}
