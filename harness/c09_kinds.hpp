// Handle kinds shared by the C09 harnesses: String, Variant (string / list payload), RefCount::Ptr, Xml::Variant behind one interface.
#pragma once
#include "pbt.hpp"
#include <nstd/String.hpp>
#include <nstd/Variant.hpp>
#include <nstd/RefCount.hpp>
#include <nstd/Document/Xml.hpp>
using pbt::LedgerPause;
namespace c09 {
const int MAXT = 4, NSLOT = 3, NPAY = 2;
int g_dtor[4096]; int g_objs = 0;
struct Obj : public RefCount::Object { int id; std::string tag; Obj(int id, const std::string& t) : id(id), tag(t) {} ~Obj() { ++g_dtor[id]; } };
typedef RefCount::Ptr<Obj> ObjPtr;
struct DObj : public Obj { int extra; DObj(int id, const std::string& t) : Obj(id, t), extra(id) {} };   // derived pointee: handles of RefCount::Ptr<DObj> convert to RefCount::Ptr<Obj>
typedef RefCount::Ptr<DObj> DObjPtr;

// one handle type per kind, behind a tiny interface
struct Kind {
  virtual ~Kind() {}
  virtual void* make(int payload) = 0;                 // fresh payload (main thread, before the threads start)
  virtual void* copy(void* src) = 0;                   // copy construction
  virtual void destroy(void* h) = 0;
  virtual void assign(void* dst, void* src) = 0;       // operator=
  virtual void modify(void* h, int tid, int n, std::string& model) = 0;  // change through this handle only
  virtual std::string read(void* h) = 0;
  virtual std::string initial(int payload) = 0;
  virtual bool swap(void* a, void* b) { (void)a; (void)b; return false; }   // true if the kind has a swap operation
  virtual void clear(void* h, std::string& model) = 0;                      // drop the value through this handle (clear() / null assignment)
  virtual bool assignFromOwnPayload(void* h, int which, std::string& model) { (void)h; (void)which; (void)model; return false; }   // h = <a value that lives inside h's own payload>; false if the kind has none
  virtual int objectId(void* h) { (void)h; return -1; }                     // RefCount::Ptr: id of the referenced object
};
std::string payloadText(int p) { return p == 0 ? "payload-zero-0123456789" : p == 2 ? std::string(300, 'L') + "ong-payload" : "second"; }   // 2: a payload with a capacity of some hundred bytes
struct KString : Kind {
  void* make(int p) override { std::string t = payloadText(p); return new String(t.data(), t.size()); }
  void* copy(void* s) override { return new String(*(String*)s); }
  void destroy(void* h) override { delete (String*)h; }
  void assign(void* d, void* s) override { *(String*)d = *(String*)s; }
  void modify(void* h, int tid, int n, std::string& m) override {
    char c = (char)('A' + tid); String& s = *(String*)h;
    if (((n % 16) + 16) % 16 == 15) { char to = (char)('P' + tid); s.replace('a', to); for (auto& ch : m) if (ch == 'a') ch = to; return; }   // replace(char, char): writes only into a payload of its own
    switch (((n % 7) + 7) % 7) {
      case 6: { std::string add = std::string("+") + c + "src"; String src(add.data(), add.size()); s.append(src); m += add; break; }   // append of another (counted) String: an empty target may take over the source's payload
      case 5: { static const char FOREIGN[] = "attached-foreign-text"; s.attach(FOREIGN, sizeof FOREIGN - 1); m = FOREIGN; break; }   // the handle is pointed at memory it does not own: its share of the old payload has to be given up
      case 1: s.append(c); m += c; break;
      case 2: { s.printf("%c%d", c, n); char b[32]; snprintf(b, sizeof b, "%c%d", c, n); m = b; break; }   // formatting replaces the value
      case 3: s.toUpperCase(); for (auto& ch : m) if (ch >= 'a' && ch <= 'z') ch = (char)(ch - 32); s.append(c); m += c; break;
      case 4: s.reserve(400); s.append(c); m += c; break;
      default: { usize l = s.length(); s.resize(l + 1); ((char*)s)[l] = c; m += c; }
    }
  }
  std::string read(void* h) override { const String& s = *(String*)h; return std::string((const char*)s, s.length()); }
  void clear(void* h, std::string& m) override { ((String*)h)->clear(); m.clear(); }
  std::string initial(int p) override { return payloadText(p); }
};
struct KVarString : Kind {
  void* make(int p) override { std::string t = payloadText(p); return new Variant(String(t.data(), t.size())); }
  void* copy(void* s) override { return new Variant(*(Variant*)s); }
  void destroy(void* h) override { delete (Variant*)h; }
  void assign(void* d, void* s) override { *(Variant*)d = *(Variant*)s; }
  void modify(void* h, int tid, int n, std::string& m) override {
    // one modification in six changes the type through another mutable accessor (the string payload has to be given up), the next
    // toString() changes it back to an (empty) string
    if (((n % 14) + 14) % 14 >= 8) {
      // a scalar of each kind is assigned over the string payload (the share has to be given up), then a new string
      Variant& v = *(Variant*)h; char c = (char)('a' + tid);
      switch (((n % 14) + 14) % 14) { case 8: v = true; break; case 9: v = 2.5; break; case 10: v = (int)n; break; case 11: v = (uint)n; break; case 12: v = (int64)((long long)n * 4294967296LL); break; default: v = (uint64)(unsigned long long)n; break; }
      m += c; v = String(m.data(), m.size()); return;
    }
    switch (((n % 6) + 6) % 6) { case 3: ((Variant*)h)->toList(); m.clear(); return; case 4: ((Variant*)h)->toMap(); m.clear(); return; case 5: ((Variant*)h)->toArray(); m.clear(); return; default: break; }
    char c = (char)('a' + tid); ((Variant*)h)->toString().append(c); m += c;
  }
  std::string read(void* h) override { String s = ((const Variant*)h)->toString(); return std::string((const char*)s, s.length()); }
  void clear(void* h, std::string& m) override { ((Variant*)h)->clear(); m.clear(); }
  std::string initial(int p) override { return payloadText(p); }
  bool swap(void* a, void* b) override { ((Variant*)a)->swap(*(Variant*)b); return true; }
};
struct KVarList : Kind {
  static std::string show(const Variant& v) { std::string r = "["; const List<Variant>& l = v.toList(); for (List<Variant>::Iterator i = l.begin(); i != l.end(); ++i) { r += std::to_string((*i).toInt()); r += ","; } return r + "]"; }
  void* make(int p) override { List<Variant> l; l.append(Variant(p)); l.append(Variant(7)); return new Variant(l); }
  void* copy(void* s) override { return new Variant(*(Variant*)s); }
  void destroy(void* h) override { delete (Variant*)h; }
  void assign(void* d, void* s) override { *(Variant*)d = *(Variant*)s; }
  void modify(void* h, int tid, int, std::string& m) override { ((Variant*)h)->toList().append(Variant(100 + tid)); m.insert(m.size() - 1, std::to_string(100 + tid) + ","); }
  std::string read(void* h) override { return show(*(const Variant*)h); }
  void clear(void* h, std::string& m) override { ((Variant*)h)->clear(); m = "[]"; }
  std::string initial(int p) override { return "[" + std::to_string(p) + ",7,]"; }
  bool swap(void* a, void* b) override { ((Variant*)a)->swap(*(Variant*)b); return true; }
};
struct KVarMap : Kind {
  static std::string show(const Variant& v) { std::string r = "{"; const HashMap<String, Variant>& mp = v.toMap(); for (HashMap<String, Variant>::Iterator i = mp.begin(); i != mp.end(); ++i) { r += std::string((const char*)i.key(), i.key().length()); r += "="; r += std::to_string((*i).toInt()); r += ","; } return r + "}"; }
  void* make(int p) override { HashMap<String, Variant> mp; mp.append(String("p"), Variant(p)); mp.append(String("q"), Variant(7)); return new Variant(mp); }
  void* copy(void* s) override { return new Variant(*(Variant*)s); }
  void destroy(void* h) override { delete (Variant*)h; }
  void assign(void* d, void* s) override { *(Variant*)d = *(Variant*)s; }
  void modify(void* h, int tid, int n, std::string& m) override { std::string key = "t" + std::to_string(tid) + "_" + std::to_string(n); ((Variant*)h)->toMap().append(String(key.data(), key.size()), Variant(100 + tid)); if (m.find("," + key + "=") == std::string::npos && m.find("{" + key + "=") == std::string::npos) m.insert(m.size() - 1, key + "=" + std::to_string(100 + tid) + ","); }   // (an existing key keeps its place, the value is the same)
  std::string read(void* h) override { return show(*(const Variant*)h); }
  void clear(void* h, std::string& m) override { ((Variant*)h)->clear(); m = "{}"; }
  std::string initial(int p) override { return "{p=" + std::to_string(p) + ",q=7,}"; }
  bool swap(void* a, void* b) override { ((Variant*)a)->swap(*(Variant*)b); return true; }
};
struct KVarArray : Kind {
  static std::string show(const Variant& v) { std::string r = "<"; const Array<Variant>& l = v.toArray(); for (usize i = 0; i < l.size(); ++i) { r += std::to_string(l[i].toInt()); r += ","; } return r + ">"; }
  void* make(int p) override { Array<Variant> l; l.append(Variant(p)); l.append(Variant(7)); return new Variant(l); }
  void* copy(void* s) override { return new Variant(*(Variant*)s); }
  void destroy(void* h) override { delete (Variant*)h; }
  void assign(void* d, void* s) override { *(Variant*)d = *(Variant*)s; }
  void modify(void* h, int tid, int, std::string& m) override { ((Variant*)h)->toArray().append(Variant(100 + tid)); m.insert(m.size() - 1, std::to_string(100 + tid) + ","); }
  std::string read(void* h) override { return show(*(const Variant*)h); }
  void clear(void* h, std::string& m) override { ((Variant*)h)->clear(); m = "<>"; }
  std::string initial(int p) override { return "<" + std::to_string(p) + ",7,>"; }
  bool swap(void* a, void* b) override { ((Variant*)a)->swap(*(Variant*)b); return true; }
};
struct KPtr : Kind {
  void* make(int p) override { int id = g_objs++; return new ObjPtr(new Obj(id, payloadText(p))); }
  void* copy(void* s) override { return new ObjPtr(*(ObjPtr*)s); }
  void destroy(void* h) override { delete (ObjPtr*)h; }
  void assign(void* d, void* s) override { *(ObjPtr*)d = *(ObjPtr*)s; }
  void modify(void* h, int tid, int n, std::string& m) override { int id; { LedgerPause lp; id = g_objs++; } m = "own" + std::to_string(tid) + "." + std::to_string(n); *(ObjPtr*)h = new Obj(id, m); }
  std::string read(void* h) override { ObjPtr& p = *(ObjPtr*)h; return p ? p->tag : std::string("(null)"); }
  void clear(void* h, std::string& m) override { *(ObjPtr*)h = (Obj*)0; m = "(null)"; }
  std::string initial(int p) override { return payloadText(p); }
  bool swap(void* a, void* b) override { ((ObjPtr*)a)->swap(*(ObjPtr*)b); return true; }
  int objectId(void* h) override { ObjPtr& p = *(ObjPtr*)h; return p ? p->id : -1; }
};
// RefCount::Ptr<Obj> handles to objects of a derived class; every copy and assignment goes through a transient handle of the derived
// type, i.e. through the converting constructor / converting assignment of Ptr
struct KPtrConv : KPtr {
  void* make(int p) override { int id = g_objs++; DObjPtr d(new DObj(id, payloadText(p))); return new ObjPtr(d); }
  void* copy(void* s) override { DObjPtr d(static_cast<DObj*>(((ObjPtr*)s)->operator->())); return new ObjPtr(d); }
  void assign(void* dst, void* s) override { DObjPtr d(static_cast<DObj*>(((ObjPtr*)s)->operator->())); *(ObjPtr*)dst = d; }
  void modify(void* h, int tid, int n, std::string& m) override { int id; { LedgerPause lp; id = g_objs++; } m = "own" + std::to_string(tid) + "." + std::to_string(n); DObjPtr d(new DObj(id, m)); *(ObjPtr*)h = d; }
};
struct KXml : Kind {
  static std::string show(const Xml::Variant& v) { if (v.isText()) { String s = v.toString(); return "T:" + std::string((const char*)s, s.length()); } if (v.isElement()) { const Xml::Element& e = v.toElement(); return "E:" + std::string((const char*)e.type, e.type.length()) + "/" + std::to_string(e.attributes.size()); } return "null"; }
  void* make(int p) override { if (p == 0) { Xml::Element e; e.line = e.column = 0; e.type = String("elem"); e.attributes.append(String("k"), String("v")); e.content.append(Xml::Variant(String("child"))); return new Xml::Variant(e); } return new Xml::Variant(String("text")); }
  void* copy(void* s) override { return new Xml::Variant(*(Xml::Variant*)s); }
  void destroy(void* h) override { delete (Xml::Variant*)h; }
  void assign(void* d, void* s) override { *(Xml::Variant*)d = *(Xml::Variant*)s; }
  void modify(void* h, int tid, int n, std::string& m) override {
    Xml::Variant& v = *(Xml::Variant*)h;
    if (n & 1) { std::string t = "t" + std::to_string(tid); v = String(t.data(), t.size()); m = "T:" + t; }
    else { bool wasElem = v.isElement(); usize na = wasElem ? ((const Xml::Variant&)v).toElement().attributes.size() : 0; Xml::Element& e = v.toElement(); std::string t = "m" + std::to_string(tid); e.type = String(t.data(), t.size()); m = "E:" + t + "/" + std::to_string(na); }
  }
  std::string read(void* h) override { return show(*(const Xml::Variant*)h); }
  void clear(void* h, std::string& m) override { ((Xml::Variant*)h)->clear(); m = "null"; }
  std::string initial(int p) override { return p == 0 ? "E:elem/1" : "T:text"; }
  bool assignFromOwnPayload(void* h, int which, std::string& m) override {
    Xml::Variant& v = *(Xml::Variant*)h; if (!v.isElement()) return false;
    const Xml::Element& e = ((const Xml::Variant&)v).toElement();
    if (which & 1) { if (e.content.isEmpty()) return false; const Xml::Variant& child = e.content.front(); m = show(child); v = child; }   // the element's own child
    else { m = "T:" + std::string((const char*)e.type, e.type.length()); v = e.type; }                                                   // the element's own name
    return true;
  }
};

Kind* kindOf(int k) { static KString a; static KVarString b; static KVarList c; static KPtr d; static KXml e; static KPtrConv f; static KVarMap g; static KVarArray hh; switch (k) { case 0: return &a; case 1: return &b; case 2: return &c; case 3: return &d; case 5: return &f; case 6: return &g; case 7: return &hh; default: return &e; } }
const int NKIND = 8;
inline bool isPtrKind(int k) { return k == 3 || k == 5; }

}  // namespace c09
