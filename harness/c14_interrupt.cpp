// C14 (threads part, vsched): interrupt() from another thread - before, during and between runs - makes the current or next
// run() return, and the return does not depend on a time-out.
#define PBT_MAIN
#include "pbt.hpp"
#include "vs_common.hpp"
#include <nstd/Socket/Server.hpp>
#include <nstd/Thread.hpp>
#include <pthread.h>

const char* pbt_property = "C14";
const char* pbt_part = "interrupt";
void pbt_warmup() {}

using namespace pbt;

namespace {
struct TickCb : public Server::Timer::ICallback { long n = 0; void onActivated() override { ++n; } };
struct Shared { Server* server; int runs; volatile int returned; int preDelay[4]; long long interruptAt[4]; long long returnAt[4]; } G;
[[noreturn]] void failC(const char* kind, const std::string& d) { vs::childFail(kind, d.c_str()); }

void* runner(void*) {
  for (int i = 0; i < G.runs; ++i) {
    for (int k = 0; k < G.preDelay[i]; ++k) vsched::point("before run");
    G.server->run();
    G.returnAt[i] = vsched::nowNs();
    G.returned = i + 1;
  }
  return nullptr;
}
}  // namespace

void pbt_generate(Rng& r, int, Case& c) {
  c.params["runs"] = 1 + (long)r.below(3);
  c.params["timer"] = (long)r.below(3);        // 0 none, 1 a 50 ms timer, 2 a 7 ms timer
  c.params["strategy"] = (long)r.below(4); c.params["sched"] = (long)r.below(1000000); c.params["nsched"] = 10;
  for (int i = 0; i < 3; ++i) c.add("plan", (long)r.below(12), (long)r.below(12), (long)r.below(3), (long)r.below(40));
}

bool pbt_nontrivial(const Ctx& ctx) { return ctx.has("interrupt_while_polling") || ctx.has("interrupt_before_run_started"); }

void pbt_run(const Case& cs, Ctx& ctx) {
  int runs = (int)std::max(1L, std::min(3L, cs.param("runs", 1)));
  long nsched = ctx.replay ? 60 : std::max(1L, std::min(64L, cs.param("nsched", 10)));
  long timerKind = cs.param("timer", 0);
  std::vector<const Op*> plan; for (const Op& op : cs.ops) if (op.name == "plan") plan.push_back(&op);
  for (long s = 0; s < nsched; ++s) {
    vsched::Config cfg; cfg.seed = (uint64_t)cs.param("sched", 1) * 1000003ull + (uint64_t)s; cfg.strategy = (int)((cs.param("strategy", 0) + s) % 4); cfg.stepBound = 200000; cfg.earlyTimeoutPercent = 0;
    auto body = [&]() {
      Server server; TickCb tick;
      if (timerKind) server.time(timerKind == 1 ? 50 : 7, tick);
      G.server = &server; G.runs = runs; G.returned = 0;
      for (int i = 0; i < 4; ++i) { G.preDelay[i] = i < (int)plan.size() ? (int)(plan[(size_t)i]->a[0] % 12) : 0; G.interruptAt[i] = G.returnAt[i] = -1; }
      pthread_t th; pthread_create(&th, nullptr, runner, nullptr);
      for (int i = 0; i < runs; ++i) {
        const Op* p = i < (int)plan.size() ? plan[(size_t)i] : nullptr;
        int delay = p ? (int)(p->a[1] % 12) : 0; int dup = p ? (int)(p->a[2] % 3) : 0; long sleepMs = p ? p->a[3] % 40 : 0;
        for (int k = 0; k < delay; ++k) vsched::point("before interrupt");
        if (sleepMs > 20) Thread::sleep(sleepMs);
        G.interruptAt[i] = vsched::nowNs();
        bool beforeRun = G.returned == i && G.preDelay[i] > delay; (void)beforeRun;
        server.interrupt();
        for (int d = 0; d < dup; ++d) { vsched::point("between interrupts"); server.interrupt(); }   // repeated interrupts before the return count once
        // wait (in virtual time) until the runner reports the return of run #i
        long spins = 0;
        while (G.returned < i + 1) { Thread::sleep(1000); if (++spins > 2000) failC("interrupt:run-did-not-return", "run() did not return within 2000 s of virtual time after interrupt()"); }
        long long lat = (G.returnAt[i] - G.interruptAt[i]) / 1000000;
        if (lat >= 290000) { char d[160]; snprintf(d, sizeof d, "run() #%d returned %lld ms after interrupt(): the return depended on the loop's default time-out", i, lat); failC("interrupt:return-by-timeout", d); }
      }
      pthread_join(th, nullptr);
    };
    vs::Result r = vs::runForked(cfg, body, nullptr, 15000);
    ctx.count("schedules"); ctx.count("decisions", (uint64_t)r.decisions); ctx.count("context_switches", (uint64_t)r.switches);
    if (r.switches >= 4) ctx.label("interrupt_while_polling"); if (r.interleaved > 0) ctx.label("interleaved_flag_access");
    if (r.status == 1) { char d[900]; snprintf(d, sizeof d, "schedule %ld (seed %llu, strategy %d): %s", s, (unsigned long long)cfg.seed, cfg.strategy, r.detail.c_str()); ctx.fail(r.kind, d); }
    if (r.status == 2) ctx.count(std::string("inconclusive:" + r.kind).c_str());
  }
  if (plan.size() && plan[0]->a[0] % 12 > plan[0]->a[1] % 12) ctx.label("interrupt_before_run_started");
}
