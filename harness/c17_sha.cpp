// C17: enumerates SHA-256 / HMAC-SHA-256 computations through libnstd and prints one record per computation;
// oracle/c17.py recomputes every record with Python's hashlib / hmac (differential oracle).
//   c17_sha gen <seed> <quick|thorough>      records on stdout
//   c17_sha one <record without digest>      recompute one record (replay)
// record:  H <msghex> <chunk,chunk,...> <digest>      message split into chunks for update()
//          R <m1hex> <m2hex> <mode> <digest>           reuse: mode 0 finalize(m1) then hash m2; 1 update(m1) reset() then m2; 2 like 0 twice
//          M <keyhex> <msghex> <mac>
//          L <n> <piece> - <digest>                    message of n bytes (byte i = i & 0xFF) fed in pieces
#include <nstd/Crypto/Sha256.hpp>
#include <cstdio>
#include <cstdlib>
#include <cstring>
#include <string>
#include <vector>
#include <cstdint>

static uint64_t rs = 1;
static uint64_t rnd() { rs += 0x9E3779B97F4A7C15ull; uint64_t z = rs; z = (z ^ (z >> 30)) * 0xBF58476D1CE4E5B9ull; z = (z ^ (z >> 27)) * 0x94D049BB133111EBull; return z ^ (z >> 31); }
static std::string hex(const unsigned char* d, size_t n) { static const char* H = "0123456789abcdef"; std::string r; r.reserve(n * 2 + 1); for (size_t i = 0; i < n; ++i) { r += H[d[i] >> 4]; r += H[d[i] & 15]; } if (!n) r = "-"; return r; }
static std::vector<unsigned char> unhex(const std::string& h) { std::vector<unsigned char> r; if (h == "-") return r; for (size_t i = 0; i + 1 < h.size(); i += 2) r.push_back((unsigned char)strtol(h.substr(i, 2).c_str(), 0, 16)); return r; }
static std::vector<unsigned char> content(size_t n, int kind) {
  std::vector<unsigned char> m(n);
  for (size_t i = 0; i < n; ++i) m[i] = kind == 0 ? (unsigned char)rnd() : kind == 1 ? 0 : kind == 2 ? 0xFF : (unsigned char)(0x80 | (rnd() & 1));
  return m;
}
// exact-size heap copy so that ASan sees over-reads
static unsigned char* exact(const unsigned char* p, size_t n) { unsigned char* q = (unsigned char*)malloc(n ? n : 1); if (n) memcpy(q, p, n); return q; }

static std::string recH(const std::vector<unsigned char>& m, const std::vector<size_t>& chunks) {
  Sha256 h; size_t off = 0; std::string cs;
  for (size_t c : chunks) { unsigned char* e = exact(m.data() + off, c); h.update(e, c); free(e); off += c; cs += (cs.empty() ? "" : ",") + std::to_string(c); }
  byte d[Sha256::digestSize]; h.finalize(d);
  return "H " + hex(m.data(), m.size()) + " " + (cs.empty() ? "-" : cs) + " " + hex(d, 32);
}
static std::string recR(const std::vector<unsigned char>& m1, const std::vector<unsigned char>& m2, int mode) {
  Sha256 h; byte d[Sha256::digestSize];
  if (mode == 1) { h.update(m1.data(), m1.size()); h.reset(); }
  else { h.update(m1.data(), m1.size()); h.finalize(d); if (mode == 2) { h.update(m2.data(), m2.size()); h.finalize(d); } }
  h.update(m2.data(), m2.size() / 2); h.update(m2.data() + m2.size() / 2, m2.size() - m2.size() / 2); h.finalize(d);
  return "R " + hex(m1.data(), m1.size()) + " " + hex(m2.data(), m2.size()) + " " + std::to_string(mode) + " " + hex(d, 32);
}
static std::string recM(const std::vector<unsigned char>& k, const std::vector<unsigned char>& m) {
  byte d[Sha256::digestSize]; unsigned char* ke = exact(k.data(), k.size()); unsigned char* me = exact(m.data(), m.size());
  Sha256::hmac(ke, k.size(), me, m.size(), d); free(ke); free(me);
  return "M " + hex(k.data(), k.size()) + " " + hex(m.data(), m.size()) + " " + hex(d, 32);
}
// very long message: byte i is (i & 0xFF), fed in pieces of 'piece' bytes (a multiple of 256); "L <n> <piece> - <digest>"
static std::string recL(unsigned long long n, size_t piece) {
  std::vector<unsigned char> blk(piece); for (size_t i = 0; i < piece; ++i) blk[i] = (unsigned char)(i & 0xFF);
  Sha256 h; unsigned long long left = n;
  while (left) { size_t c = left < piece ? (size_t)left : piece; h.update(blk.data(), c); left -= c; }
  byte d[Sha256::digestSize]; h.finalize(d);
  return "L " + std::to_string(n) + " " + std::to_string(piece) + " - " + hex(d, 32);
}
static std::vector<size_t> splitAt(size_t n, std::vector<size_t> cuts) { std::vector<size_t> c; size_t prev = 0; for (size_t x : cuts) { c.push_back(x - prev); prev = x; } c.push_back(n - prev); return c; }

int main(int argc, char** argv) {
  if (argc >= 3 && !strcmp(argv[1], "one")) {
    std::string k = argv[2];
    if (k == "H" && argc >= 5) { std::vector<unsigned char> m = unhex(argv[3]); std::vector<size_t> ch; std::string cs = argv[4]; if (cs != "-") { size_t i = 0; while (i <= cs.size()) { size_t j = cs.find(',', i); if (j == std::string::npos) j = cs.size(); ch.push_back((size_t)atol(cs.substr(i, j - i).c_str())); i = j + 1; } } size_t tot = 0; for (size_t c : ch) tot += c; if (tot != m.size()) { ch.clear(); ch.push_back(m.size()); } puts(recH(m, ch).c_str()); }
    else if (k == "R" && argc >= 6) puts(recR(unhex(argv[3]), unhex(argv[4]), atoi(argv[5])).c_str());
    else if (k == "M" && argc >= 5) puts(recM(unhex(argv[3]), unhex(argv[4])).c_str());
    else if (k == "L" && argc >= 5) puts(recL(strtoull(argv[3], 0, 10), (size_t)strtoull(argv[4], 0, 10)).c_str());
    else return 2;
    return 0;
  }
  if (argc < 4 || strcmp(argv[1], "gen")) { fprintf(stderr, "usage\n"); return 2; }
  rs = strtoull(argv[2], 0, 10) * 0x9E3779B97F4A7C15ull + 12345;
  bool thorough = !strcmp(argv[3], "thorough");
  // every length 0..300 (quick 0..160), four kinds of content, one update
  size_t maxLen = thorough ? 300 : 160;
  for (size_t n = 0; n <= maxLen; ++n) for (int kind = 0; kind < 4; ++kind) { std::vector<unsigned char> m = content(n, kind); puts(recH(m, std::vector<size_t>{n}).c_str()); }
  // every two-way chunking of every length <= 130 (exhaustive sub-space)
  for (size_t n = 0; n <= 130; ++n) { std::vector<unsigned char> m = content(n, 0); for (size_t c = 0; c <= n; ++c) puts(recH(m, splitAt(n, {c})).c_str()); }
  // sampled two- and three-way chunkings up to 300 (empty chunks included), boundaries favoured
  static const size_t B[] = {0, 1, 55, 56, 57, 63, 64, 65, 119, 120, 121, 127, 128, 129, 191, 192, 193, 255, 256, 257};
  long samples = thorough ? 60000 : 6000;
  for (long s = 0; s < samples; ++s) {
    size_t n = (rnd() % 3 == 0) ? B[rnd() % 20] + (size_t)(rnd() % 3) : (size_t)(rnd() % 301);
    if (n > 300) n = 300;
    std::vector<unsigned char> m = content(n, (int)(rnd() % 4));
    size_t a = n ? (rnd() % 2 ? B[rnd() % 20] % (n + 1) : (size_t)(rnd() % (n + 1))) : 0, b = n ? (size_t)(rnd() % (n + 1)) : 0; if (a > b) std::swap(a, b);
    std::vector<size_t> ch = (rnd() % 2) ? splitAt(n, {a, b}) : splitAt(n, {a});
    if (rnd() % 5 == 0) ch.insert(ch.begin() + (long)(rnd() % (ch.size() + 1)), 0);
    puts(recH(m, ch).c_str());
  }
  // sampled long messages
  for (int s = 0; s < (thorough ? 150 : 15); ++s) { size_t n = 300 + (size_t)(rnd() % 70000); std::vector<unsigned char> m = content(n, 0); size_t a = (size_t)(rnd() % (n + 1)); puts(recH(m, splitAt(n, {a})).c_str()); }
  // messages whose bit length needs more than 32 bits (2^29 bytes and beyond); thorough also a byte count beyond 32 bits
  puts(recL((1ull << 29) + 5, 1 << 20).c_str());
  if (thorough) { puts(recL((1ull << 29) - 1, 1 << 20).c_str()); puts(recL(1ull << 29, 768).c_str()); puts(recL((1ull << 32) + 3, 1 << 20).c_str()); }
  fflush(stdout);
  // hasher reuse after finalize / reset
  for (long s = 0; s < (thorough ? 6000 : 800); ++s) { size_t n1 = (rnd() % 2) ? B[rnd() % 20] : (size_t)(rnd() % 200), n2 = (rnd() % 2) ? B[rnd() % 20] : (size_t)(rnd() % 200); puts(recR(content(n1, 0), content(n2, (int)(rnd() % 4)), (int)(rnd() % 3)).c_str()); }
  // hmac: every key length 0..200 x boundary message lengths, plus random pairs
  static const size_t ML[] = {0, 1, 55, 56, 63, 64, 65, 127, 128, 200};
  for (size_t kl = 0; kl <= 200; ++kl) for (size_t q = 0; q < 10; ++q) if (thorough || q % 2 == (kl & 1) || kl >= 60 && kl <= 70) puts(recM(content(kl, (int)(rnd() % 4)), content(ML[q], 0)).c_str());
  for (long s = 0; s < (thorough ? 20000 : 2000); ++s) puts(recM(content((size_t)(rnd() % 201), (int)(rnd() % 4)), content((size_t)(rnd() % 301), 0)).c_str());
  return 0;
}
