// C16 libFuzzer target: Xml::parse on arbitrary NUL-free bytes in exactly sized heap blocks.
// Oracle: ASan/UBSan, allocation bound (run-away loops), error position / element positions inside the text,
// and print/parse round trip of whatever element parses when it is in the domain of the statement.
#define FUZZ_MAIN
#include "fuzz.hpp"
#include "xml_common.hpp"

static bool inDomain(const Xml::Element& e, int depth, bool& special, int& maxDepth) {
  if (depth > maxDepth) maxDepth = depth;
  std::string n = xmlref::str(e.type);
  if (n.empty() || !(isalpha((unsigned char)n[0]) || n[0] == '_')) return false;
  for (char c : n) if (!(isalnum((unsigned char)c) || c == '_' || c == '.' || c == '-')) return false;
  for (HashMap<String, String>::Iterator i = e.attributes.begin(); i != e.attributes.end(); ++i) {
    std::string k = xmlref::str(i.key()); if (k.empty() || !(isalpha((unsigned char)k[0]) || k[0] == '_')) return false;
    for (char c : k) if (!(isalnum((unsigned char)c) || c == '_' || c == '.' || c == '-')) return false;
    std::string v = xmlref::str(*i); if (v.find('\0') != std::string::npos) return false;
    if (v.find_first_of("\"&'<\n\r") != std::string::npos) special = true;
  }
  bool prevText = false;
  for (List<Xml::Variant>::Iterator i = e.content.begin(); i != e.content.end(); ++i) {
    if ((*i).isText()) { std::string t = xmlref::str((*i).toString()); if (prevText || xmlref::blank(t) || t.find('\0') != std::string::npos) return false; prevText = true; }
    else if ((*i).isElement()) { prevText = false; if (!inDomain((*i).toElement(), depth + 1, special, maxDepth)) return false; }
    else return false;
  }
  return true;
}
static void toNode(const Xml::Element& e, xmlref::Node& n) {
  n.name = xmlref::str(e.type);
  for (HashMap<String, String>::Iterator i = e.attributes.begin(); i != e.attributes.end(); ++i) n.attrs.emplace_back(xmlref::str(i.key()), xmlref::str(*i));
  for (List<Xml::Variant>::Iterator i = e.content.begin(); i != e.content.end(); ++i) { xmlref::Node c; if ((*i).isText()) { c.isText = true; c.text = xmlref::str((*i).toString()); } else toNode((*i).toElement(), c); n.kids.push_back(c); }
}

extern "C" int LLVMFuzzerTestOneInput(const uint8_t* data, size_t size) {
  if (memchr(data, 0, size)) return 0;
  size_t opens = 0; for (size_t i = 0; i < size; ++i) if (data[i] == '<') ++opens;
  if (opens > 1000) return 0;
  char* text = (char*)malloc(size + 1); memcpy(text, data, size); text[size] = 0;
  std::string stext((const char*)data, size);
  fuzz::g_allocLimit = 64 * (uint64_t)size + 1000;
  fuzz::begin(0);
  {
    Xml::Element e0; bool ok0 = Xml::parse((const char*)text, e0);   // exact size block
    static Xml::Parser* reused = new Xml::Parser;   // a parser object is reused for many documents
    Xml::Parser fresh; Xml::Parser& p = (fuzz::st().execs % 4) ? *reused : fresh;
    String s(text, size); Xml::Element e; bool ok = p.parse(s, e);
    if (ok != ok0) fuzz::fail("Xml::parse(const char*) and Xml::Parser::parse(const String&) disagree on success");
    if (!ok) {
      std::string r = jsonref::checkErrorPos(stext, p.getErrorLine(), p.getErrorColumn());
      if (!r.empty()) fuzz::fail("parse failed with %s", r.c_str());
      fuzz::label("rejected");
    } else {
      fuzz::label("parsed");
      std::string r = xmlref::checkPositions(e, stext);
      if (!r.empty()) fuzz::fail("%s", r.c_str());
      bool special = false; int maxDepth = 0;
      if (inDomain(e, 0, special, maxDepth)) {
        fuzz::g_allocLimit = ~0ull;
        xmlref::Node n; toNode(e, n);
        String t = Xml::toString(e); Xml::Element back;
        if (!Xml::parse(t, back)) fuzz::fail("output of Xml::toString does not parse: %s", (const char*)t);
        std::string c = xmlref::cmp(back, n, "/"); if (!c.empty()) fuzz::fail("parse(toString(e)) differs from e: %s", c.c_str());
        if (special && maxDepth >= 1) { fuzz::label("nontrivial_roundtrip"); fuzz::nontrivial(data, size); } else fuzz::label("roundtrip");
      } else fuzz::label("parsed_outside_roundtrip_domain");
    }
  }
  fuzz::end();
  free(text);
  return 0;
}
