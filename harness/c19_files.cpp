// C19 / part "files": file operation histories against an in-memory model of a scratch directory.
// Model: flat name space (name -> inode), inodes are regular files (bytes) or empty directories; three File
// handles refer to inodes (so unlink/rename of an open file behaves as on POSIX).  After EVERY operation the real
// scratch directory (listing, types, contents; read with plain POSIX calls) is compared with the model, so a failed
// operation that leaves a new file behind or truncates an existing one is seen at once.
#define PBT_MAIN
#include "pbt.hpp"
#include <nstd/File.hpp>
#include <string>
#include <sys/resource.h>
#include <signal.h>
#include <vector>
#include <map>
#include <memory>
#include <climits>
#include <cerrno>
#include <dirent.h>
#include <sys/stat.h>
#include <sys/types.h>

const char* pbt_property = "C19";
const char* pbt_part = "files";

using namespace pbt;

namespace {
const char* const FLAT[] = {"f0", "f1", "f2", "f3", "m0", "m1", "d0", "d1"};
const int NFLAT = 8;
const int NNAMES = 10;  // 8 = "nodir/x" (parent missing), 9 = "<regular file>/x" (parent is a file)
const int NH = 3;

struct Node { bool dir = false; std::string bytes; };
typedef std::shared_ptr<Node> NodeP;

struct Handle { File* f = nullptr; NodeP node; long long pos = 0; bool rd = false, wr = false; };

// ---- plain POSIX helpers (never the library under test)
void rm_rf(const std::string& p) {
  struct stat st;
  if (lstat(p.c_str(), &st) != 0) return;
  if (S_ISDIR(st.st_mode)) {
    DIR* d = opendir(p.c_str());
    if (d) {
      std::vector<std::string> names;
      while (struct dirent* e = readdir(d)) { if (!strcmp(e->d_name, ".") || !strcmp(e->d_name, "..")) continue; names.push_back(e->d_name); }
      closedir(d);
      for (auto& n : names) rm_rf(p + "/" + n);
    }
    rmdir(p.c_str());
  } else unlink(p.c_str());
}
bool readFile(const std::string& p, std::string& out) {
  out.clear();
  int fd = open(p.c_str(), O_RDONLY | O_CLOEXEC);
  if (fd < 0) return false;
  char b[4096]; ssize_t n;
  while ((n = read(fd, b, sizeof b)) > 0) out.append(b, (size_t)n);
  close(fd);
  return n == 0;
}
bool writeFile(const std::string& p, const std::string& d) {
  int fd = open(p.c_str(), O_WRONLY | O_CREAT | O_EXCL | O_CLOEXEC, 0644);
  if (fd < 0) return false;
  size_t off = 0; while (off < d.size()) { ssize_t n = write(fd, d.data() + off, d.size() - off); if (n <= 0) break; off += (size_t)n; }
  close(fd);
  return off == d.size();
}
int countFds() {
  DIR* d = opendir("/proc/self/fd"); if (!d) return -1;
  int n = 0; while (struct dirent* e = readdir(d)) if (e->d_name[0] != '.') ++n;
  closedir(d); return n;
}
std::string hexs(const std::string& s, size_t maxn = 24) {
  std::string r; char b[4];
  for (size_t i = 0; i < s.size() && i < maxn; ++i) { unsigned char c = (unsigned char)s[i]; if (c >= 0x20 && c < 0x7f && c != '\\') r += (char)c; else { snprintf(b, sizeof b, "\\%02x", c); r += b; } }
  if (s.size() > maxn) r += "...";
  return r;
}
std::string rbytes(Rng& r, int maxlen) {
  int n = (int)r.below((uint64_t)maxlen + 1); std::string s;
  for (int i = 0; i < n; ++i) s += (char)(r.chance(10) ? r.below(256) : 'a' + r.below(26));
  return s;
}
long umod(long v, long m) { return ((v % m) + m) % m; }
String L(const std::string& s) { return String(s.data(), s.size()); }
}  // namespace

void pbt_warmup() { String w("x"); String w2(w); w2.append(w); }

void pbt_generate(Rng& r, int size, Case& c) {
  for (int i = 0; i < 4; ++i) if (r.chance(70)) c.add("mkfile", i, 0, 0, 0, rbytes(r, r.chance(20) ? 0 : 40));
  if (r.chance(85)) c.add("mkdir", 6);
  if (r.chance(20)) c.add("mkdir", 7);
  static const char* names[] = {"open", "close", "write", "writes", "read", "readall", "seek", "size", "tell", "copy", "rename", "unlink", "exists", "sreadall", "mkfile", "mkdir", "copyalias"};
  static const int w[] = {16, 5, 12, 4, 8, 5, 8, 3, 3, 9, 9, 4, 4, 4, 2, 1, 2};
  int nops = 1 + (int)r.below((uint64_t)(size < 1 ? 1 : size));
  auto name = [&]() -> long { return r.chance(82) ? (long)r.below(NFLAT) : 8 + (long)r.below(2); };
  bool guess[NH] = {false, false, false};   // handles the generator believes to be open (only steers the choice; the interpreter decides)
  auto handle = [&]() -> long { if (r.chance(85)) { int n = 0, pick[NH]; for (int i = 0; i < NH; ++i) if (guess[i]) pick[n++] = i; if (n) return pick[r.below((uint64_t)n)]; } return (long)r.below(NH); };
  for (int k = 0; k < nops; ++k) {
    int o = r.weighted(w, 17);
    std::string nm = names[o];
    if (o >= 1 && o <= 8 && !guess[0] && !guess[1] && !guess[2] && r.chance(80)) { o = 0; nm = "open"; }
    if (nm == "open") { long hi = r.chance(75) ? [&]() { for (int i = 0; i < NH; ++i) if (!guess[i]) return (long)i; return (long)r.below(NH); }() : (long)r.below(NH); guess[hi] = true; c.add("open", hi, name(), (long)r.below(16)); }
    else if (nm == "close") { long hi = handle(); guess[hi] = false; c.add("close", hi); }
    else if (nm == "write" || nm == "writes") c.add(names[o], handle(), 0, 0, 0, rbytes(r, r.chance(10) ? 0 : 30));
    else if (nm == "read") c.add("read", handle(), (long)r.below(r.chance(20) ? 120 : 20));
    else if (nm == "seek") c.add("seek", handle(), r.range(-30, 60), (long)r.below(3));
    else if (nm == "copy" || nm == "rename") c.add(names[o], name(), name(), (long)r.below(2), nm == "copy" && r.chance(30) ? (long)(1 + r.below(40)) : 0L);
    else if (nm == "unlink" || nm == "exists" || nm == "sreadall") c.add(names[o], name());
    else if (nm == "copyalias") c.add("copyalias", name(), (long)r.below(2));
    else if (nm == "mkfile") c.add("mkfile", (long)r.below(NFLAT), 0, 0, 0, rbytes(r, 20));
    else if (nm == "mkdir") c.add("mkdir", (long)r.below(NFLAT));
    else c.add(names[o], handle());
  }
}

bool pbt_nontrivial(const Ctx& ctx) { return ctx.has("fail_among_3ok"); }

void pbt_run(const Case& cs, Ctx& ctx) {
  // ---- scratch directory <outdir>/scratch, re-created empty for every case
  std::string root;
  {
    char rp[PATH_MAX];
    if (realpath(ctx.outdir.c_str(), rp)) root = rp; else root = ctx.outdir;
    root += "/scratch";
  }
  rm_rf(root);
  if (mkdir(root.c_str(), 0755) != 0) ctx.fail("harness:scratch", "cannot create " + root + ": " + strerror(errno));
  int fdsBefore = countFds();

  std::map<std::string, NodeP> fs;
  Handle h[NH];
  for (int i = 0; i < NH; ++i) h[i].f = new File;
  int nOk = 0, nFail = 0;

  auto ok = [&]() { ++nOk; if (nFail >= 1 && nOk >= 3) ctx.label("fail_among_3ok"); };
  auto failed = [&](const char* what) { ++nFail; ctx.label("failing_op"); ctx.label(what); if (nFail >= 1 && nOk >= 3) ctx.label("fail_among_3ok"); };

  struct Name { std::string rel; bool flat; };
  auto nameOf = [&](long idx) -> Name {
    long k = umod(idx, NNAMES);
    if (k < NFLAT) return Name{FLAT[k], true};
    if (k == 9) for (auto& e : fs) if (!e.second->dir) return Name{e.first + "/x", false};
    return Name{"nodir/x", false};
  };
  auto full = [&](const Name& n) { return root + "/" + n.rel; };
  // the same path in another spelling (the library is given strings; two strings may name one file)
  auto spelled = [&](const Name& n, unsigned long code) -> std::string {
    switch (code % 5) { case 1: return root + "/./" + n.rel; case 2: return root + "//" + n.rel; case 3: return root + "/../scratch/" + n.rel; default: return root + "/" + n.rel; }
  };
  auto lookup = [&](const Name& n) -> NodeP { if (!n.flat) return NodeP(); auto it = fs.find(n.rel); return it == fs.end() ? NodeP() : it->second; };

  auto verify = [&](const std::string& opname) {
    std::map<std::string, int> seen;
    DIR* d = opendir(root.c_str());
    if (!d) ctx.fail("fs-after-" + opname + ":scratch-gone", "the scratch directory cannot be opened");
    std::vector<std::string> names;
    while (struct dirent* e = readdir(d)) { if (!strcmp(e->d_name, ".") || !strcmp(e->d_name, "..")) continue; names.push_back(e->d_name); }
    closedir(d);
    std::sort(names.begin(), names.end());
    for (auto& n : names) {
      auto it = fs.find(n);
      struct stat st; if (lstat((root + "/" + n).c_str(), &st) != 0) continue;
      if (it == fs.end()) {
        std::string c; if (S_ISREG(st.st_mode)) readFile(root + "/" + n, c);
        char b[200]; snprintf(b, sizeof b, "after %s: '%s' (%s, %lld bytes) exists in the scratch directory but should not", opname.c_str(), n.c_str(), S_ISDIR(st.st_mode) ? "directory" : "file", (long long)st.st_size);
        ctx.fail("fs-after-" + opname + ":unexpected-entry", b);
      }
      bool isDir = S_ISDIR(st.st_mode);
      if (isDir != it->second->dir || (!isDir && !S_ISREG(st.st_mode))) ctx.fail("fs-after-" + opname + ":type", "'" + n + "' has the wrong type");
      if (!isDir) {
        std::string c; readFile(root + "/" + n, c);
        if (c != it->second->bytes) {
          char b[300]; snprintf(b, sizeof b, "after %s: '%s' holds %zu bytes \"%s\", the model %zu bytes \"%s\"", opname.c_str(), n.c_str(), c.size(), hexs(c).c_str(), it->second->bytes.size(), hexs(it->second->bytes).c_str());
          ctx.fail("fs-after-" + opname + ":content", b);
        }
      } else {
        // directories of the model are always empty
        DIR* sd = opendir((root + "/" + n).c_str()); int cnt = 0;
        if (sd) { while (struct dirent* e = readdir(sd)) if (strcmp(e->d_name, ".") && strcmp(e->d_name, "..")) ++cnt; closedir(sd); }
        if (cnt) ctx.fail("fs-after-" + opname + ":unexpected-entry", "after " + opname + ": directory '" + n + "' is not empty any more");
      }
    }
    for (auto& e : fs) if (!std::binary_search(names.begin(), names.end(), e.first)) ctx.fail("fs-after-" + opname + ":missing-entry", "after " + opname + ": '" + e.first + "' disappeared from the scratch directory");
    for (int i = 0; i < NH; ++i) if (h[i].f->isOpen() != (h[i].node != nullptr)) ctx.fail("mismatch:isOpen", "after " + opname);
  };
  auto expectBool = [&](const std::string& opname, bool got, bool want, const std::string& what) {
    if (got != want) ctx.fail("result:" + opname, what + " returned " + (got ? "true" : "false") + ", expected " + (want ? "true" : "false"));
    if (want) ok(); else failed(("fail_" + opname).c_str());
  };

  long idx = 0;
  for (const Op& op : cs.ops) {
    ctx.opIndex = idx++;
    const std::string& nm = op.name;
    const std::string& d = op.data;

    if (nm == "mkfile" || nm == "mkdir") {
      Name n = nameOf(umod(op.a[0], NFLAT));
      if (fs.count(n.rel)) { ctx.count("skipped"); continue; }
      NodeP nd = std::make_shared<Node>();
      if (nm == "mkdir") { nd->dir = true; if (mkdir(full(n).c_str(), 0755) != 0) ctx.fail("harness:mkdir", strerror(errno)); }
      else { nd->bytes = d; if (!writeFile(full(n), d)) ctx.fail("harness:mkfile", strerror(errno)); }
      fs[n.rel] = nd;
    }
    else if (nm == "open") {
      Handle& hh = h[umod(op.a[0], NH)];
      Name n = nameOf(op.a[1]);
      unsigned flags = (unsigned)umod(op.a[2], 16);
      bool r_ = flags & File::readFlag, w_ = flags & File::writeFlag, app = flags & File::appendFlag, opn = flags & File::openFlag;
      bool rw = r_ && w_, wonly = w_ && !r_;
      bool create = (rw || wonly) && !opn, trunc = wonly && !opn && !app;
      std::string what = "open('" + n.rel + "', flags " + std::to_string(flags) + ")";
      if (hh.node) {
        bool got = hh.f->open(L(full(n)), flags);
        expectBool("open", got, false, what + " on a File that is already open");
        ctx.label("open_while_open");
      } else {
        NodeP nd = lookup(n);
        if (!n.flat) { bool got = hh.f->open(L(full(n)), flags); expectBool("open", got, false, what + " below a missing directory / a regular file"); }
        else if (nd && nd->dir) {
          bool got = hh.f->open(L(full(n)), flags);
          if (rw || wonly) expectBool("open", got, false, what + " on a directory");
          else { if (got) hh.f->close(); ctx.label("open_dir_readonly"); }  // result not specified; handle is not used
        }
        else if (nd) {
          bool got = hh.f->open(L(full(n)), flags);
          expectBool("open", got, true, what + " on an existing file");
          if (trunc) { if (!nd->bytes.empty()) ctx.label("open_trunc"); nd->bytes.clear(); }
          hh.node = nd; hh.pos = app ? (long long)nd->bytes.size() : 0; hh.rd = !wonly; hh.wr = rw || wonly;
          if (app && !nd->bytes.empty()) ctx.label("open_append");
        }
        else {
          bool got = hh.f->open(L(full(n)), flags);
          expectBool("open", got, create, what + " on a missing file");
          if (create) { nd = std::make_shared<Node>(); fs[n.rel] = nd; hh.node = nd; hh.pos = 0; hh.rd = !wonly; hh.wr = true; ctx.label("open_creates"); }
        }
      }
    }
    else if (nm == "close") { Handle& hh = h[umod(op.a[0], NH)]; hh.f->close(); hh.node.reset(); }
    else if (nm == "write" || nm == "writes") {
      Handle& hh = h[umod(op.a[0], NH)];
      if (!hh.node) { ctx.count("skipped"); continue; }
      char* exact = (char*)malloc(d.size() ? d.size() : 1); memcpy(exact, d.data(), d.size());
      long long got; bool gotb = false;
      if (nm == "write") got = (long long)hh.f->write(exact, d.size());
      else { gotb = hh.f->write(String(exact, d.size())); got = gotb ? (long long)d.size() : -1; }
      free(exact);
      if (!hh.wr) {
        if (d.empty()) { ctx.count("unspecified_empty_write"); }   // a zero-length write on a read-only descriptor may or may not be refused
        else { if (got != -1) ctx.fail("result:write", "write on a File opened without writeFlag did not fail"); failed("fail_write_readonly"); }
      } else {
        if (got != (long long)d.size()) { char b[100]; snprintf(b, sizeof b, "write of %zu bytes returned %lld", d.size(), got); ctx.fail("result:write", b); }
        if (!d.empty()) {
          std::string& by = hh.node->bytes;
          if ((size_t)hh.pos > by.size()) { by.resize((size_t)hh.pos, '\0'); ctx.label("write_gap"); }
          if ((size_t)hh.pos < by.size()) ctx.label("write_overwrite");
          if (by.size() < (size_t)hh.pos + d.size()) by.resize((size_t)hh.pos + d.size());
          memcpy(&by[(size_t)hh.pos], d.data(), d.size());
          hh.pos += (long long)d.size();
          bool linked = false; for (auto& e : fs) if (e.second == hh.node) linked = true;
          if (!linked) ctx.label("write_unlinked_inode");
        }
        ok();
      }
    }
    else if (nm == "read") {
      Handle& hh = h[umod(op.a[0], NH)];
      if (!hh.node) { ctx.count("skipped"); continue; }
      size_t n = (size_t)(op.a[1] < 0 ? 0 : op.a[1] > 300 ? 300 : op.a[1]);
      char* buf = (char*)malloc(n ? n : 1); memset(buf, 0x5A, n);
      long long got = (long long)hh.f->read(buf, n);
      if (!hh.rd) { free(buf); if (got != -1) ctx.fail("result:read", "read on a File opened without read access did not fail"); failed("fail_read_writeonly"); }
      else {
        const std::string& by = hh.node->bytes;
        size_t avail = (size_t)hh.pos < by.size() ? by.size() - (size_t)hh.pos : 0;
        size_t want = n < avail ? n : avail;
        bool same = got == (long long)want && memcmp(buf, by.data() + (want ? hh.pos : 0), want) == 0;
        std::string g(buf, got > 0 ? (size_t)got : 0); free(buf);
        if (!same) { char b[300]; snprintf(b, sizeof b, "read(%zu) at position %lld of %zu returned %lld \"%s\", expected %zu bytes \"%s\"", n, hh.pos, by.size(), got, hexs(g).c_str(), want, hexs(by.substr(want ? (size_t)hh.pos : 0, want)).c_str()); ctx.fail("result:read", b); }
        hh.pos += (long long)want;
        if (want < n) ctx.label("read_short");
        ok();
      }
    }
    else if (nm == "readall") {
      Handle& hh = h[umod(op.a[0], NH)];
      if (!hh.node) { ctx.count("skipped"); continue; }
      String data("junk");
      bool got = hh.f->readAll(data);
      std::string g((const char*)data, data.length());
      if (!hh.rd) { if (got) ctx.fail("result:readAll", "readAll on a File opened without read access succeeded"); failed("fail_read_writeonly"); }
      else {
        const std::string& by = hh.node->bytes;
        std::string want = (size_t)hh.pos < by.size() ? by.substr((size_t)hh.pos) : std::string();
        if (!got || g != want) { char b[300]; snprintf(b, sizeof b, "readAll at position %lld of %zu returned %d, %zu bytes \"%s\", expected %zu bytes \"%s\"", hh.pos, by.size(), (int)got, g.size(), hexs(g).c_str(), want.size(), hexs(want).c_str()); ctx.fail("result:readAll", b); }
        if ((size_t)hh.pos < by.size()) hh.pos = (long long)by.size();
        if (hh.pos > 0 && !want.empty()) ctx.label("readall_from_middle");
        ok();
      }
    }
    else if (nm == "seek") {
      Handle& hh = h[umod(op.a[0], NH)];
      if (!hh.node) { ctx.count("skipped"); continue; }
      long long off = op.a[1] < -1000 ? -1000 : op.a[1] > 1000 ? 1000 : op.a[1];
      int wh = (int)umod(op.a[2], 3);
      long long base = wh == 0 ? 0 : wh == 1 ? hh.pos : (long long)hh.node->bytes.size();
      long long want = base + off;
      long long got = (long long)hh.f->seek(off, wh == 0 ? File::setPosition : wh == 1 ? File::currentPosition : File::endPosition);
      if (want < 0) { if (got != -1) { char b[120]; snprintf(b, sizeof b, "seek(%lld, %d) to a negative position returned %lld", off, wh, got); ctx.fail("result:seek", b); } failed("fail_seek_negative"); }
      else {
        if (got != want) { char b[160]; snprintf(b, sizeof b, "seek(%lld, %d) from position %lld, size %zu returned %lld, expected %lld", off, wh, hh.pos, hh.node->bytes.size(), got, want); ctx.fail("result:seek", b); }
        hh.pos = want;
        if ((size_t)want > hh.node->bytes.size()) ctx.label("seek_beyond");
        ok();
      }
    }
    else if (nm == "size" || nm == "tell") {
      Handle& hh = h[umod(op.a[0], NH)];
      if (!hh.node) { ctx.count("skipped"); continue; }
      long long got = nm == "size" ? (long long)hh.f->size() : (long long)hh.f->seek(0, File::currentPosition);
      long long want = nm == "size" ? (long long)hh.node->bytes.size() : hh.pos;
      if (got != want) { char b[120]; snprintf(b, sizeof b, "%s returned %lld, expected %lld", nm.c_str(), got, want); ctx.fail("result:" + nm, b); }
      ok();
    }
    else if (nm == "copy") {
      Name s = nameOf(op.a[0]), t = nameOf(op.a[1]); bool fie = umod(op.a[2], 2) == 1;
      NodeP sn = lookup(s), tn = lookup(t);
      std::string what = "copy('" + s.rel + "', '" + t.rel + "', failIfExists=" + (fie ? "true" : "false") + ")";
      bool destOpenable = t.flat && (!tn || (!tn->dir && !fie));   // the destination can be created / truncated
      if (sn && sn->dir && destOpenable && ctx.excluded("C19-copy-leaves-dest")) continue;
      if (sn && !sn->dir && sn == tn && !fie && ctx.excluded("C19-copy-self-truncates")) continue;
      // injected fault: the copy runs under a file size limit below the source's size (as on a full disk or under a quota): the
      // transfer stops short, so copy() must fail and must not leave an incomplete destination behind
      long faultArg = op.a[3] < 0 ? -op.a[3] : op.a[3];
      bool fault = faultArg > 0 && sn && !sn->dir && sn != tn && destOpenable && !sn->bytes.empty();
      if (fault && tn) for (int i = 0; i < NH; ++i) if (h[i].node == tn) fault = false;   // (what an open handle on the destination sees then is not specified)
      struct rlimit oldLim; getrlimit(RLIMIT_FSIZE, &oldLim);
      if (fault) { struct rlimit lim = oldLim; lim.rlim_cur = (rlim_t)((faultArg - 1) % (long)sn->bytes.size()); signal(SIGXFSZ, SIG_IGN); setrlimit(RLIMIT_FSIZE, &lim); }
      unsigned long sp = (unsigned long)idx * 2654435761ul >> 7;
      bool got = File::copy(L(spelled(s, sp)), L(spelled(t, sp / 5)), fie);
      if (fault) {
        setrlimit(RLIMIT_FSIZE, &oldLim);
        ctx.label(tn ? "copy_fault_short_transfer_over_existing" : "copy_fault_short_transfer");
        if (got) ctx.fail("result:copy", what + " returned true although the transfer was cut short by a file size limit");
        failed("fail_copy");
        // the destination is either gone or (if it existed) still the old file; never a new or partial file (verify() below)
        struct stat st;
        if (lstat(full(t).c_str(), &st) != 0) { if (tn) fs.erase(t.rel); }
        else if (tn) { std::string c; readFile(full(t), c); if (c != tn->bytes) { tn->bytes = c; ctx.fail("fs-after-copy:content", "after the failed " + what + " the destination holds neither its old contents nor nothing: " + std::to_string(c.size()) + " bytes"); } }
      }
      else if (!sn) expectBool("copy", got, false, what + " with a missing source");
      else if (sn->dir) { expectBool("copy", got, false, what + " with a directory as source"); ctx.label("copy_dir_source"); }
      else if (sn == tn && !fie) {
        // copying a file onto itself: it may be refused or accepted, the contents must survive (checked below)
        ctx.label("copy_self"); if (got) ok(); else failed("fail_copy");
      }
      else {
        bool want = destOpenable;
        expectBool("copy", got, want, what);
        if (want) {
          if (tn) { tn->bytes = sn->bytes; ctx.label("copy_replaces"); for (int i = 0; i < NH; ++i) if (h[i].node == tn) ctx.label("copy_over_open_file"); }
          else { NodeP nd = std::make_shared<Node>(); nd->bytes = sn->bytes; fs[t.rel] = nd; }
          for (int i = 0; i < NH; ++i) if (h[i].node == sn) ctx.label("copy_of_open_file");
        }
      }
    }
    else if (nm == "copyalias") {
      // the destination is another name of the source itself (a symbolic link to it): whether the copy is refused or accepted, the
      // source must keep its bytes and nothing else may change; the alias is removed again before the model is compared
      Name s = nameOf(op.a[0]); NodeP sn = lookup(s); bool fie = umod(op.a[1], 2) == 1;
      if (!sn || sn->dir) { ctx.count("skipped"); continue; }
      std::string alias = root + "/zz_alias";
      if (symlink(s.rel.c_str(), alias.c_str()) != 0) ctx.fail("harness:symlink", strerror(errno));
      bool got = File::copy(L(full(s)), L(alias), fie);
      ctx.label(got ? "copy_onto_alias_accepted" : "copy_onto_alias_refused");
      std::string c; readFile(full(s), c);
      if (c != sn->bytes) { char b[200]; snprintf(b, sizeof b, "copy('%s', <symbolic link to it>, failIfExists=%d) returned %s and left the source with %zu of its %zu bytes", s.rel.c_str(), (int)fie, got ? "true" : "false", c.size(), sn->bytes.size()); ::unlink(alias.c_str()); ctx.fail("fs-after-copy:content", b); }
      struct stat st;
      if (lstat(alias.c_str(), &st) == 0 && S_ISREG(st.st_mode)) { std::string c2; readFile(alias, c2); if (c2 != sn->bytes) { ::unlink(alias.c_str()); ctx.fail("fs-after-copy:content", "the alias became a regular file that does not hold the source's bytes"); } }
      ::unlink(alias.c_str());
      if (got) ok(); else failed("fail_copy");
    }
    else if (nm == "rename") {
      Name s = nameOf(op.a[0]), t = nameOf(op.a[1]); bool fie = umod(op.a[2], 2) == 1;
      NodeP sn = lookup(s), tn = lookup(t);
      std::string what = "rename('" + s.rel + "', '" + t.rel + "', failIfExists=" + (fie ? "true" : "false") + ")";
      // known: with failIfExists the placeholder created at the destination stays when the rename itself fails
      if (fie && t.flat && !tn && (!sn || sn->dir) && ctx.excluded("C19-rename-placeholder")) continue;
      unsigned long sp = (unsigned long)idx * 2654435761ul >> 7;
      if (sp % 5 || (sp / 5) % 5) ctx.label(s.rel == t.rel ? "rename_same_file_other_spelling" : "path_spelling_varied");
      bool got = File::rename(L(spelled(s, sp)), L(spelled(t, sp / 5)), fie);
      if (!sn) expectBool("rename", got, false, what + " with a missing source");
      else if (!t.flat) expectBool("rename", got, false, what + " to a place below a missing directory / a regular file");
      else if (fie && tn) { expectBool("rename", got, false, what + " with an existing destination"); ctx.label("rename_refused_existing"); }
      else if (sn->dir && fie) {
        // a directory to a free name: moving it is what the name promises; refusing is tolerated, but then nothing may change
        if (got) { fs[t.rel] = sn; fs.erase(s.rel); ok(); } else failed("fail_rename");
      }
      else if (sn == tn) { expectBool("rename", got, true, what + " onto itself"); }
      else {
        bool want;
        if (!tn) want = true;
        else if (sn->dir) want = tn->dir;          // directory over (empty) directory works, over a file not
        else want = !tn->dir;                      // file over file works, over a directory not
        expectBool("rename", got, want, what);
        if (want) {
          if (tn) { ctx.label("rename_replaces"); for (int i = 0; i < NH; ++i) if (h[i].node == tn) ctx.label("rename_over_open_file"); }
          fs[t.rel] = sn; fs.erase(s.rel);
        }
      }
    }
    else if (nm == "unlink") {
      Name n = nameOf(op.a[0]); NodeP nd = lookup(n);
      bool got = File::unlink(L(full(n)));
      bool want = nd && !nd->dir;
      expectBool("unlink", got, want, "unlink('" + n.rel + "')");
      if (want) { for (int i = 0; i < NH; ++i) if (h[i].node == nd) ctx.label("unlink_open_file"); fs.erase(n.rel); }
    }
    else if (nm == "exists") {
      Name n = nameOf(op.a[0]); NodeP nd = lookup(n);
      bool got = File::exists(L(full(n)));
      if (got != (nd != nullptr)) ctx.fail("result:exists", "exists('" + n.rel + "') returned " + (got ? "true" : "false"));
    }
    else if (nm == "sreadall") {
      Name n = nameOf(op.a[0]); NodeP nd = lookup(n);
      if (nd && nd->dir && ctx.excluded("C19-readall-directory")) continue;
      if (nd && nd->dir) ctx.label("readall_directory");
      String data("junk");
      bool got = File::readAll(L(full(n)), data);
      std::string g((const char*)data, data.length());
      bool want = nd && !nd->dir;
      expectBool("readAll-static", got, want, "File::readAll('" + n.rel + "')");
      if (want && g != nd->bytes) { char b[300]; snprintf(b, sizeof b, "File::readAll('%s') returned %zu bytes \"%s\", expected %zu bytes \"%s\"", n.rel.c_str(), g.size(), hexs(g).c_str(), nd->bytes.size(), hexs(nd->bytes).c_str()); ctx.fail("result:readAll-static", b); }
    }
    else { ctx.count("unknown_op"); continue; }
    verify(nm);
  }
  ctx.opIndex = -2;
  for (int i = 0; i < NH; ++i) { delete h[i].f; h[i].f = nullptr; h[i].node.reset(); }
  fs.clear();
  int fdsAfter = countFds();
  if (fdsBefore >= 0 && fdsAfter != fdsBefore) { char b[100]; snprintf(b, sizeof b, "%d descriptors open before the case, %d after all Files were destroyed", fdsBefore, fdsAfter); ctx.fail("fd-leak", b); }
  rm_rf(root);
}
