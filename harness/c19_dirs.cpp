// C19 / part "dirs": Directory::create / unlink / exists / open+read on generated trees with symbolic links that
// point OUT of the tree, next to a populated sentinel directory that must never change.
//   <outdir>/scratch/tree      generated tree (files, sub-directories, links to outside files/directories, dangling links)
//   <outdir>/scratch/outside   sentinel (fixed contents)
// The working directory is <outdir>/scratch during a case (relative and absolute spellings of every path are used).
// Everything the oracle knows about the file system is read with plain POSIX calls (lstat/stat/readdir/readlink/read).
#define PBT_MAIN
#include "pbt.hpp"
#include <nstd/File.hpp>
#include <nstd/Directory.hpp>
#include <string>
#include <vector>
#include <map>
#include <set>
#include <climits>
#include <cerrno>
#include <dirent.h>
#include <sys/stat.h>
#include <sys/types.h>

// A racing creator: the k-th mkdir() call that Directory::create makes finds that somebody else has just made that directory
// (the wrapper makes it first, the library's own call then fails with EEXIST). The path exists afterwards, so create() owes a true.
extern "C" int __real_mkdir(const char* path, mode_t mode);
namespace { long g_mkdirRaceAt = -1, g_mkdirCalls = 0; bool g_mkdirRaced = false; }
extern "C" int __wrap_mkdir(const char* path, mode_t mode) {
  if (g_mkdirRaceAt >= 0 && g_mkdirCalls++ == g_mkdirRaceAt) { if (__real_mkdir(path, 0755) == 0) g_mkdirRaced = true; }
  return __real_mkdir(path, mode);
}

const char* pbt_property = "C19";
const char* pbt_part = "dirs";

using namespace pbt;

namespace {
const char* const NAMES[] = {"a", "b", "c.d", "e", ".h", "x..", "k", "..data", "...", "..x.y"};   // also names that merely begin like the "." / ".." entries
const int NN = 10;
const char* const SUF[] = {"a", "b", "c.d", "n1", "n2", ".h"};
const int NS = 6;
const char* const PATS[] = {"", "*", "*.d", "a*", "?", "*.*", "b", ".*", "*n*", "??*"};
const int NP = 10;
const int MAXDEPTH = 4, MAXENT = 12, NLINKKINDS = 8;

enum { D_ABS = 1, D_SLASH = 2, D_DOUBLE = 4, D_DOT = 8, D_DOTDOT = 16, D_FLAG = 32 };

typedef std::map<std::string, std::string> Snap;

long umod(long v, long m) { return ((v % m) + m) % m; }
String L(const std::string& s) { return String(s.data(), s.size()); }

// ---- plain POSIX helpers (never the library under test)
std::vector<std::string> listDir(const std::string& p, bool* ok = nullptr) {
  std::vector<std::string> names;
  DIR* d = opendir(p.c_str());
  if (ok) *ok = d != nullptr;
  if (!d) return names;
  while (struct dirent* e = readdir(d)) { if (!strcmp(e->d_name, ".") || !strcmp(e->d_name, "..")) continue; names.push_back(e->d_name); }
  closedir(d);
  std::sort(names.begin(), names.end());
  return names;
}
void rm_rf(const std::string& p) {
  struct stat st;
  if (lstat(p.c_str(), &st) != 0) return;
  if (S_ISDIR(st.st_mode)) { for (auto& n : listDir(p)) rm_rf(p + "/" + n); rmdir(p.c_str()); }
  else unlink(p.c_str());
}
bool readFile(const std::string& p, std::string& out) {
  out.clear();
  int fd = open(p.c_str(), O_RDONLY | O_CLOEXEC | O_NOFOLLOW);
  if (fd < 0) return false;
  char b[4096]; ssize_t n;
  while ((n = read(fd, b, sizeof b)) > 0) out.append(b, (size_t)n);
  close(fd);
  return n == 0;
}
bool writeFile(const std::string& p, const std::string& d) {
  int fd = open(p.c_str(), O_WRONLY | O_CREAT | O_EXCL | O_CLOEXEC, 0644);
  if (fd < 0) return false;
  size_t off = 0; while (off < d.size()) { ssize_t n = write(fd, d.data() + off, d.size() - off); if (n <= 0) break; off += (size_t)n; }
  close(fd);
  return off == d.size();
}
// snapshot of everything below abs (names, types, contents, link targets); links are never followed
void snapInto(const std::string& abs, const std::string& rel, Snap& out) {
  struct stat st;
  if (lstat(abs.c_str(), &st) != 0) return;
  if (S_ISDIR(st.st_mode)) {
    if (!rel.empty()) out[rel] = "D";
    for (auto& n : listDir(abs)) snapInto(abs + "/" + n, rel.empty() ? n : rel + "/" + n, out);
  } else if (S_ISLNK(st.st_mode)) {
    char b[PATH_MAX]; ssize_t n = readlink(abs.c_str(), b, sizeof b); out[rel] = "L:" + std::string(b, n > 0 ? (size_t)n : 0);
  } else if (S_ISREG(st.st_mode)) { std::string c; readFile(abs, c); out[rel] = "F:" + c; }
  else out[rel] = "?";
}
int countFds() {
  DIR* d = opendir("/proc/self/fd"); if (!d) return -1;
  int n = 0; while (struct dirent* e = readdir(d)) if (e->d_name[0] != '.') ++n;
  closedir(d); return n;
}
bool glob(const char* pat, const char* s) {   // '*' and '?' only
  if (!*pat) return !*s;
  if (*pat == '*') { for (const char* t = s;; ++t) { if (glob(pat + 1, t)) return true; if (!*t) return false; } }
  if (!*s) return false;
  if (*pat == '?' || *pat == *s) return glob(pat + 1, s + 1);
  return false;
}
std::vector<std::string> split(const std::string& p) {
  std::vector<std::string> r; size_t i = 0;
  while (i < p.size()) { size_t e = p.find('/', i); if (e == std::string::npos) e = p.size(); if (e > i) r.push_back(p.substr(i, e - i)); i = e + 1; }
  return r;
}
std::string join(const std::vector<std::string>& v) { std::string r; for (size_t i = 0; i < v.size(); ++i) { if (i) r += "/"; r += v[i]; } return r; }
std::string diffSnap(const Snap& want, const Snap& got) {
  for (auto& e : want) { auto it = got.find(e.first); if (it == got.end()) return "'" + e.first + "' is gone"; if (it->second != e.second) return "'" + e.first + "' changed from " + e.second.substr(0, 40) + " to " + it->second.substr(0, 40); }
  for (auto& e : got) if (!want.count(e.first)) return "'" + e.first + "' (" + e.second.substr(0, 1) + ") appeared";
  return "";
}
std::string rbytes(Rng& r, int maxlen) { int n = (int)r.below((uint64_t)maxlen + 1); std::string s; for (int i = 0; i < n; ++i) s += (char)('a' + r.below(26)); return s; }

enum Final { F_MISSING, F_DIR, F_LINKDIR, F_NONDIR };
struct Walk {
  bool escapes = false, crossesLink = false, blockedPrefix = false, blockedByDangling = false, finalIsLink = false, usedDotDot = false;
  Final fin = F_MISSING;
  std::vector<std::string> virt;   // directories a correct create has to make, in order
  std::string norm;                // normalised path below the scratch root ("tree/...")
};
}  // namespace

void pbt_warmup() { String w("x"); String w2(w); w2.append(w); String c = Directory::getCurrentDirectory(); (void)c; }

void pbt_generate(Rng& r, int size, Case& c) {
  auto decor = [&](int pSlash, int pOther) -> long {
    long dflags = 0;
    if (r.chance(35)) dflags |= D_ABS;
    if (r.chance(pSlash)) dflags |= D_SLASH;
    if (r.chance(pOther)) dflags |= D_DOUBLE;
    if (r.chance(pOther)) dflags |= D_DOT;
    if (r.chance(pOther)) dflags |= D_DOTDOT;
    return dflags | ((long)r.below(8) << 8);
  };
  auto build = [&]() {
    int k = (int)r.below(100);
    long parent = r.chance(40) ? (long)r.below(3) : (long)r.below(12);
    if (k < 38) c.add("mkd", parent, (long)r.below(NN));
    else if (k < 70) c.add("mkf", parent, (long)r.below(NN), 0, 0, rbytes(r, 12));
    else c.add("lnk", parent, (long)r.below(NN), (long)r.below(NLINKKINDS));
  };
  int nb = 1 + (int)r.below((uint64_t)std::min(size, MAXENT) + 1);
  for (int i = 0; i < nb; ++i) build();
  int nops = 1 + (int)r.below((uint64_t)(size < 1 ? 1 : size));
  static const int w[] = {34, 30, 8, 16, 12};
  for (int k = 0; k < nops; ++k) {
    int o = r.weighted(w, 5);
    long base = r.chance(35) ? (long)r.below(3) : (long)r.below(14);
    if (o == 0) { static const int sw[] = {25, 33, 19, 14, 5, 4}; c.add("create", base, r.weighted(sw, 6), decor(25, 18), (long)r.below(NS * NS * NS), r.chance(25) ? std::string(1, (char)('0' + r.below(4))) : std::string()); }
    else if (o == 1) c.add("unlink", base, r.chance(88) ? 0 : 1, decor(15, 12) | (r.chance(60) ? D_FLAG : 0), (long)r.below(NS * NS * NS));
    else if (o == 2) c.add("exists", base, r.chance(70) ? 0 : 1, decor(15, 12), (long)r.below(NS * NS * NS));
    else if (o == 3) c.add("enum", base, (long)r.below(NP), decor(15, 10) | (r.chance(40) ? D_FLAG : 0), r.chance(8) ? 1 : 0);
    else build();
  }
}

bool pbt_nontrivial(const Ctx& ctx) { return ctx.has("unlink_rec_outside_link_2lvl"); }

void pbt_run(const Case& cs, Ctx& ctx) {
  std::string R;
  { char rp[PATH_MAX]; if (realpath(ctx.outdir.c_str(), rp)) R = rp; else R = ctx.outdir; R += "/scratch"; }
  int home = open(".", O_RDONLY | O_DIRECTORY | O_CLOEXEC);
  auto die = [&](const std::string& kind, const std::string& detail) { if (home >= 0) { if (fchdir(home) != 0) {} } ctx.fail(kind, detail); };
  rm_rf(R);
  const std::string T = R + "/tree", O = R + "/outside";
  bool okb = mkdir(R.c_str(), 0755) == 0 && mkdir(T.c_str(), 0755) == 0 && mkdir(O.c_str(), 0755) == 0 && writeFile(O + "/of1", "sentinel-one\n") && writeFile(O + "/.ohid", "hidden")
          && mkdir((O + "/od").c_str(), 0755) == 0 && writeFile(O + "/od/of2", "two") && mkdir((O + "/od/odd").c_str(), 0755) == 0 && writeFile(O + "/od/odd/of3", "three")
          && symlink("of1", (O + "/olnk").c_str()) == 0 && mkdir((O + "/oe").c_str(), 0755) == 0;
  if (!okb || chdir(R.c_str()) != 0) die("harness:scratch", "cannot build " + R + ": " + strerror(errno));
  int fdsBefore = countFds();

  auto snapshot = [&]() { Snap s; snapInto(R, "", s); return s; };

  // ---- path of an operation: a base (the tree root or one of its current entries, sorted) + suffix names + decoration
  auto mkpath = [&](const Snap& cur, long a0, long a1, long a2, long a3) -> std::string {
    std::vector<std::string> keys;
    for (auto& e : cur) if (e.first.compare(0, 5, "tree/") == 0) keys.push_back(e.first);
    long k = umod(a0, (long)keys.size() + 1);
    std::vector<std::string> comps = split(k == 0 ? std::string("tree") : keys[(size_t)k - 1]);
    long sfx = umod(a1, 6), ns = sfx >= 4 ? 1 : sfx, sel = umod(a3, NS * NS * NS);
    for (long i = 0; i < ns; ++i) { comps.push_back(SUF[sel % NS]); sel /= NS; }
    if (sfx == 4) comps.push_back("."); else if (sfx == 5) comps.push_back("..");
    long pos = umod(a2 >> 8, 64);
    long j = comps.size() >= 2 ? 1 + pos % ((long)comps.size() - 1) : -1;
    std::string out = (a2 & D_ABS) ? R + "/" : "";
    for (size_t i = 0; i < comps.size(); ++i) {
      if (i) out += "/";
      if ((long)i == j) {
        if (a2 & D_DOTDOT) out += comps[i] + "/../";
        if (a2 & D_DOT) out += "./";
        if (a2 & D_DOUBLE) out += "/";
      }
      out += comps[i];
    }
    if (a2 & D_SLASH) out += "/";
    return out;
  };
  // ---- what the path denotes right now (no link is followed on the way: such paths leave the tree and are skipped by the callers)
  auto walk = [&](const std::string& path) -> Walk {
    Walk w;
    std::string rel = path;
    if (rel.compare(0, R.size() + 1, R + "/") == 0) rel = rel.substr(R.size() + 1);
    std::vector<std::string> comps = split(rel), stack;
    std::set<std::string> virt;
    for (size_t i = 0; i < comps.size(); ++i) {
      const std::string& c = comps[i];
      bool last = i + 1 == comps.size();
      if (c == ".") continue;
      if (c == "..") { w.usedDotDot = true; if (stack.empty()) { w.escapes = true; return w; } stack.pop_back(); continue; }
      stack.push_back(c);
      if (stack[0] != "tree") { w.escapes = true; return w; }
      std::string p = join(stack);
      if (virt.count(p)) continue;
      struct stat st;
      if (lstat((R + "/" + p).c_str(), &st) != 0) { virt.insert(p); w.virt.push_back(p); continue; }
      if (S_ISDIR(st.st_mode)) continue;
      if (S_ISLNK(st.st_mode)) {
        struct stat st2; bool live = stat((R + "/" + p).c_str(), &st2) == 0;
        if (live && S_ISDIR(st2.st_mode)) { if (last) { w.fin = F_LINKDIR; w.finalIsLink = true; w.norm = p; return w; } w.crossesLink = true; return w; }
        if (!live) w.blockedByDangling = true;
        if (last) { w.fin = F_NONDIR; w.finalIsLink = true; w.norm = p; return w; }
        w.blockedPrefix = true; return w;
      }
      if (last) { w.fin = F_NONDIR; w.norm = p; return w; }
      w.blockedPrefix = true; return w;
    }
    if (stack.empty()) { w.escapes = true; return w; }
    w.norm = join(stack);
    w.fin = virt.count(w.norm) ? F_MISSING : F_DIR;
    return w;
  };
  auto depthOf = [&](const std::string& rel) { int d = 0; for (char ch : rel) if (ch == '/') ++d; return d; };

  long idx = 0;
  Snap before = snapshot();
  for (const Op& op : cs.ops) {
    ctx.opIndex = idx++;
    const std::string& nm = op.name;

    if (nm == "mkd" || nm == "mkf" || nm == "lnk") {
      std::vector<std::string> dirs; int nent = 0;
      for (auto& e : before) if (e.first == "tree" || e.first.compare(0, 5, "tree/") == 0) { if (e.first != "tree") ++nent; if (e.second == "D") dirs.push_back(e.first); }
      if (dirs.empty() || nent >= MAXENT) { ctx.count("skipped"); continue; }
      const std::string parent = dirs[(size_t)umod(op.a[0], (long)dirs.size())];
      if (depthOf(parent) >= MAXDEPTH) { ctx.count("skipped"); continue; }
      std::string rel = parent + "/" + NAMES[umod(op.a[1], NN)];
      if (before.count(rel)) { ctx.count("skipped"); continue; }
      std::string abs = R + "/" + rel;
      bool done; std::string desc;
      if (nm == "mkd") { done = mkdir(abs.c_str(), 0755) == 0; desc = "D"; }
      else if (nm == "mkf") { done = writeFile(abs, op.data.substr(0, 64)); desc = "F:" + op.data.substr(0, 64); }
      else {
        std::string ups; for (int i = 0; i <= depthOf(parent); ++i) ups += "../";
        std::string target;
        switch (umod(op.a[2], NLINKKINDS)) {
          case 0: target = O + "/of1"; break;
          case 1: target = O + "/od"; break;
          case 2: target = O + "/od/odd"; break;
          case 3: target = O + "/nothing"; break;
          case 4: target = ups + "outside/od"; break;
          case 5: target = ups + "outside/of1"; break;
          case 6: target = O; break;
          default: target = "nothing-here"; break;
        }
        done = symlink(target.c_str(), abs.c_str()) == 0; desc = "L:" + target;
      }
      if (!done) die("harness:build", "cannot make " + rel + ": " + strerror(errno));
      before[rel] = desc;
      continue;
    }

    if (nm == "create") {
      std::string path = mkpath(before, op.a[0], op.a[1], op.a[2], op.a[3]);
      Walk w = walk(path);
      if (w.escapes || w.crossesLink) { ctx.count("skipped_leaves_tree"); continue; }
      bool predictedOk = !w.blockedPrefix && w.fin != F_NONDIR;
      if (!predictedOk && ctx.excluded("C19-create-returns-true")) continue;
      g_mkdirCalls = 0; g_mkdirRaced = false; g_mkdirRaceAt = op.data.empty() ? -1 : (long)(unsigned char)op.data[0] % 4;
      bool ret = Directory::create(L(path));
      g_mkdirRaceAt = -1;
      if (g_mkdirRaced) ctx.label("create_lost_race_against_other_creator");
      struct stat st; bool isDir = stat(path.c_str(), &st) == 0 && S_ISDIR(st.st_mode);
      Snap after = snapshot();
      if (ret != isDir) die(ret ? "create-true-but-no-directory" : "create-false-but-directory", "Directory::create(\"" + path + "\") returned " + (ret ? "true" : "false") + " but afterwards the path is " + (isDir ? "" : "not ") + "a directory");
      if (predictedOk && !isDir) die("create-did-not-create", "Directory::create(\"" + path + "\"): nothing on the way is a non-directory, but the directory does not exist afterwards");
      Snap want = before;
      if (predictedOk) { for (auto& v : w.virt) want[v] = "D"; }
      else { for (auto& v : w.virt) if (after.count(v)) want[v] = "D"; }   // a failing create may have made some of the parents
      std::string df = diffSnap(want, after);
      if (!df.empty()) die("create-side-effect", "Directory::create(\"" + path + "\"): " + df);
      if (predictedOk) {
        ctx.label(w.virt.empty() ? "create_existing" : w.virt.size() == 1 ? "create_leaf" : "create_deep");
        if (w.fin == F_LINKDIR) ctx.label("create_on_dirlink");
      } else ctx.label(w.blockedByDangling ? "create_blocked_dangling" : w.finalIsLink ? "create_on_filelink" : w.blockedPrefix ? "create_below_file" : "create_on_file");
      if (op.a[2] & D_SLASH) ctx.label("create_trailing_slash");
      if (w.usedDotDot) ctx.label("create_dotdot");
      if (op.a[2] & D_ABS) ctx.label("absolute_path");
      before.swap(after);
    }
    else if (nm == "unlink") {
      std::string path = mkpath(before, op.a[0], umod(op.a[1], 4), op.a[2], op.a[3]);
      bool rec = (op.a[2] & D_FLAG) != 0;
      Walk w = walk(path);
      if (w.escapes || w.crossesLink) { ctx.count("skipped_leaves_tree"); continue; }
      // "link/": Linux refuses rmdir on a symbolic link even with a trailing separator (ENOTDIR), so nothing may happen either
      if (w.finalIsLink && (op.a[2] & D_SLASH)) ctx.label("unlink_link_with_slash");
      std::vector<std::string> sub;
      if (w.fin == F_DIR) for (auto& e : before) if (e.first.compare(0, w.norm.size() + 1, w.norm + "/") == 0) sub.push_back(e.first);
      bool want = w.fin == F_DIR && !w.blockedPrefix && (sub.empty() || rec);
      int levels = 0, outLinks = 0;
      for (auto& s : sub) {
        levels = std::max(levels, depthOf(s) - depthOf(w.norm));
        const std::string& ds = before[s];
        if (ds[0] == 'L') { struct stat st; if (stat((R + "/" + s).c_str(), &st) == 0) ++outLinks; }
      }
      bool ret = Directory::unlink(L(path), rec);
      Snap after = snapshot();
      std::string call = "Directory::unlink(\"" + path + "\", " + (rec ? "true" : "false") + ")";
      Snap expect = before;
      if (want) { expect.erase(w.norm); for (auto& s : sub) expect.erase(s); }
      if (ret && !want) {
        std::string df = diffSnap(expect, after);
        die("unlink-true-unexpected", call + " returned true for " + (w.fin == F_DIR ? "a non-empty directory without 'recursive'" : "something that is not a directory") + (df.empty() ? "" : "; " + df));
      }
      if (ret) { struct stat st; if (lstat(path.c_str(), &st) == 0) die("unlink-true-but-exists", call + " returned true but the path still exists"); }
      std::string df = diffSnap(expect, after);
      if (!df.empty()) {
        bool outside = false; for (auto& e : before) if (e.first.compare(0, 7, "outside") == 0) { auto it = after.find(e.first); if (it == after.end() || it->second != e.second) outside = true; }
        die(outside ? "unlink-touched-outside" : want ? "unlink-wrong-effect" : "unlink-failed-but-changed", call + ": " + df);
      }
      if (!ret && want) die("unlink-false-unexpected", call + " returned false for a removable directory");
      if (want) {
        ctx.label(sub.empty() ? "unlink_empty_dir" : "unlink_recursive");
        if (!sub.empty() && outLinks >= 1) ctx.label("unlink_rec_outside_link");
        if (!sub.empty() && levels >= 2) ctx.label("unlink_rec_2lvl");
        if (!sub.empty() && outLinks >= 1 && levels >= 2) ctx.label("unlink_rec_outside_link_2lvl");
      } else ctx.label(w.fin == F_DIR ? "unlink_nonempty_norec" : w.finalIsLink ? "unlink_link" : w.fin == F_NONDIR ? "unlink_file" : "unlink_missing");
      if (op.a[2] & D_ABS) ctx.label("absolute_path");
      before.swap(after);
    }
    else if (nm == "exists") {
      std::string path = mkpath(before, op.a[0], op.a[1], op.a[2], op.a[3]);
      struct stat st; bool want = stat(path.c_str(), &st) == 0 && S_ISDIR(st.st_mode);
      bool got = Directory::exists(L(path));
      if (got != want) die("exists-mismatch", "Directory::exists(\"" + path + "\") returned " + (got ? "true" : "false"));
      struct stat lst; if (want && lstat(path.c_str(), &lst) == 0 && S_ISLNK(lst.st_mode)) ctx.label("exists_dirlink");
      ctx.label(want ? "exists_true" : "exists_false");
      std::string df = diffSnap(before, snapshot()); if (!df.empty()) die("exists-side-effect", df);
    }
    else if (nm == "enum") {
      std::string path = umod(op.a[3], 2) == 1 ? std::string() : mkpath(before, op.a[0], 0, op.a[2], 0);
      std::string pat = PATS[umod(op.a[1], NP)];
      bool dirsOnly = (op.a[2] & D_FLAG) != 0;
      bool canOpen = false;
      std::vector<std::string> names = listDir(path.empty() ? "." : path, &canOpen);
      std::vector<std::pair<std::string, bool>> want;
      bool dirLinkHit = false;
      for (auto& n : names) {
        if (!pat.empty() && !glob(pat.c_str(), n.c_str())) continue;
        std::string ep = path.empty() ? n : path + "/" + n;
        struct stat st, lst; bool isDir = stat(ep.c_str(), &st) == 0 && S_ISDIR(st.st_mode);
        bool isLnk = lstat(ep.c_str(), &lst) == 0 && S_ISLNK(lst.st_mode);
        if (isDir && isLnk) dirLinkHit = true;
        if (dirsOnly && !isDir) continue;
        want.push_back(std::make_pair(n, isDir));
      }
      // Whether dirsOnly lists symbolic links to directories is not part of the statement (the library omits them,
      // although it reports them as directories when dirsOnly is off): not compared.
      if (dirsOnly && dirLinkHit) { ctx.count("unspecified:dirsOnly-dirlink"); continue; }
      std::string call = "Directory::open(\"" + path + "\", \"" + pat + "\", " + (dirsOnly ? "true" : "false") + ")";
      {
        Directory dir;
        bool got = dir.open(L(path), L(pat), dirsOnly);
        if (got != canOpen) die("enum-open-result", call + " returned " + (got ? "true" : "false"));
        if (got) {
          std::vector<std::pair<std::string, bool>> have;
          String name; bool isDir = false; int guard = 0;
          while (dir.read(name, isDir)) { have.push_back(std::make_pair(std::string((const char*)name, name.length()), isDir)); if (++guard > 1000) die("enum-endless", call); }
          if (dir.read(name, isDir)) die("enum-read-after-end", call + ": read() returned true after it had returned false");
          if (dir.open(L(path), L(pat), dirsOnly)) die("enum-open-twice", call + " succeeded on an object that is already open");
          dir.close();
          // the same object enumerates again after close(): everything, whatever pattern and dirsOnly were before
          {
            std::vector<std::pair<std::string, bool>> all, again;
            for (auto& n : names) { std::string ep = path.empty() ? n : path + "/" + n; struct stat st; all.push_back(std::make_pair(n, stat(ep.c_str(), &st) == 0 && S_ISDIR(st.st_mode))); }
            if (!dir.open(L(path), String(), false)) die("enum-reopen", call + ": the object cannot be opened again after close()");
            int guard2 = 0; while (dir.read(name, isDir)) { again.push_back(std::make_pair(std::string((const char*)name, name.length()), isDir)); if (++guard2 > 1000) die("enum-endless", call); }
            dir.close();
            std::sort(all.begin(), all.end()); std::sort(again.begin(), again.end());
            if (again != all) { std::string a, b; for (auto& e : all) a += e.first + (e.second ? "/ " : " "); for (auto& e : again) b += e.first + (e.second ? "/ " : " "); die("enum-mismatch", call + ", close(), then open(path, \"\", false) on the same object listed { " + b + "}, expected { " + a + "}"); }
            ctx.label("enum_object_reused");
          }
          std::sort(have.begin(), have.end());
          if (have != want) {
            std::string a, b; for (auto& e : want) a += e.first + (e.second ? "/ " : " "); for (auto& e : have) b += e.first + (e.second ? "/ " : " ");
            die(dirsOnly && dirLinkHit ? "enum-dirsonly-dirlink" : "enum-mismatch", call + " listed { " + b + "}, expected { " + a + "}");
          }
          ctx.label("enum");
          if (dirsOnly) ctx.label("enum_dirsonly");
          if (!pat.empty() && want.size() < names.size() && !want.empty()) ctx.label("enum_pattern_filters");
          if (dirLinkHit) ctx.label("enum_dirlink");
        } else ctx.label("enum_cannot_open");
      }
      std::string df = diffSnap(before, snapshot()); if (!df.empty()) die("enum-side-effect", df);
    }
    else ctx.count("unknown_op");
  }
  ctx.opIndex = -2;
  int fdsAfter = countFds();
  if (fdsBefore >= 0 && fdsAfter != fdsBefore) { char b[100]; snprintf(b, sizeof b, "%d descriptors open after building the tree, %d at the end of the case", fdsBefore, fdsAfter); die("fd-leak", b); }
  if (home >= 0) { if (fchdir(home) != 0) {} close(home); }
  rm_rf(R);
}
