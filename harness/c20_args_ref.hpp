// Reference getopt_long-style parser and helpers shared by the C20 Arguments harness (opfuzz) and its libFuzzer front-end.
#pragma once
#include <nstd/Process.hpp>
#include <nstd/String.hpp>
#include <string>
#include <vector>
#include <cstring>
#include <cstdio>

typedef void (*C20LabelFn)(const char*);
namespace {
struct PoolOpt { int character; const char* name; uint32 flags; };
const PoolOpt POOL[] = {
  {'a', nullptr, Process::optionFlag},
  {'b', nullptr, Process::optionFlag},
  {'c', nullptr, Process::optionFlag},
  {'o', "out", Process::argumentFlag},
  {'p', "path", Process::argumentFlag},
  {256, "verbose", Process::optionFlag},
  {257, "level", Process::argumentFlag | Process::optionalFlag},
  // names that are proper prefixes of EARLIER entries: an exact name must select its own entry, not the first entry it is a prefix of
  {258, "verb", Process::optionFlag},
  {259, "pa", Process::argumentFlag},
};
const int NPOOL = 9;
const long FULLMASK = (1L << NPOOL) - 1;
const size_t MAXTOK = 12;

struct Event {
  int ch; std::string arg;
  bool anyArg;  // the conventions fix the character of this event but not its text
  size_t tok = 0;  // index of the argv element the event comes from
};

struct RefResult {
  std::vector<Event> events;
  std::vector<int> clusterLetters;   // per token (index into argv): option letters taken from it as a cluster
  std::vector<int> kindOf;           // per token: 0 other, 1 option token with a value form, 2 flag given "=value"
  std::vector<int> tookNext;         // per token: 1 when the following element was consumed as its value
};

const PoolOpt* findShort(const std::vector<PoolOpt>& tbl, int c) { for (auto& o : tbl) if (o.character == c && o.character < 256) return &o; return nullptr; }
const PoolOpt* findLong(const std::vector<PoolOpt>& tbl, const std::string& name) { for (auto& o : tbl) if (o.name && name == o.name) return &o; return nullptr; }

// Reference: in-order processing; non-options are reported in place with character 0; long names match exactly;
// '?' + offending text for unknown options ("-x" for a letter, the whole element for a long option); ':' + option text
// ("-o", "--out") for a missing required value; clusters; attached ("-ofile") and detached ("-o file") values,
// "--name=value" and "--name value" (the next element is taken whatever it looks like); optional values only with '=';
// "--" ends option processing and is not reported.
RefResult reference(const std::vector<std::string>& argv, const std::vector<PoolOpt>& tbl, C20LabelFn labelFn) {
  RefResult R;
  R.clusterLetters.assign(argv.size(), 0);
  R.kindOf.assign(argv.size(), 0);
  R.tookNext.assign(argv.size(), 0);
  bool ended = false;
  size_t i = 1;
  auto lab = [&](const char* l) { if (labelFn) labelFn(l); };
  size_t prevTi = 0;
  while (i < argv.size()) {
    size_t ti = i;
    for (size_t k = R.events.size(); k-- > 0 && R.events[k].tok == 0;) R.events[k].tok = prevTi;   // events of the previous round
    prevTi = ti;
    const std::string& t = argv[i++];
    if (ended) { R.events.push_back({0, t, false}); lab("after_terminator"); continue; }
    if (t == "--") { ended = true; lab("terminator"); continue; }
    if (t.size() > 2 && t[0] == '-' && t[1] == '-') {
      size_t eq = t.find('=', 2);
      bool hasVal = eq != std::string::npos;
      std::string name = t.substr(2, hasVal ? eq - 2 : std::string::npos);
      std::string val = hasVal ? t.substr(eq + 1) : std::string();
      const PoolOpt* o = findLong(tbl, name);
      if (!o) { R.events.push_back({'?', t, false}); lab("unknown_long"); continue; }
      if (!(o->flags & Process::argumentFlag)) {
        if (hasVal) { R.events.push_back({'?', t, true}); R.kindOf[ti] = 2; lab("flag_with_value"); }
        else { R.events.push_back({o->character, "", false}); lab("long_flag"); }
        continue;
      }
      if (hasVal) { R.events.push_back({o->character, val, false}); R.kindOf[ti] = 1; lab(o->flags & Process::optionalFlag ? "optional_with_value" : "long_eq_value"); continue; }
      if (o->flags & Process::optionalFlag) { R.events.push_back({o->character, "", false}); lab("optional_without_value"); continue; }
      if (i < argv.size()) {
        if (!argv[i].empty() && argv[i][0] == '-') lab("value_starts_with_dash");
        R.events.push_back({o->character, argv[i++], false}); R.kindOf[ti] = 1; R.tookNext[ti] = 1; lab("long_separate_value");
      }
      else { R.events.push_back({':', "--" + name, false}); lab("missing_long"); }
      continue;
    }
    if (t.size() > 1 && t[0] == '-') {
      for (size_t k = 1; k < t.size(); ++k) {
        int c = (int)(signed char)t[k];
        ++R.clusterLetters[ti];
        const PoolOpt* o = findShort(tbl, c);
        if (!o) { R.events.push_back({'?', std::string("-") + t[k], false}); lab("unknown_short"); continue; }
        if (!(o->flags & Process::argumentFlag)) { R.events.push_back({c, "", false}); continue; }
        if (k + 1 < t.size()) { R.events.push_back({c, t.substr(k + 1), false}); R.kindOf[ti] = 1; lab("short_attached_value"); }
        else if (i < argv.size()) {
          if (!argv[i].empty() && argv[i][0] == '-') lab("value_starts_with_dash");
          R.events.push_back({c, argv[i++], false}); R.kindOf[ti] = 1; R.tookNext[ti] = 1; lab("short_detached_value");
        }
        else { R.events.push_back({':', std::string("-") + t[k], false}); lab("missing_short"); }
        break;
      }
      continue;
    }
    if (t.empty()) lab("empty_token"); else if (t == "-") lab("lone_dash"); else lab("non_option");
    R.events.push_back({0, t, false});
  }
  for (size_t k = R.events.size(); k-- > 0 && R.events[k].tok == 0;) R.events[k].tok = prevTi;
  return R;
}

std::string show(int ch, const std::string& a) {
  char b[64];
  if (ch > 32 && ch < 127) snprintf(b, sizeof b, "('%c',", ch); else snprintf(b, sizeof b, "(%d,", ch);
  std::string s = b; s += '"';
  for (unsigned char c : a) { if (c >= 32 && c < 127) s += (char)c; else { snprintf(b, sizeof b, "\\x%02x", c); s += b; } }
  s += "\")";
  return s;
}

template <usize N> Process::Arguments* mk(int argc, char** argv, const Process::Option* tbl) {
  return new Process::Arguments(argc, argv, *reinterpret_cast<const Process::Option(*)[N]>(tbl));
}
Process::Arguments* mkArgs(size_t n, int argc, char** argv, const Process::Option* tbl) {
  switch (n) {
    case 1: return mk<1>(argc, argv, tbl); case 2: return mk<2>(argc, argv, tbl); case 3: return mk<3>(argc, argv, tbl); case 4: return mk<4>(argc, argv, tbl);
    case 5: return mk<5>(argc, argv, tbl); case 6: return mk<6>(argc, argv, tbl); case 7: return mk<7>(argc, argv, tbl); case 8: return mk<8>(argc, argv, tbl); default: return mk<9>(argc, argv, tbl);
  }
}
}  // namespace
