// Helpers for harnesses that run under vsched: every schedule runs in a forked child (fresh libnstd globals, a
// deadlocked or crashed case is simply reaped); the child reports through a pipe.
#pragma once
#include "pbt.hpp"
#include "vsched.hpp"
#include <sys/wait.h>
#include <poll.h>
#include <signal.h>
#include <functional>
#include <execinfo.h>

namespace vs {

struct Result {
  int status = 0;              // 0 ok, 1 failure, 2 inconclusive (step bound / wall clock)
  std::string kind, detail;
  std::vector<std::string> labels;
  long decisions = 0, switches = 0, spurious = 0, timeouts = 0, eintr = 0, maxThreads = 0, preemptions = 0, interleaved = 0;
};

static int g_pipe = -1;
static std::string* g_childLabels = nullptr;

// tools/coverage.py builds with -DVERIF_COVERAGE: children leave through _exit(), which skips the profile runtime's atexit writer
#ifdef VERIF_COVERAGE
extern "C" int __llvm_profile_write_file(void);
inline void covFlush() { __llvm_profile_write_file(); }
#else
inline void covFlush() {}
#endif
inline void childWrite(const std::string& s) { size_t o = 0; while (o < s.size()) { ssize_t k = write(g_pipe, s.data() + o, s.size() - o); if (k <= 0) break; o += (size_t)k; } }
inline void childLabel(const char* l) { if (g_childLabels) { pbt::LedgerPause lp; *g_childLabels += "L "; *g_childLabels += l; *g_childLabels += "\n"; } }
inline void childFail(const char* kind, const char* detail) {
  std::string m = std::string("F ") + kind + "\nD " + detail + "\n";
  childWrite(m);
  _exit(1);
}
// Harnesses whose programs may legitimately end with blocked threads (a wait nobody answers) install a judge: it is called on
// a deadlock verdict and returns true (with kind / message) if the blocked state violates the property, false if it is an
// acceptable quiescent end of the run.
static bool (*g_deadlockJudge)(const char* detail, std::string& kind, std::string& msg) = nullptr;
inline void onVerdict(vsched::Verdict v, const char* detail) {
  if (v == vsched::V_DEADLOCK && g_deadlockJudge) {
    std::string kind, msg;
    if (g_deadlockJudge(detail, kind, msg)) childFail(kind.c_str(), (msg + " | " + detail).c_str());
    const vsched::Stats& st = vsched::stats();
    char b[256]; snprintf(b, sizeof b, "L quiescent_end\nS %ld %ld %ld %ld %ld %ld %ld %ld\nO\n", st.decisions, st.switches, st.spurious, st.timeoutsFired, st.eintr, st.maxThreads, st.preemptions, st.interleavedShared);
    childWrite((g_childLabels ? *g_childLabels : std::string()) + b);
    covFlush();
    _exit(0);
  }
  if (v == vsched::V_DEADLOCK) childFail("deadlock", detail);
  std::string m = std::string("I step-bound\nD ") + detail + "\n"; childWrite(m); _exit(2);
}

// Ends the child from inside the body although other logical threads still exist (e.g. the workers of a pool that this build of
// the harness cannot tear down): reports the statistics and success, skips the leak check.
[[noreturn]] inline void finishNow() {
  pbt::g_ledger.on = 0;
  if (void* bad = pbt::g_ledger.damaged()) { char d[96]; snprintf(d, sizeof d, "freed block %p was written after its release", bad); childFail("write-after-free", d); }
  const vsched::Stats& st = vsched::stats();
  char b[256]; snprintf(b, sizeof b, "S %ld %ld %ld %ld %ld %ld %ld %ld\nO\n", st.decisions, st.switches, st.spurious, st.timeoutsFired, st.eintr, st.maxThreads, st.preemptions, st.interleavedShared);
  childWrite((g_childLabels ? *g_childLabels : std::string()) + b);
  covFlush();
  _exit(0);
}

// body runs as logical thread 0 under the scheduler; check() runs afterwards (single threaded, still in the child)
inline Result runForked(const vsched::Config& cfg, const std::function<void()>& body, const std::function<void()>& check, int timeoutMs = 8000) {
  Result r;
  int fds[2]; if (pipe(fds) != 0) { r.status = 2; r.kind = "pipe"; return r; }
  fflush(stdout); fflush(stderr);
  pid_t pid = fork();
  if (pid == 0) {
    close(fds[0]); g_pipe = fds[1];
    alarm(0);
    int sigs[] = {SIGALRM, SIGSEGV, SIGABRT, SIGBUS, SIGILL, SIGFPE, SIGTRAP}; for (int s : sigs) signal(s, SIG_DFL);
    if (getenv("VS_BACKTRACE")) {   // triage aid: raw return addresses of the crashing thread on stderr (resolve with addr2line -e <binary> -f -C)
      struct Bt { static void h(int sig) { void* a[48]; int n = backtrace(a, 48); backtrace_symbols_fd(a, n, 2); signal(sig, SIG_DFL); raise(sig); } };
      signal(SIGSEGV, Bt::h); signal(SIGBUS, Bt::h); signal(SIGILL, Bt::h);
    }
    std::string labels; g_childLabels = &labels;
    pbt::g_failHook = childFail;
    pbt::g_ledger.reset(); pbt::g_ledger.quarantine = true; pbt::g_ledger.on = 1; pbt::g_ledger.limitBytes = 64u << 20;
    struct Tr { static void go(void* p) { (*(const std::function<void()>*)p)(); } };
    vsched::run(cfg, Tr::go, (void*)&body, onVerdict);
    pbt::g_ledger.on = 0;
    if (check) check();
    if (void* bad = pbt::g_ledger.damaged()) { char d[96]; snprintf(d, sizeof d, "freed block %p was written after its release", bad); childFail("write-after-free", d); }
    if (pbt::g_ledger.live) { char d[128]; snprintf(d, sizeof d, "%zu blocks (%zu bytes) allocated during the run were never released", pbt::g_ledger.live, pbt::g_ledger.liveBytes); childFail("leak", d); }
    const vsched::Stats& st = vsched::stats();
    char b[256]; snprintf(b, sizeof b, "S %ld %ld %ld %ld %ld %ld %ld %ld\nO\n", st.decisions, st.switches, st.spurious, st.timeoutsFired, st.eintr, st.maxThreads, st.preemptions, st.interleavedShared);
    childWrite(labels + b);
    covFlush();
    _exit(0);
  }
  close(fds[1]);
  std::string out; char buf[4096];
  int waited = 0; bool timedOut = false;
  for (;;) {
    struct pollfd pf = {fds[0], POLLIN, 0};
    int pr = poll(&pf, 1, 200);
    if (pr > 0) { ssize_t k = read(fds[0], buf, sizeof buf); if (k <= 0) break; out.append(buf, (size_t)k); }
    else { waited += 200; if (waited >= timeoutMs) { timedOut = true; kill(pid, SIGKILL); break; } }
  }
  close(fds[0]);
  int wst = 0; waitpid(pid, &wst, 0);
  bool sawOk = false;
  size_t i = 0;
  while (i < out.size()) {
    size_t e = out.find('\n', i); if (e == std::string::npos) e = out.size();
    std::string l = out.substr(i, e - i); i = e + 1;
    if (l.size() < 1) continue;
    if (l[0] == 'L' && l.size() > 2) r.labels.push_back(l.substr(2));
    else if (l[0] == 'F') { r.status = 1; r.kind = l.size() > 2 ? l.substr(2) : "failure"; }
    else if (l[0] == 'I') { r.status = 2; r.kind = l.size() > 2 ? l.substr(2) : "inconclusive"; }
    else if (l[0] == 'D' && l.size() > 2) r.detail = l.substr(2);
    else if (l[0] == 'S') sscanf(l.c_str() + 2, "%ld %ld %ld %ld %ld %ld %ld %ld", &r.decisions, &r.switches, &r.spurious, &r.timeouts, &r.eintr, &r.maxThreads, &r.preemptions, &r.interleaved);
    else if (l[0] == 'O') sawOk = true;
  }
  if (timedOut) { r.status = 2; r.kind = "wall-clock"; r.detail = "child did not finish within the wall-clock limit (a blocking call outside the scheduler?)"; return r; }
  if (r.status == 0 && !sawOk) {
    r.status = 1;
    if (WIFSIGNALED(wst)) { char b[64]; snprintf(b, sizeof b, "crash:signal %d", WTERMSIG(wst)); r.kind = b; }
    else { char b[64]; snprintf(b, sizeof b, "crash:exit %d", WEXITSTATUS(wst)); r.kind = b; }
  }
  return r;
}

}  // namespace vs
