// C11: Mutex, Semaphore, Signal, Monitor and Thread keep their contracts under generated interleavings (vsched),
// including spurious condition wake-ups and time-outs that fire at any moment.  One primitive per case, 2-4 logical
// threads; history invariants are evaluated by the harness while it holds the baton.
#define PBT_MAIN
#include "pbt.hpp"
#include "vs_common.hpp"
#include <nstd/Mutex.hpp>
#include <nstd/Semaphore.hpp>
#include <nstd/Signal.hpp>
#include <nstd/Monitor.hpp>
#include <nstd/Thread.hpp>
#include <pthread.h>

const char* pbt_property = "C11";
const char* pbt_part = "sync";
void pbt_warmup() {}

using namespace pbt;

namespace {
const int MAXT = 4;
enum Prim { P_MUTEX = 0, P_SEM, P_SIGNAL, P_MONITOR, P_THREAD };

[[noreturn]] void failC(const char* kind, const std::string& d) { vs::childFail(kind, d.c_str()); }
long long nowMs() { return vsched::nowNs() / 1000000; }
const long INF = 1L << 60;

struct Shared {
  int prim = 0; int nt = 2;
  // objects under test (heap allocated once per run, never freed: a blocked run ends with them in use)
  Mutex* mutex = nullptr; Semaphore* sem = nullptr; Signal* sig = nullptr; Monitor* mon = nullptr;
  // --- model / history (plain variables, only touched by the running thread)
  int owner = -1, depth = 0, inside = 0;                    // Mutex
  long semInitial = 0, semSignals = 0, semSuccess = 0;     // Semaphore
  // Signal: call intervals in a logical clock (the real flag changes somewhere inside the call, so the model keeps intervals)
  struct Iv { long start, end; }; Iv sets[64]; int nsets = 0; Iv resets[64]; int nresets = 0; long tick = 1; bool sigSet = false;
  long monOutstanding = 0, monSetsTotal = 0, monSuccess = 0, monInWait = 0;                 // Monitor
  int blockedIn[MAXT] = {0, 0, 0, 0};                       // 0 none, 1 untimed wait in progress
  bool ownMutexes = false;                                  // Mutex cases only: no shared object, every thread constructs and uses its own
  bool threadDone[8] = {false, false, false, false, false, false, false, false};
} G;

struct Prog { std::vector<const Op*> ops; int tid; };
// Signal: may a wait that started at wStart (and returns now) have seen the signal set?  Yes iff some set S (the initial state
// counts as a set before time 0) is not certainly cancelled, i.e. there is no reset R that began after S ended and ended
// before the wait started.
bool signalMayBeSet(long wStart) {
  for (int i = 0; i < G.nsets; ++i) {
    bool cancelled = false;
    for (int j = 0; j < G.nresets; ++j) if (G.resets[j].start > G.sets[i].end && G.resets[j].end < wStart) cancelled = true;
    if (!cancelled) return true;
  }
  return false;
}
// Signal: is it certainly set now (some completed set that no reset can have followed)?
bool signalCertainlySet() {
  for (int i = 0; i < G.nsets; ++i) {
    if (G.sets[i].end == INF) continue;
    bool maybeReset = false;
    for (int j = 0; j < G.nresets; ++j) if (G.resets[j].end > G.sets[i].start) maybeReset = true;
    if (!maybeReset) return true;
  }
  return false;
}

// ---- thread functions for the Thread primitive
struct ThreadArg { bool done; int points; unsigned result; };
uint threadProc(void* p) { ThreadArg* a = (ThreadArg*)p; for (int i = 0; i < a->points; ++i) vsched::point("thread body"); a->done = true; return a->result; }
struct Worker { ThreadArg a; uint run() { for (int i = 0; i < a.points; ++i) vsched::point("member body"); a.done = true; return a.result; } };

void runProg(Prog& pr) {
  int me = pr.tid; int myDepth = 0;
  if (G.ownMutexes) {
    // every thread constructs a Mutex of its own - the first mutexes of this process, constructed concurrently - and uses it
    // re-entrantly: construction must not depend on what other threads construct at the same moment
    vsched::point("own mutex");
    Mutex* mine = new Mutex;
    for (int round = 0; round < 2; ++round) {
      mine->lock();
      if (!mine->tryLock()) { char d[160]; snprintf(d, sizeof d, "tryLock of thread %d on its own, already locked Mutex failed (the Mutex is not re-entrant for its owner)", me); failC("mutex:trylock-failed-when-free", d); }
      mine->lock();
      mine->unlock(); mine->unlock(); mine->unlock();
      vsched::point("own mutex");
    }
    delete mine;
    vs::childLabel("mutexes_constructed_concurrently");
    return;
  }
  for (const Op* op : pr.ops) {
    int what = (int)(((op->a[1] % 6) + 6) % 6); long arg = op->a[2] < 0 ? -op->a[2] : op->a[2]; int points = (int)(op->a[3] % 3);
    vsched::point("op");
    switch (G.prim) {
      case P_MUTEX: {
        if (what <= 1) {  // lock (nest up to 3)
          if (myDepth >= 3) break;
          G.mutex->lock();
          if (G.owner != -1 && G.owner != me) { char d[160]; snprintf(d, sizeof d, "thread %d acquired the mutex while thread %d holds it (depth %d)", me, G.owner, G.depth); failC("mutex:two-owners", d); }
          G.owner = me; ++G.depth; ++myDepth;
          if (myDepth >= 2) vs::childLabel("nested_lock");
          for (int i = 0; i < points; ++i) { vsched::point("critical section"); if (G.owner != me) failC("mutex:two-owners", "another thread entered the critical section"); }
        } else if (what == 2) {  // tryLock
          bool ok = G.mutex->tryLock();
          if (ok) { if (G.owner != -1 && G.owner != me) failC("mutex:trylock-while-owned", "tryLock succeeded although another thread holds the mutex"); G.owner = me; ++G.depth; ++myDepth; vs::childLabel("trylock_success"); }
          else { if (G.owner == -1 || G.owner == me) { char d[160]; snprintf(d, sizeof d, "tryLock of thread %d failed although the mutex is %s", me, G.owner == me ? "held by that thread (re-entrant)" : "free"); failC("mutex:trylock-failed-when-free", d); } vs::childLabel("trylock_busy"); }
        } else {  // unlock
          if (myDepth == 0) break;
          --myDepth; if (--G.depth == 0) G.owner = -1;
          G.mutex->unlock();
        }
        break;
      }
      case P_SEM: {
        if (what <= 1) { ++G.semSignals; G.sem->signal(); }
        else if (what == 2) { G.blockedIn[me] = 1; bool ok = G.sem->wait(); G.blockedIn[me] = 0; if (ok) { ++G.semSuccess; if (G.semSuccess > G.semInitial + G.semSignals) failC("semaphore:count", "more successful waits than initial value plus signals"); } }
        else if (what == 3 || what == 4) {
          long long t0 = nowMs(); long long timeout = 1 + arg % 3000;
          if (arg % 13 == 7) { timeout = (arg & 1) ? 0x7fffffffffffffffLL : 10000000000000LL; vs::childLabel("practically_infinite_timeout"); }
          else if (arg % 5 == 2) { long long ms = nowMs() % 1000; long long comp = 1000 - ms - (arg & 1); if (comp >= 1 && comp <= 999) { timeout = comp; vs::childLabel("timeout_complementing_the_clock"); } }   // now + time-out = a whole second   // behaves like an untimed wait
          G.blockedIn[me] = timeout > 100000000 ? 1 : 0;
          bool ok = G.sem->wait((int64)timeout);
          G.blockedIn[me] = 0;
          if (ok) { ++G.semSuccess; if (G.semSuccess > G.semInitial + G.semSignals) failC("semaphore:count", "more successful waits than initial value plus signals"); vs::childLabel("timed_wait_success"); }
          else { long long el = nowMs() - t0; if (el < timeout) { char d[160]; snprintf(d, sizeof d, "wait(%lld ms) returned false after %lld ms of virtual time", timeout, el); failC("semaphore:early-timeout", d); } vs::childLabel("timed_wait_timeout"); }
        } else { bool ok = G.sem->tryWait(); if (ok) { ++G.semSuccess; if (G.semSuccess > G.semInitial + G.semSignals) failC("semaphore:count", "tryWait succeeded without a count"); } }
        break;
      }
      case P_SIGNAL: {
        if (what == 0) { if (G.nsets < 63) { int k = G.nsets++; G.sets[k].start = G.tick++; G.sets[k].end = INF; G.sig->set(); G.sets[k].end = G.tick++; } }
        else if (what == 1) { if (G.nresets < 63) { int k = G.nresets++; G.resets[k].start = G.tick++; G.resets[k].end = INF; G.sig->reset(); G.resets[k].end = G.tick++; if (G.nsets > 1) vs::childLabel("reset_after_set"); } }
        else if (what == 2 || what == 5) {
          long w0 = G.tick++;
          G.blockedIn[me] = 1; bool ok = G.sig->wait(); G.blockedIn[me] = 0;
          if (!ok) failC("signal:wait-false", "untimed wait returned false");
          if (!signalMayBeSet(w0)) failC("signal:wait-without-set", "wait returned true although the signal was not set since its last reset");
        } else {
          long w0 = G.tick++; long long t0 = nowMs(); long long timeout = 1 + arg % 3000;
          if (arg % 13 == 7) { timeout = (arg & 1) ? 0x7fffffffffffffffLL : 10000000000000LL; vs::childLabel("practically_infinite_timeout"); }
          else if (arg % 5 == 2) { long long ms = nowMs() % 1000; long long comp = 1000 - ms - (arg & 1); if (comp >= 1 && comp <= 999) { timeout = comp; vs::childLabel("timeout_complementing_the_clock"); } }   // now + time-out = a whole second
          G.blockedIn[me] = timeout > 100000000 ? 1 : 0;
          bool ok = G.sig->wait((int64)timeout);
          G.blockedIn[me] = 0;
          if (ok) { if (!signalMayBeSet(w0)) failC("signal:wait-without-set", "timed wait returned true although the signal was not set since its last reset"); }
          else { long long el = nowMs() - t0; if (el < timeout) { char d[160]; snprintf(d, sizeof d, "wait(%lld ms) returned false after %lld ms of virtual time", timeout, el); failC("signal:early-timeout", d); } vs::childLabel("timed_wait_timeout"); }
        }
        break;
      }
      case P_MONITOR: {
        if (what <= 1) {  // guard + wait (timed for what == 1)
          G.mon->lock();
          if (what == 0) ++G.monInWait;   // from here on a set() can only take the monitor after this thread waits (untimed waiters only: a timed waiter may time out just before the set)
          bool ok;
          if (what == 0) { G.blockedIn[me] = 1; ok = G.mon->wait(); G.blockedIn[me] = 0; if (!ok) failC("monitor:wait-false", "untimed wait returned false"); }
          else { long long t0 = nowMs(); long long timeout = 1 + arg % 3000;
            if (arg % 13 == 7) { timeout = (arg & 1) ? 0x7fffffffffffffffLL : 10000000000000LL; vs::childLabel("practically_infinite_timeout"); }
          else if (arg % 5 == 2) { long long ms = nowMs() % 1000; long long comp = 1000 - ms - (arg & 1); if (comp >= 1 && comp <= 999) { timeout = comp; vs::childLabel("timeout_complementing_the_clock"); } }   // now + time-out = a whole second
            G.blockedIn[me] = timeout > 100000000 ? 1 : 0; ok = G.mon->wait((int64)timeout); G.blockedIn[me] = 0; if (!ok) { long long el = nowMs() - t0; if (el < timeout) { char d[160]; snprintf(d, sizeof d, "wait(%lld ms) returned false after %lld ms of virtual time", timeout, el); failC("monitor:early-timeout", d); } vs::childLabel("timed_wait_timeout"); } }
          if (what == 0) --G.monInWait;
          if (ok) { ++G.monSuccess; if (G.monOutstanding > 0) --G.monOutstanding; if (G.monSuccess > G.monSetsTotal) failC("monitor:more-waits-than-sets", "successful waits outnumber set() calls"); }
          G.mon->unlock();
        } else if (what == 2 || what == 3) { if (G.monInWait > 0 && G.monOutstanding == 0) { ++G.monOutstanding; vs::childLabel("set_with_waiter_present"); }  /* the flag is binary: a set issued while an earlier one is still unconsumed merges with it */ ++G.monSetsTotal; G.mon->set(); }
        else if (what == 4) { if (G.mon->tryLock()) { for (int i = 0; i < points; ++i) vsched::point("in monitor"); G.mon->unlock(); } }
        else { Monitor::Guard g(*G.mon); for (int i = 0; i < points; ++i) vsched::point("in monitor"); }
        break;
      }
      default: {  // P_THREAD: start a thread (function or member), join it, compare the result
        unsigned want = (unsigned)(arg * 7 + 3);
        Thread t;
        ThreadArg a{false, points + (int)(arg % 2), want}; Worker w; w.a = a;
        if (arg % 11 == 5) {
          // the system cannot create a thread right now (EAGAIN): start() reports that, and the same Thread object starts fine afterwards
          vsched::failNextThreadCreations(1);
          bool ok0 = (what & 1) ? t.start(w, &Worker::run) : t.start(&threadProc, &a);
          vsched::failNextThreadCreations(0);
          if (ok0) failC("thread:start-true-without-thread", "Thread::start returned true although no thread could be created");
          vs::childLabel("thread_creation_failed_once");
        }
        bool ok = (what & 1) ? t.start(w, &Worker::run) : t.start(&threadProc, &a);
        if (!ok) failC("thread:start-failed", "Thread::start returned false");
        if (what >= 4) vsched::point("between start and join");
        uint r = t.join();
        if (!((what & 1) ? w.a.done : a.done)) failC("thread:join-before-end", "join returned before the thread function finished");
        if (r != want) { char d[128]; snprintf(d, sizeof d, "join returned %u, the thread function returned %u", r, want); failC("thread:wrong-result", d); }
        break;
      }
    }
  }
  // leave the mutex unlocked at the end of the program
  if (G.prim == P_MUTEX) while (myDepth > 0) { --myDepth; if (--G.depth == 0) G.owner = -1; G.mutex->unlock(); }
}
void* progMain(void* p) { runProg(*(Prog*)p); return nullptr; }

// called on a deadlock verdict: is the blocked state a violation?
bool judge(const char*, std::string& kind, std::string& msg) {
  bool anyBlocked = false; for (int t = 0; t < MAXT; ++t) if (G.blockedIn[t]) anyBlocked = true;
  switch (G.prim) {
    case P_MUTEX: kind = "mutex:deadlock"; msg = "threads are blocked on the mutex although every program unlocks what it locks (a re-entrant lock blocked, or an unlock was lost)"; return true;
    case P_SEM: if (anyBlocked && G.semInitial + G.semSignals - G.semSuccess > 0) { kind = "semaphore:waiter-blocked-with-count"; msg = "a thread stays blocked in wait() although the count is positive"; return true; } return false;
    case P_SIGNAL: if (anyBlocked && signalCertainlySet()) { kind = "signal:waiter-blocked-while-set"; msg = "a thread stays blocked in wait() although the signal is set"; return true; } return false;
    case P_MONITOR: if (anyBlocked && G.monOutstanding > 0) { kind = "monitor:set-released-nobody"; msg = "a set() issued after a waiter had taken the monitor released no waiter"; return true; } return false;
    default: kind = "thread:deadlock"; msg = "start / join blocked"; return true;
  }
}
}  // namespace

void pbt_generate(Rng& r, int size, Case& c) {
  int nt = 2 + (int)r.below(3);
  c.params["prim"] = (long)r.below(5); c.params["threads"] = nt; c.params["initial"] = (long)r.below(3);
  c.params["strategy"] = (long)r.below(4); c.params["sched"] = (long)r.below(1000000); c.params["nsched"] = 10;
  if (c.params["prim"] == 0 && r.chance(15)) c.params["ownmutex"] = 1;
  int n = 2 + (int)r.below((uint64_t)std::min(size, 8 * nt) + 1);
  for (int k = 0; k < n; ++k) c.add("op", (long)r.below((uint64_t)nt), (long)r.below(6), (long)r.below(5000), (long)r.below(3));
}

bool pbt_nontrivial(const Ctx& ctx) { return ctx.has("interleaved_inside_primitive") || ctx.has("timeout_or_spurious_event"); }

void pbt_run(const Case& cs, Ctx& ctx) {
  int prim = (int)(((cs.param("prim", 0) % 5) + 5) % 5), nt = (int)std::max(2L, std::min<long>(MAXT, cs.param("threads", 2)));
  long nsched = ctx.replay ? 60 : std::max(1L, std::min(64L, cs.param("nsched", 10)));
  static const char* PN[] = {"prim_Mutex", "prim_Semaphore", "prim_Signal", "prim_Monitor", "prim_Thread"};
  ctx.label(PN[prim]);
  std::vector<Prog> progs((size_t)nt);
  for (int t = 0; t < nt; ++t) progs[(size_t)t].tid = t;
  for (const Op& op : cs.ops) if (op.name == "op") progs[(size_t)(((op.a[0] % nt) + nt) % nt)].ops.push_back(&op);
  for (long s = 0; s < nsched; ++s) {
    vsched::Config cfg; cfg.seed = (uint64_t)cs.param("sched", 1) * 1000003ull + (uint64_t)s; cfg.strategy = (int)((cs.param("strategy", 0) + s) % 4); cfg.stepBound = 100000;
    cfg.spuriousPercent = 10; cfg.earlyTimeoutPercent = 20;
    auto body = [&]() {
      G = Shared(); G.prim = prim; G.nt = nt; G.semInitial = cs.param("initial", 0) % 3; G.sigSet = (cs.param("initial", 0) & 1) != 0; if (G.sigSet) { G.sets[0].start = -2; G.sets[0].end = -1; G.nsets = 1; }
      { LedgerPause lp;  // the objects under test stay alive when the run ends with blocked threads
        G.ownMutexes = prim == P_MUTEX && cs.param("ownmutex", 0) != 0;
        if (prim == P_MUTEX) { if (!G.ownMutexes) G.mutex = new Mutex; } else if (prim == P_SEM) G.sem = new Semaphore((uint)G.semInitial); else if (prim == P_SIGNAL) G.sig = new Signal(G.sigSet); else if (prim == P_MONITOR) G.mon = new Monitor; }
      vs::g_deadlockJudge = judge;
      pthread_t th[MAXT];
      for (int t = 1; t < nt; ++t) pthread_create(&th[t], nullptr, progMain, &progs[(size_t)t]);
      runProg(progs[0]);
      for (int t = 1; t < nt; ++t) pthread_join(th[t], nullptr);
      if (G.prim == P_SEM && G.semSuccess > G.semInitial + G.semSignals) failC("semaphore:count", "more successful waits than initial value plus signals");
      { LedgerPause lp; delete G.mutex; delete G.sem; delete G.sig; delete G.mon; }
    };
    vs::Result r = vs::runForked(cfg, body, nullptr);
    ctx.count("schedules"); ctx.count("decisions", (uint64_t)r.decisions); ctx.count("context_switches", (uint64_t)r.switches);
    for (auto& l : r.labels) ctx.label(l.c_str());
    if (r.switches >= 3 && r.interleaved > 0) ctx.label("interleaved_inside_primitive");
    if (r.spurious > 0 || r.timeouts > 0 || r.eintr > 0) ctx.label("timeout_or_spurious_event");
    if (r.spurious > 0) ctx.label("spurious_wakeup"); if (r.eintr > 0) ctx.label("eintr");
    if (r.status == 1) { char d[900]; snprintf(d, sizeof d, "schedule %ld (seed %llu, strategy %d): %s", s, (unsigned long long)cfg.seed, cfg.strategy, r.detail.c_str()); ctx.fail(r.kind, d); }
    if (r.status == 2) ctx.count(std::string("inconclusive:" + r.kind).c_str());
  }
}
