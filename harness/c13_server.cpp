// C13: Server clients deliver written bytes completely and in order, however send() splits, delays or refuses them.
// Clients are Server::pair()ed socket pairs; the harness keeps the peer ends, owns send() (fault script), the clock and
// runs its actions from a 1 ms driver timer inside Server::run() or between runs.
#define PBT_MAIN
#include "pbt.hpp"
#include "srv_common.hpp"
#include <nstd/Socket/Server.hpp>
#include <nstd/Socket/Socket.hpp>
#include <fcntl.h>
#include <poll.h>
#include <netinet/in.h>
#include <arpa/inet.h>
#include <unistd.h>

const char* pbt_property = "C13";
const char* pbt_part = "server";

using namespace pbt;

namespace {
const int NC = 3;
inline unsigned char pat(int client, long long off) { uint64_t z = (uint64_t)off * 0x9E3779B97F4A7C15ull + (uint64_t)client * 0xBF58476D1CE4E5B9ull; z ^= z >> 29; return (unsigned char)(z * 0x94D049BB133111EBull >> 56); }

struct H;
struct ClientCb : public Server::Client::ICallback {
  H* h; int id;
  void onRead() override; void onWrite() override; void onClosed() override;
};
struct DriverCb : public Server::Timer::ICallback { H* h; void onActivated() override; };
struct ListenerCb : public Server::Listener::ICallback { H* h; Server::Client::ICallback* onAccepted(Server::Client& client, uint32 ip, uint16 port) override; };

struct CModel {
  Server::Client* cl = nullptr; Socket* peer = nullptr; int fd = -1, peerFd = -1;
  long long accepted = 0;        // bytes of writes that returned true
  long long peerGot = 0;         // bytes the peer has read and verified
  long long toServer = 0, serverGot = 0;  // peer -> server direction
  bool suspended = false; bool closed = false;
  long onWriteSeen = 0, drains = 0; bool backlogWasPositive = false;
  long onReadWhileSuspended = 0;
  int readBudget = 0;            // bytes the next onRead callbacks may read (0 = leave it unread)
  long writeInCallback[2] = {0, 0};  // size of the write that the next onWrite / onRead callback performs itself
  bool suspendInCallback[2] = {false, false};  // the next onWrite / onRead callback suspends the client
  bool closedByServer = false;
};

struct H {
  Ctx* ctx; const Case* cs; Server* srvp; CModel c[NC]; ClientCb cb[NC]; DriverCb drv; Server::Timer* drvTimer = nullptr;
  ListenerCb lcb; Server::Listener* listener = nullptr; long greet = 0; bool acceptedSeen = false;
  int realWaits = 0;
  size_t nextOp = 0; std::vector<const Op*> ops; bool inRun = false; int quiet = 0; bool draining = false; long ticks = 0;
  long backlog(int i) { return (long)(c[i].accepted - srv::st().watched[c[i].fd].taken); }
  void fail(const char* kind, const std::string& d) { srv::st().active = false; ctx->fail(kind, d); }

  void checkBacklog(int i, const char* when) {
    if (c[i].closed || !c[i].cl) return;
    long b = backlog(i); long rep = (long)c[i].cl->getSendBufferSize();
    if (b < 0) { char d[200]; snprintf(d, sizeof d, "%s: client %d handed %lld bytes to the system but only %lld were accepted (duplicated data)", when, i, srv::st().watched[c[i].fd].taken, c[i].accepted); fail("stream:duplicated", d); }
    if (rep != b) { char d[200]; snprintf(d, sizeof d, "%s: client %d getSendBufferSize() = %ld, accepted - handed to the system = %ld", when, i, rep, b); fail("backlog:size", d); }
    if (b > 0) c[i].backlogWasPositive = true;
  }
  void peerRead(int i, long want) {
    unsigned char buf[4096];
    while (want > 0) {
      ssize_t r = recv(c[i].peerFd, buf, (size_t)std::min<long>(want, (long)sizeof buf), MSG_DONTWAIT);
      if (r <= 0) break;
      for (ssize_t k = 0; k < r; ++k) if (buf[k] != pat(i, c[i].peerGot + k)) { char d[200]; snprintf(d, sizeof d, "peer of client %d: byte %lld of the stream is %02x, expected %02x (lost, duplicated or reordered data)", i, c[i].peerGot + k, buf[k], pat(i, c[i].peerGot + k)); fail("stream:corrupt", d); }
      c[i].peerGot += r; want -= r;
      if (c[i].peerGot > c[i].accepted) fail("stream:more-than-accepted", "the peer received more bytes than were accepted");
    }
  }
  void doWrite(int i, long len, const char* when) {
    CModel& m = c[i];
    std::vector<unsigned char> data((size_t)len);
    for (long k = 0; k < len; ++k) data[(size_t)k] = pat(i, m.accepted + k);
    usize postponed = 12345; long before = backlog(i);
    bool ok = m.cl->write(data.data(), (usize)len, &postponed);
    if (!ok) { m.closed = true; m.closedByServer = true; ctx->label("write_failed"); return; }
    m.accepted += len;
    long b = backlog(i);
    if ((long)postponed != b) { char d[200]; snprintf(d, sizeof d, "write(%ld) on client %d reported postponed = %ld, accepted - handed to the system = %ld", len, i, (long)postponed, b); fail("backlog:postponed", d); }
    if (before > 0) ctx->label("write_while_backlog"); if (b > 0) ctx->label("backlog_created");
    checkBacklog(i, when);
  }
  void doOp(const Op& op) {
    int i = (int)(((op.a[0] % NC) + NC) % NC); long n = op.a[1] < 0 ? -op.a[1] : op.a[1];
    const std::string& nm = op.name; CModel& m = c[i];
    if (m.closed || !m.cl) { ctx->count("skipped"); return; }   // (closed, or the connection that is still to be accepted)
    if (nm == "write") doWrite(i, 1 + n % 5000, "after write");
    else if (nm == "hugewrite") { doWrite(i, 65537 + n % 140000, "after a write of more than 64 KiB"); ctx->label("write>64KiB"); }   // (an implementation may hand such data over in pieces)
    else if (nm == "write0") {
      // a write of no bytes while a backlog exists: nothing is added, the reported postponed size is still the backlog
      // (without a backlog a zero-byte send() is indistinguishable from a closed connection: not generated)
      long b0 = backlog(i);
      if (b0 > 0) {
        unsigned char z = 0; usize postponed = 12345;
        if (m.cl->write(&z, 0, &postponed)) { if ((long)postponed != b0) { char d[200]; snprintf(d, sizeof d, "write of 0 bytes on client %d reported postponed = %ld, accepted - handed to the system = %ld", i, (long)postponed, b0); fail("backlog:postponed", d); } ctx->label("zero_size_write_with_backlog"); checkBacklog(i, "after a write of 0 bytes"); }
        else { m.closed = true; m.closedByServer = true; }
      } else ctx->count("skipped");
    }
    else if (nm == "wincb") { m.writeInCallback[op.a[2] & 1] = 1 + n % 5000; }
    else if (nm == "sincb") { m.suspendInCallback[op.a[2] & 1] = true; }   // the next onWrite (0) / onRead (1) callback of this client suspends it   // the next onWrite (0) / onRead (1) callback of this client writes
    else if (nm == "suspend") { m.cl->suspend(); m.suspended = true; if (!m.cl->isSuspended()) fail("suspend:flag", "isSuspended() is false after suspend()"); ctx->label("suspend"); }
    else if (nm == "resume") { m.cl->resume(); m.suspended = false; if (m.cl->isSuspended()) fail("suspend:flag", "isSuspended() is true after resume()"); }
    else if (nm == "peerread") { peerRead(i, 1 + n % 6000); if (backlog(i) > 0) ctx->label("peer_reads_with_backlog"); }
    else if (nm == "peerdrain") { peerRead(i, 1 << 30); }
    else if (nm == "peerwrite") {
      long len = 1 + n % 300; std::vector<unsigned char> data((size_t)len); for (long k = 0; k < len; ++k) data[(size_t)k] = pat(i + 10, m.toServer + k);
      ssize_t r = __real_send(m.peerFd, data.data(), (size_t)len, MSG_DONTWAIT | MSG_NOSIGNAL); if (r > 0) m.toServer += r;
      m.readBudget += (int)(op.a[2] % 400);
    }
    else if (nm == "query") { checkBacklog(i, "query"); if (m.cl->isSuspended() != m.suspended) fail("suspend:flag", "isSuspended() differs from the model"); }
    else if (nm == "leave") { if (inRun) { srvp->interrupt(); ctx->label("act_between_runs"); } }
    else ctx->count("unknown_op");
  }
  // driver tick: a few actions per millisecond, then drain mode, then interrupt
  void tick() {
    ++ticks;
    int burst = 1 + (int)(ticks % 3);
    while (burst-- > 0 && nextOp < ops.size()) doOp(*ops[nextOp++]);
    for (int i = 0; i < NC; ++i) checkBacklog(i, "tick");
    if (nextOp >= ops.size()) {
      // drain mode: faults off, peers read everything; suspended clients stay suspended (their backlog must still drain),
      // they are only resumed once their output is complete so that the peer -> server direction can finish as well
      if (!draining) { draining = true; srv::st().faultsOn = false; }
      for (int i = 0; i < NC; ++i) if (!c[i].closed && c[i].cl && c[i].suspended && backlog(i) == 0 && c[i].peerGot == c[i].accepted) { c[i].cl->resume(); c[i].suspended = false; }
      bool allEmpty = true;
      // (TCP hands data over in real time: what the system has taken but the peer has not seen yet is waited for in real time)
      // TCP moves data and acknowledgements in real time, the loop runs in virtual time: while something of the accepted connection
      // is still under way (a backlog waiting for buffer space, i.e. for acknowledgements, or bytes the peer has not seen yet) each
      // tick of the drain phase also waits a little in real time
      for (int i = 0; i < NC; ++i) if (!c[i].closed && c[i].cl && !c[i].peer && (backlog(i) > 0 || c[i].peerGot < c[i].accepted) && realWaits < 700) { struct pollfd pf = {c[i].peerFd, POLLIN, 0}; poll(&pf, 1, 3); ++realWaits; ctx->count("tcp_real_time_wait"); }   // (at most about 2 s per case: far beyond any delayed acknowledgement, and a backlog that the loop has stopped sending must still end the case)
      for (int i = 0; i < NC; ++i) if (!c[i].closed && c[i].cl) { peerRead(i, 1 << 30); c[i].readBudget = 1 << 20; if (backlog(i) > 0 || c[i].peerGot < c[i].accepted || c[i].serverGot < c[i].toServer) allEmpty = false; }
      quiet = allEmpty ? quiet + 1 : 0;
      if (quiet >= 3 || ticks > 6000) srvp->interrupt();
    }
  }
};
void DriverCb::onActivated() { h->tick(); }
void ClientCb::onRead() {
  CModel& m = h->c[id];
  if (m.suspended) { ++m.onReadWhileSuspended; h->fail("suspend:onRead-while-suspended", "onRead was delivered to client " + std::to_string(id) + " between suspend() and resume()"); }
  h->ctx->label("onRead");
  if (m.writeInCallback[1] > 0 && !m.closed) {
    long len = m.writeInCallback[1]; m.writeInCallback[1] = 0;
    h->doWrite(id, len, "after write inside onRead");
    h->ctx->label(h->backlog(id) > 0 ? "write_inside_onRead_creates_backlog" : "write_inside_onRead");
    if (m.closed) return;
  }
  if (m.suspendInCallback[1]) { m.suspendInCallback[1] = false; m.cl->suspend(); m.suspended = true; h->ctx->label("suspend_inside_onRead"); return; }
  if (m.readBudget <= 0) {   // the callback does not read now: suspend to avoid a busy loop, the driver resumes later through its script
    m.cl->suspend(); m.suspended = true; return;
  }
  unsigned char buf[512]; usize got = 0;
  usize want = (usize)std::min<int>(m.readBudget, (int)sizeof buf);
  if (m.cl->read(buf, want, got)) {
    for (usize k = 0; k < got; ++k) if (buf[k] != pat(id + 10, m.serverGot + (long long)k)) h->fail("stream:server-side-corrupt", "bytes read by the client differ from what the peer wrote");
    m.serverGot += (long long)got; m.readBudget -= (int)got;
  }
}
void ClientCb::onWrite() {
  CModel& m = h->c[id];
  long b = h->backlog(id);
  if (b != 0) { char d[160]; snprintf(d, sizeof d, "onWrite delivered to client %d while %ld accepted bytes are not yet handed to the system", id, b); h->fail("onWrite:backlog-not-empty", d); }
  if (!m.backlogWasPositive) h->fail("onWrite:without-backlog", "onWrite delivered although there was no backlog since the last onWrite");
  m.backlogWasPositive = false; ++m.onWriteSeen; h->ctx->label("onWrite_after_drain");
  if (m.writeInCallback[0] > 0 && !m.closed) {
    long len = m.writeInCallback[0]; m.writeInCallback[0] = 0;
    h->doWrite(id, len, "after write inside onWrite");
    h->ctx->label(h->backlog(id) > 0 ? "write_inside_onWrite_creates_backlog" : "write_inside_onWrite");
  }
  if (m.suspendInCallback[0] && !m.closed) { m.suspendInCallback[0] = false; m.cl->suspend(); m.suspended = true; h->ctx->label("suspend_inside_onWrite"); }
}
// nothing fails in these cases (no peer hangs up, send only ever reports would-block or partial counts): a client that the server
// closes nevertheless is judged at the end like every other - all accepted bytes have to arrive
void ClientCb::onClosed() { h->c[id].closed = true; h->c[id].closedByServer = true; h->ctx->label("onClosed"); }
Server::Client::ICallback* ListenerCb::onAccepted(Server::Client& client, uint32, uint16) {
  CModel& m = h->c[NC - 1];
  if (m.cl) return nullptr;   // (only one connection is made)
  m.cl = &client; m.fd = (int)client.getSocket().getFileDescriptor(); h->acceptedSeen = true;
  { LedgerPause lp; srv::st().watched[m.fd] = srv::SendLog(); }
  h->ctx->label("client_accepted_from_listener");
  if (h->greet > 0) {   // the accept callback greets the new connection: the write goes through the same generated send outcomes
    h->doWrite(NC - 1, h->greet, "after write inside onAccepted");
    h->ctx->label(h->backlog(NC - 1) > 0 ? "write_inside_onAccepted_creates_backlog" : "write_inside_onAccepted");
  }
  if (h->cs->param("greetsuspend", 0)) { client.suspend(); m.suspended = true; h->ctx->label("suspend_inside_onAccepted"); }
  return &h->cb[NC - 1];
}
}  // namespace

void pbt_warmup() {}

void pbt_generate(Rng& r, int size, Case& c) {
  int n = 3 + (int)r.below((uint64_t)size + 1);
  c.params["sndbuf"] = r.chance(30) ? (long)(2048 + r.below(8192)) : 0;
  if (r.chance(12)) { c.params["tcp"] = 1; c.params["greet"] = r.chance(70) ? (long)(1 + r.below(5000)) : 0; c.params["greetsuspend"] = r.chance(15) ? 1 : 0; }   // the last client is accepted by a listener
  int shape = (int)r.below(5);   // fault script shapes
  int nf = (int)r.below((uint64_t)size * 2 + 4);
  for (int k = 0; k < nf; ++k) {
    int kind; long v = 1 + (long)r.below(64);
    switch (shape) {
      case 0: kind = (int)r.below(4); break;                           // mixture
      case 1: kind = k < nf / 2 ? 1 : 0; break;                        // all would-block for a while, then full
      case 2: kind = 2; v = 1; break;                                  // one byte partials
      case 3: kind = (k & 1) ? 1 : 0; break;                           // full then would-block
      default: kind = r.chance(60) ? 2 : 3; v = 1 + (long)r.below(2000); break;
    }
    c.add("fault", kind, v);
  }
  static const char* names[] = {"write", "suspend", "resume", "peerread", "peerdrain", "peerwrite", "query", "leave", "wincb", "sincb", "write0", "hugewrite"};
  static const int w[] = {40, 6, 8, 16, 6, 8, 10, 4, 8, 4, 3, 1};
  for (int k = 0; k < n; ++k) { int o = r.weighted(w, 12); c.add(names[o], (long)r.below(NC), (long)r.below(100000), (long)r.below(1000)); }
}

bool pbt_nontrivial(const Ctx& ctx) { return ctx.has("backlog_created") && ctx.has("write_while_backlog") && ctx.has("onWrite_after_drain"); }

void pbt_run(const Case& cs, Ctx& ctx) {
  pbt::g_ledger.limitBytes = 64u << 20;
  srv::reset();
  H h; h.ctx = &ctx; h.cs = &cs;
  for (const Op& op : cs.ops) {
    if (op.name == "fault") { LedgerPause lp; srv::st().faults.push_back(srv::Fault{(int)(((op.a[0] % 4) + 4) % 4), op.a[1] < 1 ? 1 : op.a[1]}); }
    else h.ops.push_back(&op);
  }
  // the virtual clock must be in force before the Server exists: its constructor and time() read the clock, and a timer whose due
  // time was taken from the real clock (milliseconds since boot) lies arbitrarily far in the virtual past or future
  srv::st().active = true;
  Server* server = new Server; h.srvp = server;
  long sndbuf = cs.param("sndbuf", 0); if (sndbuf > 0) server->setSendBufferSize((int)sndbuf);
  bool tcp = cs.param("tcp", 0) != 0; h.greet = cs.param("greet", 0); if (h.greet < 0) h.greet = 0; if (h.greet > 5000) h.greet = 5000;
  for (int i = 0; i < NC; ++i) {
    h.cb[i].h = &h; h.cb[i].id = i;
    if (tcp && i == NC - 1) {
      // the last client comes in through a listener on a loopback port chosen by the system; if the port cannot be had (another
      // worker took it in between) the case falls back to a paired client
      int probe = socket(AF_INET, SOCK_STREAM, 0); sockaddr_in a; memset(&a, 0, sizeof a); a.sin_family = AF_INET; a.sin_addr.s_addr = htonl(INADDR_LOOPBACK); a.sin_port = 0;
      bind(probe, (sockaddr*)&a, sizeof a); socklen_t al = sizeof a; getsockname(probe, (sockaddr*)&a, &al); int port = ntohs(a.sin_port); close(probe);
      server->setNoDelay(true);   // small segments are not held back for an acknowledgement that takes real time to come (the loop runs in virtual time)
      h.lcb.h = &h; h.listener = server->listen(Socket::loopbackAddress, (uint16)port, h.lcb);
      int s = h.listener ? socket(AF_INET, SOCK_STREAM, 0) : -1;
      if (s >= 0) { a.sin_port = htons((uint16_t)port); if (::connect(s, (sockaddr*)&a, sizeof a) != 0) { close(s); s = -1; } }
      if (s >= 0) { h.c[i].peerFd = s; ctx.label("connection_to_listener"); continue; }
      if (h.listener) { server->remove(*h.listener); h.listener = nullptr; }
      server->setNoDelay(false);   // (not available on the local sockets of pair())
      ctx.count("listen_or_connect_failed");
    }
    h.c[i].peer = new Socket;
    h.c[i].cl = server->pair(h.cb[i], *h.c[i].peer);
    if (!h.c[i].cl) ctx.fail("harness", "Server::pair failed");
    h.c[i].fd = (int)h.c[i].cl->getSocket().getFileDescriptor(); h.c[i].peerFd = (int)h.c[i].peer->getFileDescriptor();
    { LedgerPause lp; srv::st().watched[h.c[i].fd] = srv::SendLog(); }
  }
  h.drv.h = &h; h.drvTimer = server->time(1, h.drv);
  srv::st().active = true;
  // run the loop; "leave" ops make run() return, the harness acts once outside and enters again
  int rounds = 0;
  for (;;) {
    h.inRun = true; server->run(); h.inRun = false;
    if (h.nextOp >= h.ops.size() && h.draining && (h.quiet >= 3 || h.ticks > 6000)) break;
    if (++rounds > 5000) ctx.fail("harness", "too many run() rounds");
    if (h.nextOp < h.ops.size()) h.doOp(*h.ops[h.nextOp++]);   // one action between two runs
  }
  srv::st().active = false;
  if (ctx.verbose) for (int i = 0; i < NC; ++i) fprintf(stderr, "end: client %d cl=%p closed=%d accepted=%lld peerGot=%lld toServer=%lld serverGot=%lld suspended=%d ticks=%ld quiet=%d\n", i, (void*)h.c[i].cl, (int)h.c[i].closed, h.c[i].accepted, h.c[i].peerGot, h.c[i].toServer, h.c[i].serverGot, (int)h.c[i].suspended, h.ticks, h.quiet);
  ctx.opIndex = -2;
  for (int i = 0; i < NC; ++i) {
    CModel& m = h.c[i];
    if (!m.cl) { ctx.count("never_accepted"); continue; }
    if (m.closed && !m.closedByServer) continue;
    h.peerRead(i, 1 << 30);
    if (m.closedByServer && m.peerGot != m.accepted) { char d[240]; snprintf(d, sizeof d, "client %d was closed by the server although no operation failed; %lld bytes were accepted, the peer received %lld", i, m.accepted, m.peerGot); ctx.fail("stream:incomplete-closed", d); }
    if (m.closedByServer) continue;
    if (m.peerGot != m.accepted) { char d[200]; snprintf(d, sizeof d, "client %d: %lld bytes were accepted but the peer received %lld after the loop went idle", i, m.accepted, m.peerGot); ctx.fail("stream:incomplete", d); }
    if (m.backlogWasPositive) { char d[160]; snprintf(d, sizeof d, "client %d: the backlog drained but no onWrite was delivered", i); ctx.fail("onWrite:missing", d); }
    srv::SendLog& lg = srv::st().watched[m.fd];
    if (lg.partial) ctx.label("partial_send"); if (lg.wouldBlock) ctx.label("would_block");
  }
  // the harness end of the TCP connection goes first and with a reset: no TIME_WAIT entry stays behind (thousands of cases per
  // second would use up the local port range)
  for (int i = 0; i < NC; ++i) if (!h.c[i].peer && h.c[i].peerFd >= 0) { struct linger lg = {1, 0}; setsockopt(h.c[i].peerFd, SOL_SOCKET, SO_LINGER, &lg, sizeof lg); close(h.c[i].peerFd); h.c[i].peerFd = -1; }
  delete server;
  for (int i = 0; i < NC; ++i) { if (h.c[i].peer) delete h.c[i].peer; else if (h.c[i].peerFd >= 0) close(h.c[i].peerFd); }
  { LedgerPause lp; srv::st().faults.clear(); srv::st().faults.shrink_to_fit(); srv::st().watched.clear(); h.ops.clear(); h.ops.shrink_to_fit(); }
}
