// C14 (single-thread part): the event loop honours timers, removals, readiness and interrupts.
// The harness owns the clock and epoll_wait (virtual time, generated readiness order / subsets) and runs generated
// actions between runs and -- through a reaction script -- from inside every kind of callback.
#define PBT_MAIN
#include "pbt.hpp"
#include "srv_common.hpp"
#include <nstd/Socket/Server.hpp>
#include <nstd/Socket/Socket.hpp>
#include <netinet/in.h>
#include <arpa/inet.h>
#include <fcntl.h>
#include <unistd.h>

const char* pbt_property = "C14";
const char* pbt_part = "loop";

using namespace pbt;

namespace {
const int NT = 5, NCL = 6, NLI = 2, NES = 2;

struct H;
struct Obj { virtual ~Obj() {} };   // common base so that the graveyard can release the callback objects
struct TimerCb : public Server::Timer::ICallback, public Obj { H* h; int slot; bool alive; long long start, interval, nextDue; long k; long long slowMs = 0; Server::Timer* handle; void onActivated() override; };
struct ClientCb : public Server::Client::ICallback, public Obj {
  H* h; int slot; bool alive; bool maybeFailed = false; Server::Client* cl; int peerFd; Socket* peerSock; bool suspended; bool tcp; bool peerClosed; bool closedSeen; bool failedIo;
  long long toServer, serverGot; long long backlogHint; int fd = -1; bool backlog = false; bool stalled = false;
  void onRead() override; void onWrite() override; void onClosed() override;
};
struct ListenerCb : public Server::Listener::ICallback, public Obj { H* h; int slot; bool alive; Server::Listener* handle; int port; int pendingConnects; bool estEver = false; Server::Client::ICallback* onAccepted(Server::Client& client, uint32 ip, uint16 port) override; };
struct EstCb : public Server::Establisher::ICallback, public Obj { H* h; int slot; bool alive; Server::Establisher* handle; bool expectConnect; bool done; Server::Client::ICallback* onConnected(Server::Client& client) override; void onAbolished() override; };

struct H {
  Ctx* ctx; Server* srvp;
  TimerCb* timer[NT]; ClientCb* client[NCL]; ListenerCb* listener[NLI]; EstCb* est[NES];
  std::vector<Obj*> graveyard;   // callback objects of removed things stay allocated (and marked dead) until the end
  std::vector<const Op*> reactions; size_t nextReaction = 0;
  std::vector<srv::Fault> faultPool; size_t nextFaultPool = 0;   // generated send outcomes for the sends that drain a backlog
  std::vector<int> looseFds;      // harness side descriptors of incoming connections not yet matched to an accepted client
  bool interruptRequested = false; long long lastDue = -1; bool inRun = false; long callbacks = 0; int depth = 0;
  long epollAtInterrupt = -1;
  bool clockMovedInCallback = false;   // a slow callback moved the clock since the loop last asked epoll
  long callbacksAtInterrupt = -1;

  [[noreturn]] void fail(const char* kind, const std::string& d) { srv::st().active = false; ctx->fail(kind, d); }
  long long now() { return srv::st().nowMs; }

  // ---------------------------------------------------------------- actions (usable between runs and inside callbacks)
  void newTimer(int slot, long interval, long slowSel = 0) {
    if (timer[slot]) return;
    TimerCb* t = new TimerCb; t->h = this; t->slot = slot; t->alive = true; t->start = now(); t->interval = interval; t->nextDue = t->start + interval; t->k = 0;
    // a slow handler: every activation takes exactly as long as the interval (the critical load; anything slower is an overload
    // under which the fixed-rate catching up of the library legitimately grows without bound). At most one such timer at a time.
    bool haveSlow = false; for (int i = 0; i < NT; ++i) if (timer[i] && timer[i]->slowMs) haveSlow = true;
    if (slowSel % 8 == 1 && !haveSlow) { t->slowMs = interval; ctx->label("timer_with_slow_handler"); }
    t->handle = srvp->time(interval, *t); timer[slot] = t;
    int same = 0; for (int i = 0; i < NT; ++i) if (timer[i] && timer[i]->nextDue == t->nextDue) ++same;
    if (same >= 2) ctx->label("coinciding_due_times"); if (same >= 3) ctx->label("three_equal_due_times");
  }
  void removeTimer(int slot, bool fromCallbackOfIt) {
    TimerCb* t = timer[slot]; if (!t) return;
    int same = 0; for (int i = 0; i < NT; ++i) if (timer[i] && timer[i]->nextDue == t->nextDue) ++same;
    if (same >= 3) ctx->label("removal_among_three_equal_due_times");
    if (fromCallbackOfIt) ctx->label("timer_removes_itself");
    srvp->remove(*t->handle); t->alive = false; timer[slot] = nullptr; { LedgerPause lp; graveyard.push_back(t); }
  }
  void newPairClient(int slot) {
    if (client[slot]) return;
    ClientCb* c = new ClientCb; c->h = this; c->slot = slot; c->alive = true; c->suspended = false; c->tcp = false; c->peerClosed = false; c->closedSeen = false; c->failedIo = false; c->toServer = c->serverGot = 0; c->backlogHint = 0;
    c->peerSock = new Socket; c->cl = srvp->pair(*c, *c->peerSock);
    if (!c->cl) fail("harness", "Server::pair failed");
    c->peerFd = (int)c->peerSock->getFileDescriptor(); client[slot] = c;
    c->fd = (int)c->cl->getSocket().getFileDescriptor(); { LedgerPause lp; srv::st().watched[c->fd] = srv::SendLog(); }
  }
  void removeClient(int slot, bool self) {
    ClientCb* c = client[slot]; if (!c) return;
    if (self) ctx->label("client_removes_itself");
    if (hasPendingEvent(c)) ctx->label("removal_with_pending_event");
    if (c->fd >= 0) { LedgerPause lp; srv::st().watched.erase(c->fd); }
    srvp->remove(*c->cl); c->alive = false; client[slot] = nullptr;
    if (c->peerSock) { delete c->peerSock; c->peerSock = nullptr; }
    c->peerFd = -1; { LedgerPause lp; graveyard.push_back(c); }
  }
  bool hasPendingEvent(ClientCb* c) { return c->toServer > c->serverGot && !c->suspended; }
  void peerWrite(int slot, long n) {
    ClientCb* c = client[slot]; if (!c || c->peerFd < 0 || c->peerClosed) return;
    unsigned char buf[64]; size_t len = (size_t)(1 + n % 60); for (size_t i = 0; i < len; ++i) buf[i] = (unsigned char)((c->toServer + (long long)i) * 131 + slot);
    ssize_t r = __real_send(c->peerFd, buf, len, MSG_DONTWAIT | MSG_NOSIGNAL); if (r > 0) c->toServer += r;
  }
  void peerClose(int slot) {
    ClientCb* c = client[slot]; if (!c || c->peerFd < 0 || c->peerClosed) return;
    if (c->peerSock) { c->peerSock->close(); } else close(c->peerFd);
    c->peerClosed = true; ctx->label("peer_closed");
  }
  int freePort() {
    int s = socket(AF_INET, SOCK_STREAM, 0); sockaddr_in a; memset(&a, 0, sizeof a); a.sin_family = AF_INET; a.sin_addr.s_addr = htonl(INADDR_LOOPBACK); a.sin_port = 0;
    bind(s, (sockaddr*)&a, sizeof a); socklen_t l = sizeof a; getsockname(s, (sockaddr*)&a, &l); int p = ntohs(a.sin_port); close(s); return p;
  }
  void newListener(int slot) {
    if (listener[slot]) return;
    ListenerCb* l = new ListenerCb; l->h = this; l->slot = slot; l->alive = true; l->pendingConnects = 0; l->port = freePort();
    l->handle = srvp->listen(Socket::loopbackAddress, (uint16)l->port, *l);
    if (!l->handle) { delete l; ctx->count("listen_failed"); return; }
    listener[slot] = l;
  }
  void removeListener(int slot) {
    ListenerCb* l = listener[slot]; if (!l) return;
    if (l->pendingConnects > 0) ctx->label("removal_with_pending_event");
    srvp->remove(*l->handle); l->alive = false; listener[slot] = nullptr; { LedgerPause lp; graveyard.push_back(l); }
  }
  void incoming(int slot) {  // the harness connects to a listener from outside
    ListenerCb* l = listener[slot]; if (!l || looseFds.size() >= 12) return;
    int s = socket(AF_INET, SOCK_STREAM, 0); sockaddr_in a; memset(&a, 0, sizeof a); a.sin_family = AF_INET; a.sin_addr.s_addr = htonl(INADDR_LOOPBACK); a.sin_port = htons((uint16_t)l->port);
    if (::connect(s, (sockaddr*)&a, sizeof a) != 0) { close(s); ctx->count("connect_failed"); return; }
    ++l->pendingConnects; { LedgerPause lp; looseFds.push_back(s); }
  }
  void newEstablisher(int slot, int liSlot) {
    if (est[slot]) return;
    EstCb* e = new EstCb; e->h = this; e->slot = slot; e->alive = true; e->done = false;
    int port; if (liSlot >= 0 && listener[liSlot]) { port = listener[liSlot]->port; e->expectConnect = true; ++listener[liSlot]->pendingConnects; listener[liSlot]->estEver = true; }
    else {  // a port nobody listens on: bound by the harness (so no other process can take it) but not listening -> connection refused
      int sfd = socket(AF_INET, SOCK_STREAM, 0); sockaddr_in sa; memset(&sa, 0, sizeof sa); sa.sin_family = AF_INET; sa.sin_addr.s_addr = htonl(INADDR_LOOPBACK); sa.sin_port = 0;
      bind(sfd, (sockaddr*)&sa, sizeof sa); socklen_t sl = sizeof sa; getsockname(sfd, (sockaddr*)&sa, &sl); port = ntohs(sa.sin_port); { LedgerPause lp; looseFds.push_back(sfd); }
      e->expectConnect = false;
    }
    e->handle = srvp->connect(Socket::loopbackAddress, (uint16)port, *e);
    if (!e->handle) { if (e->expectConnect) --listener[liSlot]->pendingConnects; delete e; ctx->count("connect_call_failed"); return; }
    est[slot] = e; ctx->label(e->expectConnect ? "establisher_to_listener" : "establisher_to_closed_port");
  }
  void removeEst(int slot) { EstCb* e = est[slot]; if (!e) return; if (!e->done) ctx->label("removal_with_pending_event"); srvp->remove(*e->handle); e->alive = false; est[slot] = nullptr; { LedgerPause lp; graveyard.push_back(e); } }

  void doAction(const Op& op, int selfTimer, int selfClient) {
    if (ctx->verbose) fprintf(stderr, "[%lld] action %s %ld %ld (selfTimer %d selfClient %d)\n", now(), op.name.c_str(), op.a[0], op.a[1], selfTimer, selfClient);
    const std::string& nm = op.name; long a = op.a[0] < 0 ? -op.a[0] : op.a[0], b = op.a[1] < 0 ? -op.a[1] : op.a[1];
    static const long IV[] = {1, 2, 3, 5, 10, 20, 50};
    if (nm == "timer" || nm == "r_timer") newTimer((int)(a % NT), IV[b % 7], nm == "timer" ? (op.a[2] < 0 ? -op.a[2] : op.a[2]) : 0);
    else if (nm == "rmtimer" || nm == "r_rmtimer") { int s = (int)(a % NT); if ((b & 1) && selfTimer >= 0) s = selfTimer; removeTimer(s, s == selfTimer); }
    else if (nm == "client" || nm == "r_client") newPairClient((int)(a % 4));
    else if (nm == "rmclient" || nm == "r_rmclient") { int s = (int)(a % NCL); if ((b & 1) && selfClient >= 0) s = selfClient; removeClient(s, s == selfClient); }
    else if (nm == "peerwrite" || nm == "r_peerwrite") peerWrite((int)(a % NCL), b);
    else if (nm == "peerclose" || nm == "r_peerclose") peerClose((int)(a % NCL));
    else if (nm == "suspend" || nm == "r_suspend") { ClientCb* c = client[a % NCL]; if (c) { c->cl->suspend(); c->suspended = true; } }
    else if (nm == "resume" || nm == "r_resume") { ClientCb* c = client[a % NCL]; if (c) { c->cl->resume(); c->suspended = false; } }
    else if (nm == "listener" || nm == "r_listener") newListener((int)(a % NLI));
    else if (nm == "rmlistener" || nm == "r_rmlistener") removeListener((int)(a % NLI));
    else if (nm == "incoming" || nm == "r_incoming") incoming((int)(a % NLI));
    else if (nm == "establish" || nm == "r_establish") newEstablisher((int)(a % NES), (b & 1) ? (int)((b >> 1) % NLI) : -1);
    else if (nm == "rmest" || nm == "r_rmest") removeEst((int)(a % NES));
    else if (nm == "interrupt" || nm == "r_interrupt") { srvp->interrupt(); if (!interruptRequested) { interruptRequested = true; epollAtInterrupt = srv::st().epollCalls; } ctx->label(inRun ? "interrupt_during_run" : "interrupt_before_run"); }
    else if (nm == "cwrite" || nm == "r_cwrite") { ClientCb* c = client[a % NCL]; if (c && !c->failedIo) { unsigned char buf[32]; memset(buf, 7, sizeof buf); clientWrite(c, buf, 1 + b % 32); } }
    else if (nm == "bigwrite" || nm == "r_bigwrite") {
      // a write that the system takes only partly (or refuses): the rest becomes a backlog, the client is registered for writing and
      // the loop has to send the backlog - through further generated send outcomes - and then deliver onWrite
      int s = (int)(a % 4); if ((b & 1) && selfClient >= 0 && selfClient < 4) s = selfClient;
      ClientCb* c = client[s];
      if (c && !c->failedIo && !c->tcp) {
        srv::State& st = srv::st(); { LedgerPause lp; st.faults.clear(); st.nextFault = 0;
          long sel = op.a[2] < 0 ? -op.a[2] : op.a[2];
          st.faults.push_back((sel & 1) ? srv::Fault{1, 0} : srv::Fault{2, 1 + (sel >> 1) % 20});
          for (int q = 0; q < (int)((sel >> 6) % 4) && nextFaultPool < faultPool.size(); ++q) st.faults.push_back(faultPool[nextFaultPool++]); }
        unsigned char buf[96]; memset(buf, 9, sizeof buf); clientWrite(c, buf, 40 + (size_t)(b % 50));
        if (c->suspended && c->backlog) ctx->label("backlog_on_suspended_client");
      }
    }
    else if (nm == "stall" || nm == "r_stall") {
      // a write far beyond what the system's buffer holds, to a peer that does not read: the connection is really not writable any
      // more, the client stays registered for reading and writing - and what the peer sends must still be delivered
      ClientCb* c = client[a % 4];
      if (c && !c->failedIo && !c->tcp && !c->peerClosed && !c->stalled) {
        static unsigned char big[512 * 1024]; { LedgerPause lp; srv::st().faults.clear(); srv::st().nextFault = 0; }
        clientWrite(c, big, sizeof big);
        if (c->backlog) { c->stalled = true; ctx->label("connection_not_writable"); }
      }
    }
    else if (nm == "failrm" || nm == "r_failrm") {
      // several clients fail in the same moment and one of them is removed before its onClosed is delivered
      int failed[4]; int n = 0; for (int i = 0; i < 4; ++i) { ClientCb* c = client[i]; if (c && !c->failedIo && !c->peerClosed && i != selfClient) { peerClose(i); unsigned char z[8] = {1, 2, 3, 4, 5, 6, 7, 8}; c->cl->write(z, 8); if (!c->cl->write(z, 8)) { c->failedIo = true; failed[n++] = i; } } }
      if (n >= 2) { ctx->label("several_clients_fail_together"); int v = failed[(b & 2) ? n - 1 : (int)((b >> 2) % n)]; removeClient(v, false); ctx->label("removal_with_pending_onClosed"); }
    }
    else if (nm == "failall" || nm == "r_failall") {  // several clients fail at the same moment: the peers hang up and the next write of each client fails
      int n = 0; for (int i = 0; i < 4; ++i) { ClientCb* c = client[i]; if (c && !c->failedIo && !c->peerClosed) { peerClose(i); unsigned char z[8] = {1, 2, 3, 4, 5, 6, 7, 8}; c->cl->write(z, 8); if (!c->cl->write(z, 8)) { c->failedIo = true; ++n; } } }
      if (n >= 2) ctx->label("several_clients_fail_together");
    }
    else if (nm == "r_none" || nm == "r_rmnew" || nm == "r_reconnect") {}
    else ctx->count("unknown_op");
  }
  // every write of the harness goes through here: a postponed rest is a backlog that the loop has to send and acknowledge with onWrite
  void clientWrite(ClientCb* c, const unsigned char* buf, size_t n) {
    usize postponed = 0;
    if (!c->cl->write(buf, (usize)n, &postponed)) { c->failedIo = true; ctx->label("write_failed"); return; }
    if (postponed > 0) { c->backlog = true; ctx->label("backlog_created"); }
  }
  // onAccepted / onConnected may refuse the new client by removing it and returning null (the documented way is returning null; the
  // library also provides for remove() of a client that has no callback yet)
  bool refuseByRemove() {
    if (depth > 0 || nextReaction >= reactions.size() || reactions[nextReaction]->name != "r_rmnew") return false;
    ++nextReaction; return true;
  }
  void react(int selfTimer, int selfClient) {
    if (nextReaction >= reactions.size() || depth > 0) return;
    const Op& r = *reactions[nextReaction++];
    ++depth; if (r.name != "r_none") ctx->label("action_inside_callback"); doAction(r, selfTimer, selfClient); --depth;
  }
  // called by the epoll wrapper when nothing is ready and the loop is about to sleep for 'timeout' virtual ms
  void onIdle(int timeout) {
    // After a slow callback a timer may have become due behind the time stamp the loop took at the start of its pass; the loop
    // then sleeps as if that time had not passed and the timer is late by at most the handler's duration. The statement bounds
    // activations from below only ("never before it is due"), so the two promptness checks apply to passes without slow handlers.
    bool lenient = clockMovedInCallback; clockMovedInCallback = false;
    for (int i = 0; i < NT; ++i) if (!lenient && timer[i] && timer[i]->nextDue <= now()) { char d[160]; snprintf(d, sizeof d, "the loop goes idle at %lld although timer %d was due at %lld", now(), i, timer[i]->nextDue); fail("timer:not-activated", d); }
    for (int i = 0; i < NT; ++i) if (!lenient && timer[i] && timeout > 0 && now() + timeout > timer[i]->nextDue) { char d[200]; snprintf(d, sizeof d, "the loop sleeps %d ms from %lld, beyond the due time %lld of timer %d", timeout, now(), timer[i]->nextDue, i); fail("timer:sleeps-past-due", d); }
    if (timeout <= 0) return;
    // a connection the harness itself made to a listener (connect() has returned: it sits in the accept queue) has to be accepted
    // before the loop goes idle; listeners that establishers have connected to are left out (their connections complete on their own)
    for (int i = 0; i < NLI; ++i) if (listener[i] && !listener[i]->estEver && listener[i]->pendingConnects > 0) fail("dispatch:acceptable-not-dispatched", "the loop goes idle although " + std::to_string(listener[i]->pendingConnects) + " connection(s) to listener " + std::to_string(i) + " wait to be accepted");
    for (int i = 0; i < NCL; ++i) if (client[i] && !client[i]->tcp) {
      ClientCb* c = client[i];
      if (!c->suspended && !c->failedIo && c->toServer > c->serverGot) { char d[160]; snprintf(d, sizeof d, "the loop goes idle although client %d is readable (%lld unread bytes) and registered for reading", i, c->toServer - c->serverGot); fail("dispatch:readable-not-dispatched", d); }
      if (!c->suspended && c->peerClosed && !c->closedSeen && !c->failedIo && c->toServer == c->serverGot) { fail("dispatch:peer-close-not-dispatched", "the loop goes idle although the peer of client " + std::to_string(i) + " has closed and the client is registered for reading"); }
      if (c->backlog && !c->stalled && !c->failedIo && !c->peerClosed) fail("dispatch:backlog-not-dispatched", "the loop goes idle although client " + std::to_string(i) + " is writable and has a send backlog (registered for writing)");
      if (c->failedIo && !c->closedSeen) fail("dispatch:onClosed-missing", "a read or write of client " + std::to_string(i) + " failed but the loop goes idle without onClosed");
    }
  }
};
H* g = nullptr;
void idleHook(int timeout) { if (g) g->onIdle(timeout); }

void TimerCb::onActivated() {
  ++h->callbacks; if (h->ctx->verbose) fprintf(stderr, "[%lld] timer %d activated (alive %d, due %lld)\n", h->now(), slot, (int)alive, nextDue);
  if (!alive) { char d[160]; snprintf(d, sizeof d, "timer in slot %d was activated after remove() returned", slot); h->fail("removed:timer-callback", d); }
  long long nw = h->now();
  if (nw < nextDue) { char d[200]; snprintf(d, sizeof d, "timer %d (interval %lld, started %lld) activation #%ld at %lld, due at %lld", slot, interval, start, k + 1, nw, nextDue); h->fail("timer:early", d); }
  if (nextDue < h->lastDue) { char d[200]; snprintf(d, sizeof d, "timer %d with due time %lld activated after a timer with due time %lld", slot, nextDue, h->lastDue); h->fail("timer:order", d); }
  h->lastDue = nextDue; ++k; nextDue += interval;
  if (k >= 2) h->ctx->label("timer_repeated");
  if (slowMs) { srv::st().nowMs += slowMs; h->clockMovedInCallback = true; if (k >= 3) h->ctx->label("slow_handler_sustained"); }
  if (h->interruptRequested) {
    if (h->callbacksAtInterrupt < 0) h->callbacksAtInterrupt = h->callbacks;
    if (h->callbacks - h->callbacksAtInterrupt > 100000) h->fail("run:interrupt-ignored", "more than 100000 callbacks were delivered after interrupt() without run() returning (timer catch-up never ends)");
  }
  h->react(slot, -1);
}
void ClientCb::onRead() {
  ++h->callbacks; if (h->ctx->verbose) fprintf(stderr, "[%lld] client %d onRead (alive %d)\n", h->now(), slot, (int)alive);
  if (!alive) h->fail("removed:client-callback", "onRead after remove() returned (slot " + std::to_string(slot) + ")");
  if (suspended) h->fail("dispatch:onRead-while-suspended", "onRead delivered to a suspended client");
  int me = slot; H* hh = h;
  // read everything that is there
  for (;;) {
    unsigned char buf[256]; usize got = 0;
    if (!cl->read(buf, sizeof buf, got)) { if (peerClosed) failedIo = true; if (tcp) maybeFailed = true; break; }
    serverGot += (long long)got;
    if (serverGot > toServer) hh->fail("stream:more-than-written", "client read more bytes than the peer wrote");
    if (got < sizeof buf) break;
  }
  hh->ctx->label("onRead");
  hh->react(-1, me);
}
void ClientCb::onWrite() {
  ++h->callbacks; if (!alive) h->fail("removed:client-callback", "onWrite after remove() returned");
  if (!tcp && !backlog) h->fail("dispatch:onWrite-without-backlog", "onWrite delivered to client " + std::to_string(slot) + " which had no send backlog (it was not registered for writing)");
  if (!tcp && cl->getSendBufferSize() != 0) h->fail("dispatch:onWrite-before-drained", "onWrite delivered while the send backlog is not empty");
  backlog = false; stalled = false; h->ctx->label(suspended ? "onWrite_while_suspended" : "onWrite"); int me = slot; H* hh = h; hh->react(-1, me);
}
void ClientCb::onClosed() {
  ++h->callbacks; if (h->ctx->verbose) fprintf(stderr, "[%lld] client %d onClosed (alive %d)\n", h->now(), slot, (int)alive); if (!alive) h->fail("removed:client-callback", "onClosed after remove() returned");
  if (!failedIo && !peerClosed && !maybeFailed) h->fail("dispatch:onClosed-without-failure", "onClosed delivered although no read or write failed");
  closedSeen = true; h->ctx->label("onClosed_after_failed_io");
  int me = slot; H* hh = h; hh->removeClient(me, true); hh->react(-1, -1);
}
Server::Client::ICallback* ListenerCb::onAccepted(Server::Client& clientRef, uint32, uint16) {
  ++h->callbacks; if (h->ctx->verbose) fprintf(stderr, "[%lld] listener %d onAccepted -> client %p\n", h->now(), slot, (void*)&clientRef); if (!alive) h->fail("removed:listener-callback", "onAccepted after remove() returned");
  if (pendingConnects <= 0) h->fail("dispatch:accept-without-connection", "onAccepted although nobody connected"); --pendingConnects;
  h->ctx->label("onAccepted");
  if (h->refuseByRemove()) { h->srvp->remove(clientRef); h->ctx->label("accepted_client_removed_inside_onAccepted"); return nullptr; }
  int slotC = -1; for (int i = 4; i < NCL; ++i) if (!h->client[i]) { slotC = i; break; }
  if (slotC < 0) return nullptr;   // refuse: the server deletes the client
  ClientCb* c = new ClientCb; c->h = h; c->slot = slotC; c->alive = true; c->suspended = false; c->tcp = true; c->peerClosed = false; c->closedSeen = false; c->failedIo = false; c->toServer = c->serverGot = 0; c->backlogHint = 0; c->cl = &clientRef; c->peerSock = nullptr;
  c->peerFd = -1;   // accepted connections are not matched to harness descriptors (accept order is not part of the statement)
  // the reaction runs before the client is entered into the slot table: removing the client that is just being accepted and
  // then returning a callback for it would be contradictory use (a client is refused by returning null)
  H* hh = h; hh->react(-1, -1);
  if (hh->client[slotC]) { delete c; return nullptr; }
  hh->client[slotC] = c;
  return c;
}
Server::Client::ICallback* EstCb::onConnected(Server::Client& clientRef) {
  ++h->callbacks; if (!alive) h->fail("removed:establisher-callback", "onConnected after remove() returned");
  if (done) h->fail("dispatch:establisher-twice", "an establisher was notified twice"); done = true;
  if (!expectConnect) h->fail("dispatch:connected-to-closed-port", "onConnected for a port nobody listens on");
  h->ctx->label("onConnected");
  if (h->refuseByRemove()) { h->srvp->remove(clientRef); h->ctx->label("connected_client_removed_inside_onConnected"); }
  return nullptr;   // the harness does not keep this side: the server deletes the client again
}
void EstCb::onAbolished() {
  ++h->callbacks; if (!alive) h->fail("removed:establisher-callback", "onAbolished after remove() returned");
  if (done) h->fail("dispatch:establisher-twice", "an establisher was notified twice"); done = true;
  h->ctx->label("onAbolished"); H* hh = h; int me = slot;
  // the usual reconnect pattern: the abolished establisher is removed and a new attempt is made, both inside the callback
  if (hh->depth == 0 && hh->nextReaction < hh->reactions.size() && hh->reactions[hh->nextReaction]->name == "r_reconnect") {
    const Op& r = *hh->reactions[hh->nextReaction++]; long b = r.a[1] < 0 ? -r.a[1] : r.a[1];
    ++hh->depth; hh->removeEst(me); hh->newEstablisher(me, (b & 1) ? (int)((b >> 1) % NLI) : -1); --hh->depth;
    hh->ctx->label("reconnect_inside_onAbolished"); return;
  }
  hh->react(-1, -1);
}
}  // namespace


void pbt_warmup() {}

void pbt_generate(Rng& r, int size, Case& c) {
  int n = 3 + (int)r.below((uint64_t)size + 1), nr = (int)r.below((uint64_t)size + 2), np = (int)r.below(12);
  static const char* tops[] = {"timer", "rmtimer", "client", "rmclient", "peerwrite", "peerclose", "suspend", "resume", "listener", "rmlistener", "incoming", "establish", "rmest", "interrupt", "cwrite", "run", "failall", "bigwrite", "failrm", "stall"};
  static const int wt[] = {22, 8, 10, 5, 12, 3, 3, 3, 4, 2, 5, 4, 2, 3, 4, 16, 3, 6, 3, 2};
  static const char* reacts[] = {"r_none", "r_timer", "r_rmtimer", "r_client", "r_rmclient", "r_peerwrite", "r_peerclose", "r_suspend", "r_resume", "r_rmlistener", "r_incoming", "r_rmest", "r_interrupt", "r_cwrite", "r_bigwrite", "r_failrm", "r_rmnew", "r_reconnect"};
  static const int wr[] = {10, 14, 22, 4, 12, 8, 3, 4, 4, 3, 3, 3, 4, 4, 6, 2, 5, 5};
  bool burst = r.chance(40);   // many timers created in the same millisecond with equal intervals
  for (int k = 0; k < n; ++k) {
    int o = r.weighted(wt, 20);
    long a = (long)r.below(64), b = (long)r.below(64);
    if (burst && o == 0) b = (long)(r.chance(70) ? 2 : r.below(7));
    c.add(tops[o], a, b, (long)r.below(o == 17 ? 1024 : 40));
  }
  for (int k = 0; k < nr; ++k) { int o = r.weighted(wr, 18); c.add(reacts[o], (long)r.below(64), (long)r.below(64), (long)r.below(1 << 10)); }
  { int nf = (int)r.below(8); for (int k = 0; k < nf; ++k) c.add("fault", (long)r.below(3), (long)(1 + r.below(30))); }
  for (int k = 0; k < np; ++k) c.add("perm", (long)r.below(1 << 16));
}

bool pbt_nontrivial(const Ctx& ctx) {
  return (ctx.has("three_equal_due_times") && ctx.has("removal_among_three_equal_due_times")) || ctx.has("removal_with_pending_event") || (ctx.has("action_inside_callback") && ctx.has("timer_removes_itself"));
}

void pbt_run(const Case& cs, Ctx& ctx) {
  pbt::g_ledger.limitBytes = 64u << 20;
  srv::reset();
  H h; g = &h; h.ctx = &ctx;
  for (int i = 0; i < NT; ++i) h.timer[i] = nullptr; for (int i = 0; i < NCL; ++i) h.client[i] = nullptr; for (int i = 0; i < NLI; ++i) h.listener[i] = nullptr; for (int i = 0; i < NES; ++i) h.est[i] = nullptr;
  { LedgerPause lp; for (const Op& op : cs.ops) { if (op.name.compare(0, 2, "r_") == 0) h.reactions.push_back(&op); else if (op.name == "perm") srv::st().permScript.push_back((unsigned)op.a[0]); else if (op.name == "fault") h.faultPool.push_back(srv::Fault{(int)(((op.a[0] % 3) + 3) % 3), op.a[1] < 1 ? 1 : op.a[1]}); } }
  // the virtual clock must be in force before the Server exists: its constructor and time() read the clock, and a timer whose due
  // time was taken from the real clock (milliseconds since boot) lies arbitrarily far in the virtual past or future
  srv::st().active = true;
  Server* server = new Server; h.srvp = server;
  srv::idleHookPtr = idleHook;
  srv::st().active = true;

  auto runLoop = [&](long maxMs) {
    // run() must return because of an interrupt; the harness arms a watchdog timer that interrupts after maxMs of virtual time
    struct Dog : public Server::Timer::ICallback { H* h; bool fired = false; void onActivated() override { fired = true; h->srvp->interrupt(); if (!h->interruptRequested) { h->interruptRequested = true; h->epollAtInterrupt = srv::st().epollCalls; } } } dog; dog.h = &h;
    Server::Timer* dt = server->time(maxMs, dog);
    h.inRun = true; long e0 = srv::st().epollCalls;
    server->run();
    h.inRun = false;
    if (!h.interruptRequested) h.fail("run:returned-without-interrupt", "run() returned although interrupt() was not called since its last return");
    if (srv::st().epollCalls - h.epollAtInterrupt > 300) h.fail("run:interrupt-ignored", "run() kept going for more than 300 poll rounds after interrupt()");
    (void)e0; h.interruptRequested = false; h.epollAtInterrupt = -1; h.callbacksAtInterrupt = -1;
    server->remove(*dt);
  };

  long idx = 0;
  for (const Op& op : cs.ops) {
    ctx.opIndex = idx++;
    if (op.name.compare(0, 2, "r_") == 0 || op.name == "perm" || op.name == "fault") continue;
    if (op.name == "run") { runLoop(1 + (op.a[2] < 0 ? -op.a[2] : op.a[2]) % 60); ctx.label("run"); }
    else h.doAction(op, -1, -1);
  }
  ctx.opIndex = -3;
  // final run: long enough for everything pending to be dispatched
  if (h.interruptRequested) ctx.label("interrupt_pending_at_final_run");
  runLoop(120);
  // a connection attempt on the loopback interface is answered at once, but in real time, not in the loop's virtual time: an
  // establisher that is still waiting gets up to 100 ms of real time (in 2 ms steps) before its silence counts
  for (int round = 0; round < 50; ++round) {
    bool waiting = false; for (int i = 0; i < NES; ++i) if (h.est[i] && !h.est[i]->done) waiting = true;
    if (!waiting) break;
    usleep(2000); runLoop(5); ctx.count("waited_for_establisher");
  }
  for (int i = 0; i < NES; ++i) if (h.est[i] && !h.est[i]->done) { ctx.opIndex = -2; h.fail("dispatch:establisher-never-notified", "establisher " + std::to_string(i) + " got neither onConnected nor onAbolished although the loop ran for 100 ms of real time after the attempt"); }
  ctx.opIndex = -2;
  srv::st().active = false; srv::idleHookPtr = nullptr;
  if (srv::st().permuted) ctx.label("readiness_order_permuted"); if (srv::st().truncated) ctx.label("readiness_subset");
  for (int i = 0; i < NT; ++i) h.removeTimer(i, false);
  for (int i = 0; i < NCL; ++i) h.removeClient(i, false);
  for (int i = 0; i < NLI; ++i) h.removeListener(i);
  for (int i = 0; i < NES; ++i) h.removeEst(i);
  // the harness ends of the TCP connections go first and with a reset: then neither side keeps a TIME_WAIT entry (the local port
  // range is shared by all workers and all checks that run at the same time)
  for (int fd : h.looseFds) { struct linger lg = {1, 0}; setsockopt(fd, SOL_SOCKET, SO_LINGER, &lg, sizeof lg); close(fd); }
  delete server;
  for (Obj* p : h.graveyard) delete p;
  { LedgerPause lp; h.graveyard.clear(); h.graveyard.shrink_to_fit();
    h.reactions.clear(); h.reactions.shrink_to_fit(); h.faultPool.clear(); h.faultPool.shrink_to_fit(); srv::st().faults.clear(); srv::st().faults.shrink_to_fit(); srv::st().watched.clear(); srv::st().permScript.clear(); srv::st().permScript.shrink_to_fit(); h.looseFds.clear(); h.looseFds.shrink_to_fit(); }
  g = nullptr;
}
