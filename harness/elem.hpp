// Tracked element types shared by the container harnesses (C01-C05).
//   Elem   : copyable key/value with identity (id), a payload that is not part of equality, an owned heap block,
//            a registry of live instances (construct / destroy exactly once, never touched after destruction),
//            a comparison counter and a controllable hash.
//   Pinned : non-copyable, non-movable element for PoolList / PoolMap (constructed in place, never copied).
#pragma once
#include "pbt.hpp"
#include <unordered_map>
#include <nstd/Base.hpp>

namespace elem {

struct Stats {
  uint64_t ctor = 0, dtor = 0, copies = 0, assigns = 0, cmp = 0;
  long hashmod = 0;  // 0 = identity
};
inline Stats& stats() { static Stats s; return s; }

struct Registry {
  std::unordered_map<const void*, int> live;
  void add(const void* p, const char* what) {
    pbt::LedgerPause lp;
    if (!live.emplace(p, 1).second) { char d[128]; snprintf(d, sizeof d, "%s constructed at %p over an instance that is still alive", what, p); pbt::g_ctx.fail("lifetime:construct-over-live", d); }
  }
  void del(const void* p, const char* what) {
    pbt::LedgerPause lp;
    if (!live.erase(p)) { char d[128]; snprintf(d, sizeof d, "%s at %p destroyed although it is not alive (destroyed twice or never constructed)", what, p); pbt::g_ctx.fail("lifetime:destroy-dead", d); }
  }
  bool alive(const void* p) const { return live.count(p) != 0; }
  void reset() { pbt::LedgerPause lp; live.clear(); }
};
inline Registry& reg() { static Registry r; return r; }

static const uint32_t LIVE = 0x11fe11fe, DEAD = 0xdeaddead;

inline void touch(const void* p, uint32_t magic, const char* what) {
  if (magic != LIVE || !reg().alive(p)) { char d[128]; snprintf(d, sizeof d, "%s: instance at %p is used but not alive", what, p); pbt::g_ctx.fail("lifetime:touch-dead", d); }
}

struct Elem {
  int id;
  int pay;
  uint32_t magic;
  int* blk;
  Elem() : id(0), pay(0), magic(LIVE), blk(new int(0)) { reg().add(this, "Elem"); ++stats().ctor; }
  Elem(int id, int pay = 0) : id(id), pay(pay), magic(LIVE), blk(new int(id)) { reg().add(this, "Elem"); ++stats().ctor; }
  Elem(const Elem& o) : id(o.id), pay(o.pay), magic(LIVE) { touch(&o, o.magic, "copy source"); blk = new int(*o.blk); reg().add(this, "Elem"); ++stats().ctor; ++stats().copies; }
  Elem& operator=(const Elem& o) {
    touch(this, magic, "assignment target"); touch(&o, o.magic, "assignment source");
    int v = *o.blk; id = o.id; pay = o.pay; *blk = v; ++stats().assigns; return *this;
  }
  ~Elem() { touch(this, magic, "destructor"); if (*blk != id) pbt::g_ctx.fail("lifetime:block-corrupt", "owned block does not hold the element id"); reg().del(this, "Elem"); delete blk; blk = nullptr; magic = DEAD; ++stats().dtor; }
  void chk(const Elem& o) const { touch(this, magic, "comparison lhs"); touch(&o, o.magic, "comparison rhs"); ++stats().cmp; }
  bool operator==(const Elem& o) const { chk(o); return id == o.id; }
  bool operator!=(const Elem& o) const { chk(o); return id != o.id; }
  bool operator<(const Elem& o) const { chk(o); return id < o.id; }
  bool operator>(const Elem& o) const { chk(o); return id > o.id; }
  bool operator<=(const Elem& o) const { chk(o); return id <= o.id; }
  bool operator>=(const Elem& o) const { chk(o); return id >= o.id; }
};

struct Pinned {
  int id; int a, b, c;
  uint32_t magic;
  int* blk;
  Pinned() : id(0), a(0), b(0), c(0), magic(LIVE), blk(new int(0)) { reg().add(this, "Pinned"); ++stats().ctor; }
  explicit Pinned(int a) : id(a), a(a), b(0), c(0), magic(LIVE), blk(new int(a)) { reg().add(this, "Pinned"); ++stats().ctor; }
  Pinned(int a, int b) : id(a), a(a), b(b), c(0), magic(LIVE), blk(new int(a)) { reg().add(this, "Pinned"); ++stats().ctor; }
  Pinned(int a, int b, int c) : id(a), a(a), b(b), c(c), magic(LIVE), blk(new int(a)) { reg().add(this, "Pinned"); ++stats().ctor; }
  // constructors with 4..7 arguments (the in-place append() overloads of PoolList / PoolMap exist for every arity): the extra
  // arguments are kept as a weighted sum
  long extra = 0;
  Pinned(int a, int b, int c, int d) : Pinned(a, b, c) { extra = d; }
  Pinned(int a, int b, int c, int d, int e) : Pinned(a, b, c) { extra = d + 3L * e; }
  Pinned(int a, int b, int c, int d, int e, int f) : Pinned(a, b, c) { extra = d + 3L * e + 5L * f; }
  Pinned(int a, int b, int c, int d, int e, int f, int g) : Pinned(a, b, c) { extra = d + 3L * e + 5L * f + 7L * g; }
  ~Pinned() { touch(this, magic, "destructor"); reg().del(this, "Pinned"); delete blk; blk = nullptr; magic = DEAD; ++stats().dtor; }
  Pinned(const Pinned&) = delete;
  Pinned& operator=(const Pinned&) = delete;
};

}  // namespace elem

// found by ADL from the containers' unqualified hash(key) calls
namespace elem {
inline usize hash(const Elem& e) {
  touch(&e, e.magic, "hash argument");
  long m = stats().hashmod;
  return m > 0 ? (usize)((unsigned)e.id % (unsigned long)m) : (usize)(unsigned)e.id;
}
}
