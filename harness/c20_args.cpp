// C20 part "args": Process::Arguments against a reference parser written from the getopt_long conventions
// named in the property statement.  No processes involved.
//
// Case text:
//   table <mask> <mode> 0 0 x          option table = entries of the pool selected by the 7-bit mask (0 -> whole pool);
//                                      mode bit 0: a fresh String per read() instead of one reused String
//   tok 0 0 0 0 x<bytes>               one argv element, taken literally (cut at the first NUL byte); at most 12 are used
//
// Pool: flags a b c (short only), required-argument options o/"out" and p/"path", long-only flag "verbose" (256),
// long-only optional-argument option "level" (257).  argv[0] is "prog".  The argv array, every argv string and the
// option table are exactly sized heap blocks, so any read outside them is an ASan report.
#define PBT_MAIN
#include "pbt.hpp"
#include <nstd/Process.hpp>
#include <string>
#include <vector>

const char* pbt_property = "C20";
const char* pbt_part = "args";

using namespace pbt;

namespace {
struct PoolOpt { int character; const char* name; uint32 flags; };
const PoolOpt POOL[] = {
  {'a', nullptr, Process::optionFlag},
  {'b', nullptr, Process::optionFlag},
  {'c', nullptr, Process::optionFlag},
  {'o', "out", Process::argumentFlag},
  {'p', "path", Process::argumentFlag},
  {256, "verbose", Process::optionFlag},
  {257, "level", Process::argumentFlag | Process::optionalFlag},
};
const int NPOOL = 7;
const size_t MAXTOK = 12;

struct Event {
  int ch; std::string arg;
  bool anyArg;  // the conventions fix the character of this event but not its text
  size_t tok = 0;  // index of the argv element the event comes from
};

struct RefResult {
  std::vector<Event> events;
  std::vector<int> clusterLetters;   // per token (index into argv): option letters taken from it as a cluster
  std::vector<int> kindOf;           // per token: 0 other, 1 option token with a value form, 2 flag given "=value"
  std::vector<int> tookNext;         // per token: 1 when the following element was consumed as its value
};

const PoolOpt* findShort(const std::vector<PoolOpt>& tbl, int c) { for (auto& o : tbl) if (o.character == c && o.character < 256) return &o; return nullptr; }
const PoolOpt* findLong(const std::vector<PoolOpt>& tbl, const std::string& name) { for (auto& o : tbl) if (o.name && name == o.name) return &o; return nullptr; }

// Reference: in-order processing; non-options are reported in place with character 0; long names match exactly;
// '?' + offending text for unknown options ("-x" for a letter, the whole element for a long option); ':' + option text
// ("-o", "--out") for a missing required value; clusters; attached ("-ofile") and detached ("-o file") values,
// "--name=value" and "--name value" (the next element is taken whatever it looks like); optional values only with '=';
// "--" ends option processing and is not reported.
RefResult reference(const std::vector<std::string>& argv, const std::vector<PoolOpt>& tbl, Ctx* ctx) {
  RefResult R;
  R.clusterLetters.assign(argv.size(), 0);
  R.kindOf.assign(argv.size(), 0);
  R.tookNext.assign(argv.size(), 0);
  bool ended = false;
  size_t i = 1;
  auto lab = [&](const char* l) { if (ctx) ctx->label(l); };
  size_t prevTi = 0;
  while (i < argv.size()) {
    size_t ti = i;
    for (size_t k = R.events.size(); k-- > 0 && R.events[k].tok == 0;) R.events[k].tok = prevTi;   // events of the previous round
    prevTi = ti;
    const std::string& t = argv[i++];
    if (ended) { R.events.push_back({0, t, false}); lab("after_terminator"); continue; }
    if (t == "--") { ended = true; lab("terminator"); continue; }
    if (t.size() > 2 && t[0] == '-' && t[1] == '-') {
      size_t eq = t.find('=', 2);
      bool hasVal = eq != std::string::npos;
      std::string name = t.substr(2, hasVal ? eq - 2 : std::string::npos);
      std::string val = hasVal ? t.substr(eq + 1) : std::string();
      const PoolOpt* o = findLong(tbl, name);
      if (!o) { R.events.push_back({'?', t, false}); lab("unknown_long"); continue; }
      if (!(o->flags & Process::argumentFlag)) {
        if (hasVal) { R.events.push_back({'?', t, true}); R.kindOf[ti] = 2; lab("flag_with_value"); }
        else { R.events.push_back({o->character, "", false}); lab("long_flag"); }
        continue;
      }
      if (hasVal) { R.events.push_back({o->character, val, false}); R.kindOf[ti] = 1; lab(o->flags & Process::optionalFlag ? "optional_with_value" : "long_eq_value"); continue; }
      if (o->flags & Process::optionalFlag) { R.events.push_back({o->character, "", false}); lab("optional_without_value"); continue; }
      if (i < argv.size()) {
        if (!argv[i].empty() && argv[i][0] == '-') lab("value_starts_with_dash");
        R.events.push_back({o->character, argv[i++], false}); R.kindOf[ti] = 1; R.tookNext[ti] = 1; lab("long_separate_value");
      }
      else { R.events.push_back({':', "--" + name, false}); lab("missing_long"); }
      continue;
    }
    if (t.size() > 1 && t[0] == '-') {
      for (size_t k = 1; k < t.size(); ++k) {
        int c = (int)(signed char)t[k];
        ++R.clusterLetters[ti];
        const PoolOpt* o = findShort(tbl, c);
        if (!o) { R.events.push_back({'?', std::string("-") + t[k], false}); lab("unknown_short"); continue; }
        if (!(o->flags & Process::argumentFlag)) { R.events.push_back({c, "", false}); continue; }
        if (k + 1 < t.size()) { R.events.push_back({c, t.substr(k + 1), false}); R.kindOf[ti] = 1; lab("short_attached_value"); }
        else if (i < argv.size()) {
          if (!argv[i].empty() && argv[i][0] == '-') lab("value_starts_with_dash");
          R.events.push_back({c, argv[i++], false}); R.kindOf[ti] = 1; R.tookNext[ti] = 1; lab("short_detached_value");
        }
        else { R.events.push_back({':', std::string("-") + t[k], false}); lab("missing_short"); }
        break;
      }
      continue;
    }
    if (t.empty()) lab("empty_token"); else if (t == "-") lab("lone_dash"); else lab("non_option");
    R.events.push_back({0, t, false});
  }
  for (size_t k = R.events.size(); k-- > 0 && R.events[k].tok == 0;) R.events[k].tok = prevTi;
  return R;
}

std::string show(int ch, const std::string& a) {
  char b[64];
  if (ch > 32 && ch < 127) snprintf(b, sizeof b, "('%c',", ch); else snprintf(b, sizeof b, "(%d,", ch);
  std::string s = b; s += '"';
  for (unsigned char c : a) { if (c >= 32 && c < 127) s += (char)c; else { snprintf(b, sizeof b, "\\x%02x", c); s += b; } }
  s += "\")";
  return s;
}

template <usize N> Process::Arguments* mk(int argc, char** argv, const Process::Option* tbl) {
  return new Process::Arguments(argc, argv, *reinterpret_cast<const Process::Option(*)[N]>(tbl));
}
Process::Arguments* mkArgs(size_t n, int argc, char** argv, const Process::Option* tbl) {
  switch (n) {
    case 1: return mk<1>(argc, argv, tbl); case 2: return mk<2>(argc, argv, tbl); case 3: return mk<3>(argc, argv, tbl); case 4: return mk<4>(argc, argv, tbl);
    case 5: return mk<5>(argc, argv, tbl); case 6: return mk<6>(argc, argv, tbl); default: return mk<7>(argc, argv, tbl);
  }
}
}  // namespace

void pbt_warmup() { String w("x"); String w2(w); w2.append('y'); }

// ---------------------------------------------------------------- generator
namespace {
const char* const VALUES[] = {"v", "file", "", "-", "--", "-a", "-x", "--out", "a=b", "=", "val ue", "-ab", "--verbose", "7"};
const char* const PLAIN[] = {"file", "x", "a", "out", "a=b", "val ue", "o", "1"};
const char* const UNKNOWN_LONG[] = {"foo", "outx", "xout", "paths", "levels", "verbosee", "Out", "x", "out-"};   // none is a prefix of a known name
std::string pickv(Rng& r, bool nonEmpty = false) { for (;;) { std::string v = VALUES[r.below(sizeof VALUES / sizeof *VALUES)]; if (!nonEmpty || !v.empty()) return v; } }
}

void pbt_generate(Rng& r, int size, Case& c) {
  long mask = r.chance(75) ? 127 : (long)r.below(128);
  c.add("table", mask, (long)r.below(2));
  size_t want = (size_t)r.below((uint64_t)std::min(8, size) + 1);
  std::vector<std::string> toks;
  static const int W[] = {20, 8, 10, 6, 8, 8, 7, 5, 4, 3, 3, 10, 2};
  while (toks.size() < want) {
    switch (r.weighted(W, sizeof W / sizeof *W)) {
      case 0: {  // cluster of letters, possibly ending in an argument option with attached / detached value
        static const int KW[] = {30, 35, 25, 10};
        int k = 1 + r.weighted(KW, 4);
        std::string t = "-";
        for (int j = 0; j < k; ++j) t += "abcabcxy"[r.below(8)];
        if (r.chance(25)) {
          t += r.chance(50) ? 'o' : 'p';
          int how = (int)r.below(3);
          if (how == 0) t += pickv(r, true);
          toks.push_back(t);
          if (how == 1) toks.push_back(pickv(r));
        } else toks.push_back(t);
        break;
      }
      case 1: toks.push_back(std::string(r.chance(50) ? "-o" : "-p") + pickv(r, true)); break;
      case 2: toks.push_back(r.chance(50) ? "-o" : "-p"); if (!r.chance(15)) toks.push_back(pickv(r)); break;
      case 3: toks.push_back("--verbose"); break;
      case 4: toks.push_back(std::string(r.chance(50) ? "--out=" : "--path=") + pickv(r)); break;
      case 5: toks.push_back(r.chance(50) ? "--out" : "--path"); if (!r.chance(15)) toks.push_back(pickv(r)); break;
      case 6: { int h = (int)r.below(3); if (h == 0) toks.push_back("--level"); else if (h == 1) toks.push_back("--level=" + pickv(r)); else { toks.push_back("--level"); toks.push_back(pickv(r)); } break; }
      case 7: { std::string t = std::string("--") + UNKNOWN_LONG[r.below(sizeof UNKNOWN_LONG / sizeof *UNKNOWN_LONG)]; if (r.chance(30)) t += "=" + pickv(r); toks.push_back(t); break; }
      case 8: toks.push_back("--"); break;
      case 9: toks.push_back("-"); break;
      case 10: toks.push_back(""); break;
      case 11: toks.push_back(PLAIN[r.below(sizeof PLAIN / sizeof *PLAIN)]); break;
      default: toks.push_back("--verbose=" + pickv(r, true)); break;
    }
  }
  if (toks.size() > 8) toks.resize(8);
  for (auto& t : toks) c.add("tok", 0, 0, 0, 0, t);
}

bool pbt_nontrivial(const Ctx& ctx) { return ctx.has("cluster_followed") || ctx.has("value_followed"); }

// ---------------------------------------------------------------- interpreter
void pbt_run(const Case& c, Ctx& ctx) {
  long mask = 127, mode = 0;
  std::vector<std::string> argv;
  argv.push_back("prog");
  for (const Op& op : c.ops) {
    if (op.name == "table") { mask = op.a[0] & 127; mode = op.a[1]; if (mask == 0) mask = 127; }
    else if (op.name == "tok") {
      if (argv.size() > MAXTOK) { ctx.count("skipped"); continue; }
      argv.push_back(std::string(op.data.c_str()));  // cut at the first NUL: argv elements are C strings
    }
    else ctx.count("unknown_op");
  }
  std::vector<PoolOpt> tbl;
  for (int k = 0; k < NPOOL; ++k) if (mask & (1 << k)) tbl.push_back(POOL[k]);
  if (mask != 127) ctx.label("partial_table");

  // known findings: remove exactly the triggering elements (and repeat, a removal can change how later elements parse)
  for (;;) {
    RefResult R = reference(argv, tbl, nullptr);
    size_t victim = 0;
    for (size_t i = 1; i < argv.size() && !victim; ++i) {
      if (R.clusterLetters[i] >= 2 && ctx.excluded("C20-cluster-skips-letters")) victim = i;
      else if (R.kindOf[i] == 2 && ctx.excluded("C20-long-flag-with-value")) victim = i;
    }
    if (!victim) break;
    argv.erase(argv.begin() + (long)victim);
  }

  RefResult R = reference(argv, tbl, &ctx);
  for (size_t i = 1; i < argv.size(); ++i) {
    if (R.clusterLetters[i] >= 2) { ctx.label("cluster>=2"); if (i + 1 + (size_t)R.tookNext[i] < argv.size()) ctx.label("cluster_followed"); }
    if (R.kindOf[i] == 1) {
      // "followed by more tokens": something is left after the option and its value
      ctx.label("value_form");
      if (i + 1 + (size_t)R.tookNext[i] < argv.size()) ctx.label("value_followed");
    }
  }

  // exactly sized blocks
  int argc = (int)argv.size();
  char** av = (char**)malloc(sizeof(char*) * (size_t)argc);
  for (int i = 0; i < argc; ++i) { av[i] = (char*)malloc(argv[(size_t)i].size() + 1); memcpy(av[i], argv[(size_t)i].c_str(), argv[(size_t)i].size() + 1); }
  Process::Option* ot = (Process::Option*)malloc(sizeof(Process::Option) * tbl.size());
  for (size_t k = 0; k < tbl.size(); ++k) { ot[k].character = tbl[k].character; ot[k].name = tbl[k].name; ot[k].flags = tbl[k].flags; }

  Process::Arguments* A = mkArgs(tbl.size(), argc, av, ot);
  String* reused = new String;
  size_t n = 0;
  for (;; ++n) {
    ctx.opIndex = (long)n;
    String* arg = (mode & 1) ? new String : reused;
    int ch = -12345;
    bool more = A->read(ch, *arg);
    if (!more) {
      if (arg != reused) delete arg;
      if (n < R.events.size()) {
        const Event& e = R.events[n];
        ctx.fail("mismatch:end-early", "read() returned false after " + std::to_string(n) + " of " + std::to_string(R.events.size()) + " events; next expected " + show(e.ch, e.arg));
      }
      break;
    }
    std::string got((const char*)*arg, (size_t)arg->length());
    if (arg != reused) delete arg;
    if (n >= R.events.size()) ctx.fail("mismatch:extra-event", "event #" + std::to_string(n) + " " + show(ch, got) + " after the expected end (" + std::to_string(R.events.size()) + " events)");
    const Event& e = R.events[n];
    if (ch != e.ch || (!e.anyArg && got != e.arg))
      ctx.fail(R.clusterLetters[e.tok] >= 2 ? "mismatch:event:cluster" : R.kindOf[e.tok] == 2 ? "mismatch:event:flag-with-value" : "mismatch:event", "event #" + std::to_string(n) + " is " + show(ch, got) + ", expected " + show(e.ch, e.arg) + (e.anyArg ? " (any text)" : ""));
    if (n > R.events.size() + 4) break;
  }
  ctx.opIndex = -2;
  delete reused;
  delete A;
  // the argument vector is input only
  for (int i = 0; i < argc; ++i) if (memcmp(av[i], argv[(size_t)i].c_str(), argv[(size_t)i].size() + 1) != 0) ctx.fail("argv-modified", "argv[" + std::to_string(i) + "] changed");
  for (int i = 0; i < argc; ++i) free(av[i]);
  free(av); free(ot);
}
