// C20 part "args": Process::Arguments against a reference parser written from the getopt_long conventions
// named in the property statement.  No processes involved.
//
// Case text:
//   table <mask> <mode> 0 0 x          option table = entries of the pool selected by the 7-bit mask (0 -> whole pool);
//                                      mode bit 0: a fresh String per read() instead of one reused String
//   tok 0 0 0 0 x<bytes>               one argv element, taken literally (cut at the first NUL byte); at most 12 are used
//
// Pool: flags a b c (short only), required-argument options o/"out" and p/"path", long-only flag "verbose" (256), long-only "verb" (258) and "pa" (259, takes a value) whose names are prefixes of earlier entries,
// long-only optional-argument option "level" (257).  argv[0] is "prog".  The argv array, every argv string and the
// option table are exactly sized heap blocks, so any read outside them is an ASan report.
#define PBT_MAIN
#include "pbt.hpp"
#include <nstd/Process.hpp>
#include <string>
#include <vector>

const char* pbt_property = "C20";
const char* pbt_part = "args";

using namespace pbt;

#include "c20_args_ref.hpp"
static void c20Label(const char* l) { pbt::g_ctx.label(l); }

void pbt_warmup() { String w("x"); String w2(w); w2.append('y'); }

// ---------------------------------------------------------------- generator
namespace {
const char* const VALUES[] = {"v", "file", "", "-", "--", "-a", "-x", "--out", "a=b", "=", "val ue", "-ab", "--verbose", "7"};
const char* const PLAIN[] = {"file", "x", "a", "out", "a=b", "val ue", "o", "1"};
const char* const UNKNOWN_LONG[] = {"foo", "outx", "xout", "paths", "levels", "verbosee", "Out", "x", "out-"};   // none is a prefix of a known name
std::string pickv(Rng& r, bool nonEmpty = false) { for (;;) { std::string v = VALUES[r.below(sizeof VALUES / sizeof *VALUES)]; if (!nonEmpty || !v.empty()) return v; } }
}

void pbt_generate(Rng& r, int size, Case& c) {
  long mask = r.chance(75) ? FULLMASK : (long)r.below((uint64_t)FULLMASK + 1);
  c.add("table", mask, (long)r.below(2));
  size_t want = (size_t)r.below((uint64_t)std::min(8, size) + 1);
  if (r.chance(2)) { c.add("noargv"); want = 0; }
  std::vector<std::string> toks;
  static const int W[] = {20, 8, 10, 6, 8, 8, 7, 5, 4, 3, 3, 10, 2};
  while (toks.size() < want) {
    switch (r.weighted(W, sizeof W / sizeof *W)) {
      case 0: {  // cluster of letters, possibly ending in an argument option with attached / detached value
        static const int KW[] = {30, 35, 25, 10};
        int k = 1 + r.weighted(KW, 4);
        std::string t = "-";
        for (int j = 0; j < k; ++j) t += "abcabcxy"[r.below(8)];
        if (r.chance(25)) {
          t += r.chance(50) ? 'o' : 'p';
          int how = (int)r.below(3);
          if (how == 0) t += pickv(r, true);
          toks.push_back(t);
          if (how == 1) toks.push_back(pickv(r));
        } else toks.push_back(t);
        break;
      }
      case 1: toks.push_back(std::string(r.chance(50) ? "-o" : "-p") + pickv(r, true)); break;
      case 2: toks.push_back(r.chance(50) ? "-o" : "-p"); if (!r.chance(15)) toks.push_back(pickv(r)); break;
      case 3: if ((mask & 128) && r.chance(35)) toks.push_back("--verb"); else toks.push_back("--verbose"); break;
      case 4: toks.push_back(std::string(r.chance(50) ? "--out=" : "--path=") + pickv(r)); break;
      case 5: if ((mask & 256) && r.chance(25)) { if (r.chance(50)) toks.push_back("--pa=" + pickv(r)); else { toks.push_back("--pa"); if (!r.chance(15)) toks.push_back(pickv(r)); } break; }
              toks.push_back(r.chance(50) ? "--out" : "--path"); if (!r.chance(15)) toks.push_back(pickv(r)); break;
      case 6: { int h = (int)r.below(3); if (h == 0) toks.push_back("--level"); else if (h == 1) toks.push_back("--level=" + pickv(r)); else { toks.push_back("--level"); toks.push_back(pickv(r)); } break; }
      case 7: { std::string t = std::string("--") + UNKNOWN_LONG[r.below(sizeof UNKNOWN_LONG / sizeof *UNKNOWN_LONG)]; if (r.chance(30)) t += "=" + pickv(r); toks.push_back(t); break; }
      case 8: toks.push_back("--"); break;
      case 9: toks.push_back("-"); break;
      case 10: toks.push_back(""); break;
      case 11: toks.push_back(PLAIN[r.below(sizeof PLAIN / sizeof *PLAIN)]); break;
      default: toks.push_back("--verbose=" + pickv(r, true)); break;
    }
  }
  if (toks.size() > 8) toks.resize(8);
  for (auto& t : toks) c.add("tok", 0, 0, 0, 0, t);
}

bool pbt_nontrivial(const Ctx& ctx) { return ctx.has("cluster_followed") || ctx.has("value_followed"); }

// ---------------------------------------------------------------- interpreter
void pbt_run(const Case& c, Ctx& ctx) {
  long mask = FULLMASK, mode = 0;
  std::vector<std::string> argv; bool emptyVector = false;
  argv.push_back("prog");
  for (const Op& op : c.ops) {
    if (op.name == "table") { mask = op.a[0] & FULLMASK; mode = op.a[1]; if (mask == 0) mask = FULLMASK; }
    else if (op.name == "noargv") emptyVector = true;   // not even a program name: the empty argument vector
    else if (op.name == "tok") {
      if (argv.size() > MAXTOK) { ctx.count("skipped"); continue; }
      argv.push_back(std::string(op.data.c_str()));  // cut at the first NUL: argv elements are C strings
    }
    else ctx.count("unknown_op");
  }
  std::vector<PoolOpt> tbl;
  for (int k = 0; k < NPOOL; ++k) if (mask & (1 << k)) tbl.push_back(POOL[k]);
  if (mask != FULLMASK) ctx.label("partial_table");

  // known findings: remove exactly the triggering elements (and repeat, a removal can change how later elements parse)
  for (;;) {
    RefResult R = reference(argv, tbl, nullptr);
    size_t victim = 0;
    for (size_t i = 1; i < argv.size() && !victim; ++i) {
      if (R.clusterLetters[i] >= 2 && ctx.excluded("C20-cluster-skips-letters")) victim = i;
      else if (R.kindOf[i] == 2 && ctx.excluded("C20-long-flag-with-value")) victim = i;
    }
    if (!victim) break;
    argv.erase(argv.begin() + (long)victim);
  }

  RefResult R = reference(argv, tbl, c20Label);
  for (size_t i = 1; i < argv.size(); ++i) {
    if (R.clusterLetters[i] >= 2) { ctx.label("cluster>=2"); if (i + 1 + (size_t)R.tookNext[i] < argv.size()) ctx.label("cluster_followed"); }
    if (R.kindOf[i] == 1) {
      // "followed by more tokens": something is left after the option and its value
      ctx.label("value_form");
      if (i + 1 + (size_t)R.tookNext[i] < argv.size()) ctx.label("value_followed");
    }
  }

  // exactly sized blocks
  if (emptyVector && argv.size() == 1) { argv.clear(); ctx.label("empty_argument_vector"); }   // argc == 0: nothing to report, nothing to read (the block of the vector has size 0)
  int argc = (int)argv.size();
  char** av = (char**)malloc(sizeof(char*) * (size_t)argc);
  for (int i = 0; i < argc; ++i) { av[i] = (char*)malloc(argv[(size_t)i].size() + 1); memcpy(av[i], argv[(size_t)i].c_str(), argv[(size_t)i].size() + 1); }
  Process::Option* ot = (Process::Option*)malloc(sizeof(Process::Option) * tbl.size());
  for (size_t k = 0; k < tbl.size(); ++k) { ot[k].character = tbl[k].character; ot[k].name = tbl[k].name; ot[k].flags = tbl[k].flags; }

  Process::Arguments* A = mkArgs(tbl.size(), argc, av, ot);
  String* reused = new String;
  size_t n = 0;
  for (;; ++n) {
    ctx.opIndex = (long)n;
    String* arg = (mode & 1) ? new String : reused;
    int ch = -12345;
    bool more = A->read(ch, *arg);
    if (!more) {
      if (arg != reused) delete arg;
      if (n < R.events.size()) {
        const Event& e = R.events[n];
        ctx.fail("mismatch:end-early", "read() returned false after " + std::to_string(n) + " of " + std::to_string(R.events.size()) + " events; next expected " + show(e.ch, e.arg));
      }
      break;
    }
    std::string got((const char*)*arg, (size_t)arg->length());
    if (arg != reused) delete arg;
    if (n >= R.events.size()) ctx.fail("mismatch:extra-event", "event #" + std::to_string(n) + " " + show(ch, got) + " after the expected end (" + std::to_string(R.events.size()) + " events)");
    const Event& e = R.events[n];
    if (ch != e.ch || (!e.anyArg && got != e.arg))
      ctx.fail(R.clusterLetters[e.tok] >= 2 ? "mismatch:event:cluster" : R.kindOf[e.tok] == 2 ? "mismatch:event:flag-with-value" : "mismatch:event", "event #" + std::to_string(n) + " is " + show(ch, got) + ", expected " + show(e.ch, e.arg) + (e.anyArg ? " (any text)" : ""));
    if (n > R.events.size() + 4) break;
  }
  ctx.opIndex = -2;
  delete reused;
  delete A;
  // the argument vector is input only
  for (int i = 0; i < argc; ++i) if (memcmp(av[i], argv[(size_t)i].c_str(), argv[(size_t)i].size() + 1) != 0) ctx.fail("argv-modified", "argv[" + std::to_string(i) + "] changed");
  for (int i = 0; i < argc; ++i) free(av[i]);
  free(av); free(ot);
}
