// C09 (single-threaded part): histories of copy / assign (incl. self) / swap / modify / destroy over handles of one kind
// (String, Variant string, Variant list, RefCount::Ptr, Xml::Variant) against a value model, under ASan + ledger.
#define PBT_MAIN
#include "pbt.hpp"
#include "c09_kinds.hpp"

const char* pbt_property = "C09";
const char* pbt_part = "handles";
void pbt_warmup() { (void)((const Xml::Variant&)Xml::Variant()).toElement(); (void)((const Variant&)Variant()).toList().isEmpty(); }

using namespace pbt;
using namespace c09;

namespace { const int NH = 5; }

void pbt_generate(Rng& r, int size, Case& c) {
  c.params["kind"] = (long)r.below(NKIND);
  int n = 2 + (int)r.below((uint64_t)size + 1);
  static const char* names[] = {"make", "copy", "assign", "swap", "modify", "destroy", "raw", "clear", "ownpart"};
  static const int w[] = {8, 22, 22, 12, 18, 14, 4, 8, 5};
  for (int k = 0; k < n; ++k) c.add(names[r.weighted(w, 9)], (long)r.below(NH), (long)r.below(NH), (long)r.below(100), (long)r.below(2));
}

bool pbt_nontrivial(const Ctx& ctx) { return ctx.has("swap_or_assign_between_payloads_then_destroy"); }

void pbt_run(const Case& cs, Ctx& ctx) {
  pbt::g_ledger.limitBytes = 16u << 20;
  int kind = (int)(((cs.param("kind", 0) % NKIND) + NKIND) % NKIND);
  Kind* k = kindOf(kind);
  memset(g_dtor, 0, sizeof g_dtor); g_objs = 0;
  void* h[NH]; std::string m[NH]; int pay[NH];  // pay: model-side payload identity (for labels and the Ptr object count)
  for (int i = 0; i < NH; ++i) { h[i] = nullptr; pay[i] = -1; }
  int nextPay = 100; int recentMix = -1;
  h[0] = k->make(0); m[0] = k->initial(0); pay[0] = nextPay++;
  h[1] = k->make(1); m[1] = k->initial(1); pay[1] = nextPay++;
  h[2] = k->copy(h[0]); m[2] = m[0]; pay[2] = pay[0];
  h[3] = k->copy(h[1]); m[3] = m[1]; pay[3] = pay[1];
  auto objCountCheck = [&](const char* opname) {
    if (!isPtrKind(kind)) return;
    // an object is destroyed exactly when no handle refers to it any more
    int refs[4096]; memset(refs, 0, sizeof(int) * (size_t)std::min(g_objs, 4096));
    for (int i = 0; i < NH; ++i) if (h[i]) { int id = k->objectId(h[i]); if (id >= 0 && id < 4096) ++refs[id]; }
    for (int id = 0; id < g_objs && id < 4096; ++id) {
      if (refs[id] > 0 && g_dtor[id] != 0) { char d[160]; snprintf(d, sizeof d, "after %s: object %d was destroyed although %d handles still refer to it", opname, id, refs[id]); ctx.fail("refcount:released-early", d); }
      if (refs[id] == 0 && g_dtor[id] != 1) { char d[160]; snprintf(d, sizeof d, "after %s: object %d has no handle left but was destroyed %d times", opname, id, g_dtor[id]); ctx.fail("refcount:destructor-count", d); }
    }
  };
  long idx = 0;
  for (const Op& op : cs.ops) {
    ctx.opIndex = idx++;
    int a = (int)(((op.a[0] % NH) + NH) % NH), b = (int)(((op.a[1] % NH) + NH) % NH);
    const std::string& nm = op.name;
    if (nm == "make") { if (h[a]) k->destroy(h[a]); int p = (int)(((op.a[3] % 3) + 3) % 3); h[a] = k->make(p); m[a] = k->initial(p); pay[a] = nextPay++; }
    else if (nm == "copy") { if (!h[a] || a == b) { ctx.count("skipped"); continue; } if (h[b]) k->destroy(h[b]); h[b] = k->copy(h[a]); m[b] = m[a]; pay[b] = pay[a]; ctx.label("copy"); }
    else if (nm == "assign") {
      if (!h[a] || !h[b]) { ctx.count("skipped"); continue; }
      if (a == b) ctx.label("self_assign"); else if (pay[a] != pay[b]) recentMix = b;
      k->assign(h[b], h[a]); m[b] = m[a]; pay[b] = pay[a];
    }
    else if (nm == "swap") {
      if (!h[a] || !h[b]) { ctx.count("skipped"); continue; }
      if (isPtrKind(kind) && ctx.excluded("C09-ptr-swap")) { ctx.count("skipped"); continue; }
      if (!k->swap(h[a], h[b])) { ctx.count("skipped"); continue; }
      if (a != b) { std::swap(m[a], m[b]); if (pay[a] != pay[b]) recentMix = a; std::swap(pay[a], pay[b]); } else ctx.label("swap_self");
      ctx.label("swap");
    }
    else if (nm == "modify") { if (!h[a]) { ctx.count("skipped"); continue; } bool shared = false; for (int i = 0; i < NH; ++i) if (i != a && h[i] && pay[i] == pay[a]) shared = true; if (shared) ctx.label("modify_while_shared"); k->modify(h[a], a, (int)op.a[2], m[a]); pay[a] = nextPay++; }
    else if (nm == "destroy") { if (!h[a]) { ctx.count("skipped"); continue; } if (recentMix >= 0) ctx.label("swap_or_assign_between_payloads_then_destroy"); k->destroy(h[a]); h[a] = nullptr; pay[a] = -1; }
    else if (nm == "clear") { if (!h[a]) { ctx.count("skipped"); continue; } k->clear(h[a], m[a]); pay[a] = nextPay++; ctx.label("clear"); }
    else if (nm == "ownpart") {
      // the handle is assigned a value that lives inside its own payload (an element's child or name): the source must be read
      // before the old payload is released
      if (!h[a]) { ctx.count("skipped"); continue; }
      bool shared = false; for (int i = 0; i < NH; ++i) if (i != a && h[i] && pay[i] == pay[a]) shared = true;
      if (!k->assignFromOwnPayload(h[a], (int)op.a[3], m[a])) { ctx.count("skipped"); continue; }
      pay[a] = nextPay++; ctx.label(shared ? "assign_from_own_payload_shared" : "assign_from_own_payload_sole_owner");
    }
    else if (nm == "raw") {
      // RefCount::Ptr: assignment of a raw pointer / null
      if (!isPtrKind(kind) || !h[a]) { ctx.count("skipped"); continue; }
      ObjPtr& p = *(ObjPtr*)h[a];
      if (op.a[3] & 1) { p = (Obj*)0; m[a] = "(null)"; pay[a] = nextPay++; }
      else if (h[b]) { ObjPtr& q = *(ObjPtr*)h[b]; Obj* rawp = q.operator->(); p = rawp; m[a] = m[b]; pay[a] = pay[b]; }
      ctx.label("ptr_raw_assign");
    }
    else { ctx.count("unknown_op"); continue; }
    for (int i = 0; i < NH; ++i) if (h[i]) { std::string got = k->read(h[i]); if (got != m[i]) { char d[300]; snprintf(d, sizeof d, "after %s: handle %d reads '%s', the model says '%s'", nm.c_str(), i, got.c_str(), m[i].c_str()); ctx.fail("mismatch:handle-content", d); } }
    objCountCheck(nm.c_str());
  }
  ctx.opIndex = -2;
  for (int i = 0; i < NH; ++i) if (h[i]) { k->destroy(h[i]); h[i] = nullptr; }
  objCountCheck("final destruction");
}
