// C15 (opfuzz part "tree"): value trees -> Json::toString -> parse -> equal tree; the same tree as a document with comments
// -> stripComments == reference stripper and parses to the same tree; truncations and byte flips for totality / error position.
#define PBT_MAIN
#include "pbt.hpp"
#include "json_common.hpp"
#include <climits>

const char* pbt_property = "C15";
const char* pbt_part = "tree";

using namespace pbt;

namespace {
struct JV {
  int t = 0;  // 0 null 1 bool 2 int 3 int64 4 string 5 list 6 map
  bool b = false; long long i = 0; std::string s;
  std::vector<JV> items; std::vector<std::pair<std::string, JV>> map;
};
Variant build(const JV& v) {
  switch (v.t) {
    case 1: return Variant(v.b);
    case 2: return Variant((int)v.i);
    case 3: return Variant((int64)v.i);
    case 4: return Variant(String(v.s.data(), v.s.size()));
    case 5: { List<Variant> l; for (auto& x : v.items) l.append(build(x)); return Variant(l); }
    case 6: { HashMap<String, Variant> m; for (auto& x : v.map) m.append(String(x.first.data(), x.first.size()), build(x.second)); return Variant(m); }
    default: return Variant();
  }
}
// structural comparison of a parsed value with the model (integers: an int64 that fits int comes back as int)
std::string cmp(const Variant& v, const JV& m, const std::string& path) {
  char b[200];
  switch (m.t) {
    case 0: if (!v.isNull()) return path + ": expected null"; break;
    case 1: if (v.getType() != Variant::boolType || v.toBool() != m.b) return path + ": bool differs"; break;
    case 2: case 3: {
      bool fits = m.i >= INT_MIN && m.i <= INT_MAX;
      if (v.getType() != (fits ? Variant::intType : Variant::int64Type)) { snprintf(b, sizeof b, ": integer %lld came back with type %d", m.i, (int)v.getType()); return path + b; }
      if (v.toInt64() != (int64)m.i) { snprintf(b, sizeof b, ": integer %lld came back as %lld", m.i, (long long)v.toInt64()); return path + b; }
      break;
    }
    case 4: { if (v.getType() != Variant::stringType) return path + ": expected string"; String s = v.toString(); if (s.length() != m.s.size() || memcmp((const char*)s, m.s.data(), m.s.size()) != 0) return path + ": string bytes differ: got " + Case::hex(std::string((const char*)s, s.length())) + " expected " + Case::hex(m.s); break; }
    case 5: {
      if (v.getType() != Variant::listType) return path + ": expected list";
      const List<Variant>& l = v.toList(); if (l.size() != m.items.size()) return path + ": list size differs";
      size_t k = 0; for (List<Variant>::Iterator it = l.begin(); it != l.end(); ++it, ++k) { snprintf(b, sizeof b, "[%zu]", k); std::string r = cmp(*it, m.items[k], path + b); if (!r.empty()) return r; }
      break;
    }
    case 6: {
      if (v.getType() != Variant::mapType) return path + ": expected map";
      const HashMap<String, Variant>& h = v.toMap(); if (h.size() != m.map.size()) return path + ": map size differs";
      size_t k = 0; for (HashMap<String, Variant>::Iterator it = h.begin(); it != h.end(); ++it, ++k) {
        const String& key = it.key(); if (key.length() != m.map[k].first.size() || memcmp((const char*)key, m.map[k].first.data(), key.length()) != 0) return path + ": key differs: got " + Case::hex(std::string((const char*)key, key.length())) + " expected " + Case::hex(m.map[k].first);
        std::string r = cmp(*it, m.map[k].second, path + "{" + Case::hex(m.map[k].first) + "}"); if (!r.empty()) return r;
      }
      break;
    }
  }
  return std::string();
}

// own serialiser: standard JSON escapes, optional comments / white space between tokens (driven by a deterministic stream)
struct Deco { uint64_t s; bool on; uint64_t next() { s = s * 6364136223846793005ull + 1442695040888963407ull; return s >> 33; } };
void gap(std::string& out, Deco& d) {
  if (!d.on) return;
  switch (d.next() % 9) {
    case 0: out += " "; break;
    case 1: out += "\n"; break;
    case 2: out += "// line \"comment\" /* not a block */ \\\n"; break;
    case 3: out += "/* block * with // and \" quote */"; break;
    case 4: out += "/* multi\r\n * line ** \n*/"; break;
    case 5: out += "\t// x\r\n"; break;
    case 6: out += "/**/"; break;
    case 7: out += "/*/ tricky */"; break;
    default: break;
  }
}
void emitString(std::string& out, const std::string& s, Deco& d) {
  out += '"';
  size_t i = 0;
  while (i < s.size()) {
    unsigned char c = (unsigned char)s[i];
    char b[16];
    if (c == '"') out += "\\\""; else if (c == '\\') out += "\\\\"; else if (c == '\n') out += "\\n"; else if (c == '\r') out += "\\r"; else if (c == '\t' && d.on && d.next() % 2) out += "\\t";
    else if (c == '\b') out += "\\b"; else if (c == '\f') out += "\\f"; else if (c == '/' && d.on && d.next() % 2) out += "\\/";
    else if (c < 0x20) { snprintf(b, sizeof b, "\\u%04x", c); out += b; }
    else if (c >= 0x80 && d.on && d.next() % 2) {
      // decode one UTF-8 sequence and emit \u escapes, surrogate pairs above the BMP
      int len = (c & 0xE0) == 0xC0 ? 2 : (c & 0xF0) == 0xE0 ? 3 : (c & 0xF8) == 0xF0 ? 4 : 1;
      if (len == 1 || i + (size_t)len > s.size()) { out += (char)c; ++i; continue; }
      uint32_t cp = len == 2 ? (c & 0x1F) : len == 3 ? (c & 0x0F) : (c & 0x07);
      bool wellFormed = true;
      for (int k = 1; k < len; ++k) { unsigned char cc = (unsigned char)s[i + (size_t)k]; if ((cc & 0xC0) != 0x80) wellFormed = false; cp = (cp << 6) | (cc & 0x3F); }
      // anything that is not one well-formed sequence (cut, over-long, surrogate, beyond U+10FFFF) stays a raw byte
      if (!wellFormed || cp < (len == 2 ? 0x80u : len == 3 ? 0x800u : 0x10000u) || (cp >= 0xD800 && cp <= 0xDFFF) || cp > 0x10FFFF) { out += (char)c; ++i; continue; }
      if (cp >= 0x10000) { uint32_t v = cp - 0x10000; snprintf(b, sizeof b, "\\u%04X\\u%04x", 0xD800 + (v >> 10), 0xDC00 + (v & 0x3FF)); out += b; }
      else { snprintf(b, sizeof b, "\\u%04x", cp); out += b; }
      i += (size_t)len; continue;
    }
    else out += (char)c;
    ++i;
  }
  out += '"';
}
void emit(std::string& out, const JV& v, Deco& d) {
  char b[40];
  switch (v.t) {
    case 0: out += "null"; break;
    case 1: out += v.b ? "true" : "false"; break;
    case 2: case 3: snprintf(b, sizeof b, "%lld", v.i); out += b; break;
    case 4: emitString(out, v.s, d); break;
    case 5: out += '['; gap(out, d); for (size_t k = 0; k < v.items.size(); ++k) { if (k) { out += ','; gap(out, d); } emit(out, v.items[k], d); gap(out, d); } out += ']'; break;
    case 6: out += '{'; gap(out, d); for (size_t k = 0; k < v.map.size(); ++k) { if (k) { out += ','; gap(out, d); } emitString(out, v.map[k].first, d); gap(out, d); out += ':'; gap(out, d); emit(out, v.map[k].second, d); gap(out, d); } out += '}'; break;
  }
}

// One Json::Parser object serves all parses of a case (a parser that is used for several documents must not carry anything
// over from one to the next); every third call uses a fresh one.
Json::Parser* g_parser = nullptr; long g_parses = 0;
bool parseExact(const std::string& text, Variant& v, int& line, int& col) {
  char* t = (char*)malloc(text.size() + 1); memcpy(t, text.data(), text.size()); t[text.size()] = 0;
  Json::Parser fresh; Json::Parser& p = (g_parser && (++g_parses % 3)) ? *g_parser : fresh;
  bool ok = p.parse(t, v);
  if (!ok) { line = p.getErrorLine(); col = p.getErrorColumn(); }
  free(t);
  return ok;
}

const char* const STRS[] = {"", "a", "key", "with \"quotes\"", "back\\slash", "line\nbreak", "cr\rlf\r\n", "tab\there", "sl/ash", "\x01\x1f\x7f", "\xc3\xa4\xc3\xb6", "\xe2\x82\xac", "\xf0\x9f\x98\x80", "//not a comment", "/*neither*/", "\\u0041", "\\n", "end\\",
                             "\xe2\x80\xa8", "x\xe2\x80\xa9y", "\xe2\x80\xa8\xe2\x80\xa9", "\xe2\x80\xaa", "\xe2\x80\xa7", "\xc2\x85", "\xef\xbb\xbf", "\xe2", "\xe2\x80", "\xed\x9f\xbf\xee\x80\x80"};   // line / paragraph separators and their neighbours, NEL, BOM, cut sequences
}  // namespace

void pbt_warmup() { Variant v; Json::parse("[1,{\"a\":\"b\"}]", v); (void)Json::toString(v); }

void pbt_generate(Rng& r, int size, Case& c) {
  bool deep = r.chance(3);
  if (deep) {  // dedicated deep chain
    int d = r.chance(8) ? 1000 : 50 + (int)r.below(350);  // Json::toString is quadratic in the text size (String::append grows exactly)
    for (int k = 0; k < d; ++k) { if (r.chance(50)) c.add("list"); else { c.add("map"); c.add("key", 0, 0, 0, 0, "k"); } }
    c.add("int", 0, 7);
    c.params["cuts"] = 3;
    return;
  }
  if (r.chance(1)) {  // dedicated wide document: a thousand and more small records at a small depth
    int lv = (int)r.below(3); for (int k = 0; k < lv; ++k) c.add("list");
    c.add("list"); c.add("records", 0, 900 + (long)r.below(800)); c.add("pop"); c.add("int", 0, 5);
    c.params["cuts"] = 2;
    return;
  }
  int n = 1 + (int)r.below((uint64_t)size + 1);
  static const char* names[] = {"null", "bool", "int", "int64", "str", "list", "map", "pop"};
  static const int w[] = {3, 4, 8, 6, 14, 9, 9, 12};
  for (int k = 0; k < n; ++k) {
    int o = r.weighted(w, 8);
    std::string d;
    if (o == 4 || o == 6) {
      if (r.chance(65)) d = STRS[r.below(sizeof STRS / sizeof *STRS)];
      else { int len = (int)r.below(8); for (int q = 0; q < len; ++q) { static const char al[] = "ab\"\\/\n\r\t u0{}[]:,*"; d += al[r.below(sizeof al - 1)]; } }
      if (r.chance(30)) d += STRS[r.below(sizeof STRS / sizeof *STRS)];
    }
    static const long long IB[] = {0, 1, -1, INT_MAX, INT_MIN, (long long)INT_MAX + 1, (long long)INT_MIN - 1, LLONG_MAX, LLONG_MIN, 1234567890123LL};
    long long iv = r.chance(40) ? IB[r.below(10)] : (long long)r.next() >> (int)r.below(63);
    if (r.chance(50)) iv = -iv;
    c.add(names[o], (long)r.below(2), (long)iv, (long)r.below(1000), 0, d);
    if (o == 6) {}  // keys are given by the data of the value ops (see interpreter)
  }
  c.params["deco"] = (long)r.below(1 << 30);
  c.params["cuts"] = (long)r.below(1 << 20);
}

bool pbt_nontrivial(const Ctx& ctx) { return (ctx.has("escape_or_nonascii") && ctx.has("depth>=2")) || ctx.has("comment_next_to_string_with_escape"); }

void pbt_run(const Case& cs, Ctx& ctx) {
  pbt::g_ledger.limitBytes = 48u << 20;
  struct ParserScope { ParserScope() { g_parser = new Json::Parser; g_parses = 0; } ~ParserScope() { delete g_parser; g_parser = nullptr; } } parserScope;
  // ---- build the model tree from the flat op list (total: pops on an empty stack are ignored, open containers are closed at the end)
  JV root; bool haveRoot = false;
  std::vector<std::vector<size_t>> open;  // index paths of the open containers (the root container has the empty path)
  auto resolve = [&](const std::vector<size_t>& p) -> JV* { JV* n = &root; for (size_t ix : p) n = n->t == 5 ? &n->items[ix] : &n->map[ix].second; return n; };
  long idx = 0; int maxDepth = 0; long keyCounter = 0;
  for (const Op& op : cs.ops) {
    ctx.opIndex = idx++;
    const std::string& nm = op.name;
    std::string d = op.data; for (auto& ch : d) if (!ch) ch = '0';
    JV v;
    if (nm == "null") v.t = 0; else if (nm == "bool") { v.t = 1; v.b = op.a[0] & 1; } else if (nm == "int") { v.t = 2; v.i = (int)op.a[1]; } else if (nm == "int64") { v.t = 3; v.i = op.a[1]; }
    else if (nm == "str") { v.t = 4; v.s = d; } else if (nm == "list") v.t = 5; else if (nm == "map") v.t = 6;
    else if (nm == "pop") { if (!open.empty()) open.pop_back(); continue; }
    else if (nm == "key") continue;
    else if (nm == "records") {   // many small maps appended to the open list
      if (open.empty()) { ctx.count("skipped"); continue; }
      JV* parent = resolve(open.back()); if (parent->t != 5) { ctx.count("skipped"); continue; }
      long cnt = std::max(0L, std::min(2000L, op.a[1]));
      JV rec; rec.t = 6; JV a; a.t = 2; a.i = 1; JV b; b.t = 4; b.s = "x"; rec.map.emplace_back("a", a); rec.map.emplace_back("b", b);
      for (long q = 0; q < cnt; ++q) { rec.map[0].second.i = (int)q; parent->items.push_back(rec); }
      if (cnt >= 1000) ctx.label("records>=1000");
      if ((int)open.size() + 1 > maxDepth) maxDepth = (int)open.size() + 1;
      continue;
    }
    else { ctx.count("unknown_op"); continue; }
    bool container = v.t == 5 || v.t == 6;
    if (open.empty()) {
      if (haveRoot) { ctx.count("skipped"); continue; }
      root = v; haveRoot = true;
      if (container) open.push_back(std::vector<size_t>());
    } else {
      JV* parent = resolve(open.back()); size_t child;
      if (parent->t == 5) { parent->items.push_back(v); child = parent->items.size() - 1; }
      else {
        char kb[32]; snprintf(kb, sizeof kb, "k%ld", op.a[2] % 7);
        std::string key = ((nm == "str" || nm == "map") && !d.empty() && (op.a[2] & 1)) ? d : std::string(kb);
        bool dup = false; for (auto& e : parent->map) if (e.first == key) dup = true;
        if (dup) key += "#" + std::to_string(++keyCounter);
        parent->map.emplace_back(key, v); child = parent->map.size() - 1;
      }
      if (container) { std::vector<size_t> pth = open.back(); pth.push_back(child); open.push_back(pth); }
    }
    if ((int)open.size() > maxDepth) maxDepth = (int)open.size();
  }
  if (!haveRoot) { root.t = 0; }
  if (maxDepth >= 2) ctx.label("depth>=2");
  if (maxDepth >= 100) ctx.label("deep_chain");
  ctx.opIndex = -2;

  // ---- (a) serialise with the library, parse again
  Variant t = build(root);
  String textS = Json::toString(t);
  std::string text((const char*)textS, textS.length());
  {
    jsonref::Facts f; jsonref::scan(t, f); if (f.hasEscapeWorthy || f.nonAscii) ctx.label("escape_or_nonascii");
    Variant v2; int el = 0, ec = 0;
    if (!parseExact(text, v2, el, ec)) { char b[300]; snprintf(b, sizeof b, "output of Json::toString does not parse (line %d column %d): %s", el, ec, text.substr(0, 160).c_str()); ctx.fail("roundtrip:parse-failed", b); }
    std::string r = cmp(v2, root, "$"); if (!r.empty()) ctx.fail("roundtrip:tree-differs", r + " | text: " + text.substr(0, 120));
    if (!(t == v2) || !(v2 == t)) ctx.fail("roundtrip:not-equal", "parse(toString(t)) != t under Variant::operator==");
  }
  // ---- (b) the same tree as a document with comments and escapes
  {
    Deco d{(uint64_t)cs.param("deco", 1) * 2654435761ull + 1, true};
    std::string doc; gap(doc, d); emit(doc, root, d); gap(doc, d);
    std::string ref = jsonref::strip(doc);
    String strippedS = Json::stripComments(String(doc.data(), doc.size()));
    std::string stripped((const char*)strippedS, strippedS.length());
    if (stripped != ref) {
      size_t k = 0; while (k < stripped.size() && k < ref.size() && stripped[k] == ref[k]) ++k;
      char b[400]; snprintf(b, sizeof b, "stripComments differs from the reference at output offset %zu: got ...%s expected ...%s | doc hex %s", k, Case::hex(stripped.substr(k, 12)).c_str(), Case::hex(ref.substr(k, 12)).c_str(), Case::hex(doc.substr(0, 100)).c_str());
      ctx.fail("strip:differs", b);
    }
    if (doc.size() != ref.size()) ctx.label("has_comments");
    if (doc.size() != ref.size() && doc.find('\\') != std::string::npos) ctx.label("comment_next_to_string_with_escape");
    Variant v3; int el = 0, ec = 0;
    if (!parseExact(stripped, v3, el, ec)) { char b[300]; snprintf(b, sizeof b, "stripped document does not parse (line %d column %d): %s", el, ec, Case::hex(stripped.substr(0, 100)).c_str()); ctx.fail("document:parse-failed", b); }
    std::string r = cmp(v3, root, "$"); if (!r.empty()) ctx.fail("document:tree-differs", r);
  }
  // ---- (c) truncations and byte flips of the serialised text: total, error position inside the text
  {
    uint64_t cuts = (uint64_t)cs.param("cuts", 1);
    size_t n = text.size(); int tries = n <= 200 ? (int)n : n > 100000 ? 3 : 24;
    for (int q = 0; q < tries; ++q) {
      size_t at = n <= 200 ? (size_t)q : (size_t)((cuts = cuts * 6364136223846793005ull + 1442695040888963407ull) >> 33) % n;
      std::string cut = text.substr(0, at);
      Variant v; int el = 0, ec = 0;
      if (!parseExact(cut, v, el, ec)) { std::string e = jsonref::checkErrorPos(cut, el, ec); if (!e.empty()) ctx.fail("error-position", e + " | truncated text hex " + Case::hex(cut.substr(0, 80))); ctx.label("truncation_rejected"); }
      if (q < 12 && n && n <= 20000) {  // (a flipped quote makes the rest of the text one string; appending to a String is quadratic)
        std::string fl = text; size_t p = (size_t)((cuts = cuts * 6364136223846793005ull + 1442695040888963407ull) >> 33) % n; fl[p] = (char)("\"\\{}[],:x\n"[(cuts >> 20) % 10]);
        Variant v4; if (!parseExact(fl, v4, el, ec)) { std::string e = jsonref::checkErrorPos(fl, el, ec); if (!e.empty()) ctx.fail("error-position", e + " | flipped text hex " + Case::hex(fl.substr(0, 80))); }
      }
    }
  }
}
