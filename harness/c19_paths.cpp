// C19 / part "paths": the pure path functions of File are consistent.
// Inputs are token sequences over separators, dots and names; oracles are written against a reference
// lexical normaliser N(p) = (rooted?, components after dropping ""/"." and letting ".." cancel a preceding
// ordinary component; leading ".." and "/.." are kept).
#define PBT_MAIN
#include "pbt.hpp"
#include <nstd/File.hpp>
#include <nstd/Directory.hpp>
#include <string>
#include <vector>
#include <climits>

const char* pbt_property = "C19";
const char* pbt_part = "paths";

using namespace pbt;

namespace {
const char* const TOK[] = {"/", "\\", ".", "..", "a", "b", "c.d", "e.f.g", ".h", "x..", "..y", "c:"};
const int NTOK = 12;
const char* const EXTS[] = {"", "d", ".d", "g", ".g", "f.g", ".f.g", "h", ".h", ".", "y", ".y", "c.d", "e.f.g", "..", "a", "x", "."};
const int NEXT = 18;

bool isSep(char c) { return c == '/' || c == '\\'; }

struct Norm {
  bool rooted = false;
  std::vector<std::string> comps;
  bool cancelled = false;  // some ".." removed a component
  bool kept = false;       // some ".." was kept
  bool operator==(const Norm& o) const { return rooted == o.rooted && comps == o.comps; }
  std::string show() const { std::string r = rooted ? "/" : ""; for (size_t i = 0; i < comps.size(); ++i) { if (i) r += "/"; r += comps[i]; } return "[" + r + "]"; }
  bool hasDotDot() const { for (auto& c : comps) if (c == "..") return true; return false; }
};

Norm N(const std::string& p) {
  Norm n;
  n.rooted = !p.empty() && isSep(p[0]);
  size_t i = 0;
  while (i <= p.size()) {
    size_t e = i;
    while (e < p.size() && !isSep(p[e])) ++e;
    std::string c = p.substr(i, e - i);
    if (c.empty() || c == ".") {}
    else if (c == "..") {
      if (!n.comps.empty() && n.comps.back() != "..") { n.comps.pop_back(); n.cancelled = true; }
      else { n.comps.push_back(c); n.kept = true; }
    }
    else n.comps.push_back(c);
    i = e + 1;
  }
  return n;
}

std::string S(const String& s) { return std::string((const char*)s, s.length()); }
String L(const std::string& s) { return String(s.data(), s.size()); }

std::string genPath(Rng& r, int maxTok) {
  int n = (int)r.below((uint64_t)maxTok + 1);
  std::string p;
  int style = (int)r.below(4);  // 0: free tokens, 1: alternate separator/name, 2: rooted alternate, 3: free
  if (style == 2) p += r.chance(85) ? "/" : "\\";
  for (int i = 0; i < n; ++i) {
    if (style == 0 || style == 3) p += TOK[r.below(NTOK)];
    else {
      if (i) { p += r.chance(85) ? "/" : "\\"; if (r.chance(8)) p += "/"; }
      int k = r.chance(30) ? 3 : r.chance(12) ? 2 : 4 + (int)r.below(NTOK - 4);
      p += TOK[k];
      if (i == n - 1 && r.chance(10)) p += "/";
    }
  }
  return p;
}

std::string fmt(const std::string& s) { std::string r = "\""; for (char c : s) { if (c == '\\') r += "\\\\"; else r += c; } return r + "\""; }
}  // namespace

void pbt_warmup() { String w("x"); String w2 = File::simplifyPath(w); String cwd = Directory::getCurrentDirectory(); (void)w2; (void)cwd; }

void pbt_generate(Rng& r, int size, Case& c) {
  int nops = 1 + (int)r.below((uint64_t)(size < 1 ? 1 : size));
  static const char* names[] = {"simplify", "dirbase", "basext", "stemext", "rel", "abs"};
  static const int w[] = {30, 12, 14, 14, 30, 6};
  for (int k = 0; k < nops; ++k) {
    int o = r.weighted(w, 6);
    std::string d = genPath(r, 10);
    long a0 = (long)r.below(NEXT), a1 = 0;
    if (o == 2 && r.chance(50)) {
      // an extension that really is a suffix of the path (with or without its dot)
      size_t cut = d.size() ? r.below(d.size()) : 0; a1 = 1 + (long)cut;
    }
    if (o == 4) {
      std::string to;
      int mode = (int)r.below(5);
      if (mode == 0) to = genPath(r, 10);
      else {
        // share a prefix with "from": keep the first k separator-delimited pieces, then continue differently
        size_t cut = d.size() ? r.below(d.size() + 1) : 0;
        while (cut < d.size() && !isSep(d[cut])) ++cut;
        to = d.substr(0, cut);
        if (mode != 1) { std::string t = genPath(r, 5); if (!to.empty() && !t.empty() && !isSep(to.back()) && !isSep(t[0])) to += "/"; to += t; }
        if (mode == 4 && !d.empty()) { std::string t = genPath(r, 3); if (!isSep(d.back()) && !t.empty() && !isSep(t[0])) d += "/"; d += t; }
      }
      d += "\n"; d += to;
    }
    c.add(names[o], a0, a1, 0, 0, d);
  }
}

bool pbt_nontrivial(const Ctx& ctx) { return ctx.has("dotdot_cancels_and_kept") || ctx.has("rel_common_prefix"); }

void pbt_run(const Case& cs, Ctx& ctx) {
  char cwdbuf[PATH_MAX]; if (!getcwd(cwdbuf, sizeof cwdbuf)) cwdbuf[0] = 0;
  const std::string cwd = cwdbuf;
  long idx = 0;
  for (const Op& op : cs.ops) {
    ctx.opIndex = idx++;
    const std::string& nm = op.name;
    std::string d = op.data;
    if (d.find('\0') != std::string::npos) { ctx.count("skipped"); continue; }  // paths are NUL-free C strings
    std::string to;
    { size_t nl = d.find('\n'); if (nl != std::string::npos) { to = d.substr(nl + 1); d = d.substr(0, nl); size_t n2 = to.find('\n'); if (n2 != std::string::npos) to = to.substr(0, n2); } }
    const std::string& p = d;

    if (nm == "simplify") {
      Norm np = N(p);
      std::string s1 = S(File::simplifyPath(L(p)));
      std::string s2 = S(File::simplifyPath(L(s1)));
      if (np.cancelled && np.kept) ctx.label("dotdot_cancels_and_kept");
      if (np.cancelled) ctx.label("dotdot_cancels");
      if (np.kept) ctx.label("dotdot_kept");
      if (np.rooted) ctx.label("rooted");
      if (p.find('\\') != std::string::npos) ctx.label("backslash");
      bool rootOnly = np.rooted && np.comps.empty();
      if (rootOnly && ctx.excluded("C19-simplify-root-empty")) continue;
      Norm ns = N(s1);
      if (!(ns == np)) {
        const char* kind = rootOnly ? "mismatch:simplify-root" : "mismatch:simplify-equivalence";
        ctx.fail(kind, "simplifyPath(" + fmt(p) + ") = " + fmt(s1) + " denotes " + ns.show() + ", the input denotes " + np.show());
      }
      if (s2 != s1) ctx.fail("mismatch:simplify-idempotent", "simplifyPath(" + fmt(p) + ") = " + fmt(s1) + " but simplifying again gives " + fmt(s2));
      // shape: only '/', no empty or "." components, no trailing '/' (other than the root itself), ".." only leading
      bool shapeOk = s1.find('\\') == std::string::npos && s1.find("//") == std::string::npos && s1.find("/./") == std::string::npos;
      if (s1.size() > 1 && s1.back() == '/') shapeOk = false;
      if (s1.size() >= 2 && s1.compare(s1.size() - 2, 2, "/.") == 0) shapeOk = false;
      if (s1 == "." || s1.compare(0, 2, "./") == 0) shapeOk = false;
      if (!shapeOk) ctx.fail("mismatch:simplify-shape", "simplifyPath(" + fmt(p) + ") = " + fmt(s1) + " is not in simplified form");
    }
    else if (nm == "dirbase") {
      std::string dir = S(File::getDirectoryName(L(p)));
      std::string base = S(File::getBaseName(L(p)));
      size_t sep = std::string::npos;
      for (size_t i = p.size(); i-- > 0;) if (isSep(p[i])) { sep = i; break; }
      if (sep != std::string::npos) {
        ctx.label("dirbase_sep");
        std::string re = dir + p[sep] + base;
        if (re != p) ctx.fail("mismatch:dir-base", "path " + fmt(p) + ": getDirectoryName = " + fmt(dir) + ", getBaseName = " + fmt(base) + " do not recompose the path");
      } else {
        ctx.label("dirbase_plain");
        if (dir != "." || base != p) ctx.fail("mismatch:dir-base", "path " + fmt(p) + " without separator: getDirectoryName = " + fmt(dir) + ", getBaseName = " + fmt(base));
      }
    }
    else if (nm == "basext") {
      std::string ext;
      if (op.a[1] > 0) { size_t cut = (size_t)(op.a[1] - 1); if (cut > p.size()) cut = p.size(); ext = p.substr(cut); }
      else ext = EXTS[((op.a[0] % NEXT) + NEXT) % NEXT];
      if (ext.find('\0') != std::string::npos) { ctx.count("skipped"); continue; }
      std::string b = S(File::getBaseName(L(p)));
      std::string got = S(File::getBaseName(L(p), L(ext)));
      std::string want = b;
      if (!ext.empty()) {
        if (ext[0] == '.') { if (b.size() >= ext.size() && b.compare(b.size() - ext.size(), ext.size(), ext) == 0) want = b.substr(0, b.size() - ext.size()); }
        else { std::string de = "." + ext; if (b.size() >= de.size() && b.compare(b.size() - de.size(), de.size(), de) == 0) want = b.substr(0, b.size() - de.size()); }
      }
      if (want != b) ctx.label("ext_stripped"); else ctx.label("ext_kept");
      if (got != want) ctx.fail("mismatch:basename-ext", "getBaseName(" + fmt(p) + ", " + fmt(ext) + ") = " + fmt(got) + ", expected " + fmt(want));
      if (!ext.empty()) {
        std::string st = S(File::getStem(L(p), L(ext)));
        if (st != want) ctx.fail("mismatch:stem-with-ext", "getStem(" + fmt(p) + ", " + fmt(ext) + ") = " + fmt(st) + ", expected " + fmt(want));
      }
    }
    else if (nm == "stemext") {
      std::string b = S(File::getBaseName(L(p)));
      size_t dots = 0; for (char ch : b) if (ch == '.') ++dots;
      if (dots >= 2) ctx.label("several_dots");
      if (dots >= 2 && ctx.excluded("C19-stem-first-dot")) continue;
      std::string stem = S(File::getStem(L(p)));
      std::string ext = S(File::getExtension(L(p)));
      if (dots) {
        ctx.label("stem_dot");
        if (stem + "." + ext != b) {
          const char* kind = dots >= 2 ? "mismatch:stem-ext-several-dots" : "mismatch:stem-ext";
          ctx.fail(kind, "path " + fmt(p) + ": base name " + fmt(b) + " but getStem = " + fmt(stem) + " and getExtension = " + fmt(ext));
        }
      } else {
        if (stem != b || !ext.empty()) ctx.fail("mismatch:stem-ext", "path " + fmt(p) + ": base name " + fmt(b) + " has no dot but getStem = " + fmt(stem) + ", getExtension = " + fmt(ext));
      }
    }
    else if (nm == "rel") {
      Norm nf = N(p), nt = N(to);
      if (nf.rooted != nt.rooted || nf.hasDotDot()) { ctx.count("rel_no_lexical_answer"); continue; }
      size_t c = 0; while (c < nf.comps.size() && c < nt.comps.size() && nf.comps[c] == nt.comps[c]) ++c;
      bool same = nf == nt;
      bool fromIsPrefix = c == nf.comps.size();
      if (c >= 1 && !same) ctx.label("rel_common_prefix");
      if (same) ctx.label("rel_same");
      if (c < nf.comps.size()) ctx.label("rel_climbs");
      // the library's simplifyPath turns "/" into "" (separate defect); it breaks exactly the rooted pairs whose target is the root itself
      bool rootPattern = nf.rooted && nt.comps.empty() && !nf.comps.empty();
      if (rootPattern && ctx.excluded("C19-simplify-root-empty")) continue;
      bool relPattern = !nf.rooted && !same && !(fromIsPrefix && !nf.comps.empty()) && (c == 0 || nt.comps.size() <= 1);
      if (relPattern) ctx.label("rel_no_common");
      if (relPattern && ctx.excluded("C19-relative-no-common")) continue;
      std::string r = S(File::getRelativePath(L(p), L(to)));
      // join on normal forms: from's components, then the returned relative path
      std::string joined = nf.rooted ? "/" : "";
      for (auto& cmp : nf.comps) { joined += cmp; joined += "/"; }
      joined += r;
      Norm nj = N(joined);
      bool relIsRelative = r.empty() || !isSep(r[0]);
      if (!relIsRelative || !(nj == nt)) {
        const char* kind = relPattern ? "mismatch:relative-no-common" : rootPattern ? "mismatch:relative-root" : "mismatch:relative";
        ctx.fail(kind, "getRelativePath(" + fmt(p) + ", " + fmt(to) + ") = " + fmt(r) + ": from/rel denotes " + nj.show() + ", to denotes " + nt.show());
      }
      if (relPattern || rootPattern) ctx.count("known_pattern_but_passed");   // stays 0 while the exclusion patterns are exact
      ctx.count("rel_checked");
    }
    else if (nm == "abs") {
      bool want = (!p.empty() && isSep(p[0])) || (p.size() > 2 && p[1] == ':' && isSep(p[2]));
      bool got = File::isAbsolutePath(L(p));
      if (got != want) ctx.fail("mismatch:is-absolute", "isAbsolutePath(" + fmt(p) + ") = " + (got ? "true" : "false"));
      std::string ab = S(File::getAbsolutePath(L(p)));
      if (want) { ctx.label("abs_absolute"); if (ab != p) ctx.fail("mismatch:absolute-path", "getAbsolutePath(" + fmt(p) + ") = " + fmt(ab) + " changes an absolute path"); }
      else {
        ctx.label("abs_relative");
        if (ab != cwd + "/" + p) ctx.fail("mismatch:absolute-path", "getAbsolutePath(" + fmt(p) + ") = " + fmt(ab) + ", expected the working directory " + fmt(cwd) + " joined with the path");
        if (!File::isAbsolutePath(L(ab))) ctx.fail("mismatch:absolute-path", "getAbsolutePath(" + fmt(p) + ") = " + fmt(ab) + " is not absolute");
        Norm na = N(ab), ne = N(cwd + "/" + p);
        if (!(na == ne)) ctx.fail("mismatch:absolute-path", "getAbsolutePath(" + fmt(p) + ") does not denote cwd/path");
      }
    }
    else ctx.count("unknown_op");
  }
  ctx.opIndex = -2;
}
