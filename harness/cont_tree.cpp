// Map / MultiMap interpreter (C01, C04, C05).  -DMULTI=0 -> Map<Elem,Elem>, -DMULTI=1 -> MultiMap<Elem,Elem>.
// Model: vector of entries sorted by key (stable), each with the value id, a model-only uid and the address of the
// stored value (addresses must never change while the entry lives: C05).
#define PBT_MAIN
#include "pbt.hpp"
#include "elem.hpp"
#include <nstd/Map.hpp>
#include <nstd/MultiMap.hpp>
#include <cmath>

#ifndef MULTI
#define MULTI 0
#endif

const char* pbt_property = "C01";
const char* pbt_part = MULTI ? "multimap" : "map";
void pbt_warmup() {}

using namespace pbt;
using elem::Elem;

#if MULTI
typedef MultiMap<Elem, Elem> Cont;
#else
typedef Map<Elem, Elem> Cont;
#endif
typedef Cont::Iterator It;

namespace {
const int NC = 2;
struct Entry { int key; int val; long uid; const void* addr; bool plain; };
struct Held { int c; long uid; It it; };

enum Profile { P_C01, P_C04, P_C05 };
Profile profile() { std::string p = pbt_property; return p == "C04" ? P_C04 : p == "C05" ? P_C05 : P_C01; }
}  // namespace

#ifdef STRUCT_ORACLE
// AVL structure oracle (needs -fno-access-control): parent / child links, stored height and slope equal to the recomputed
// ones, |slope| <= 1, in-order walk equals the threaded list.  It turns a missed re-balance into a failure at the operation
// that caused it instead of many operations later through the comparison bound.
namespace {
struct StructCheck {
  Ctx& ctx; const char* opname; size_t count = 0; const void* prevInOrder = nullptr;
  template <class Item> long walk(Item* it, Item* parent, Item*& threaded) {
    if (!it) return 0;
    if (it->parent != parent) ctx.fail("structure:parent-link", std::string(opname) + ": a node's parent pointer does not point to its parent");
    long lh = walk(it->left, it, threaded);
    if (threaded != it) ctx.fail("structure:thread-order", std::string(opname) + ": in-order walk of the tree differs from the linked iteration order");
    threaded = it->next; ++count;
    long rh = walk(it->right, it, threaded);
    long h = (lh > rh ? lh : rh) + 1;
    if ((long)it->height != h) { char d[200]; snprintf(d, sizeof d, "%s: node with key %d stores height %ld, its subtrees give %ld", opname, it->key.id, (long)it->height, h); ctx.fail("structure:stale-height", d); }
    if ((long)it->slope != lh - rh) { char d[200]; snprintf(d, sizeof d, "%s: node with key %d stores slope %ld, its subtrees give %ld", opname, it->key.id, (long)it->slope, lh - rh); ctx.fail("structure:stale-slope", d); }
    if (lh - rh > 1 || rh - lh > 1) { char d[200]; snprintf(d, sizeof d, "%s: node with key %d is out of balance (left height %ld, right height %ld)", opname, it->key.id, lh, rh); ctx.fail("structure:unbalanced", d); }
    return h;
  }
};
template <class C> void checkStructure(Ctx& ctx, C& K, const char* opname) {
  StructCheck sc{ctx, opname};
  auto* threaded = K._begin.item;
  sc.walk(K.root, (decltype(K.root))0, threaded);
  if (threaded != &K.endItem) ctx.fail("structure:thread-order", std::string(opname) + ": the tree does not contain every linked item");
  if (sc.count != K._size) ctx.fail("structure:size", std::string(opname) + ": number of tree nodes differs from size()");
}
}  // namespace
#endif

void pbt_generate(Rng& r, int size, Case& c) {
  Profile pf = profile();
  int nops = 2 + (int)r.below((uint64_t)size * 2 + 1);
  int U = 2 + (int)r.below((uint64_t)size * (r.chance(30) ? 1 : 3) + 2);  // key universe: small -> duplicates and hits
  int mode = (int)r.below(7);                                                 // 0,1 random 2 ascending 3 descending 4 zig-zag 5 fill-then-drain 6 one hot key
  long hot = (long)r.below((uint64_t)U);                                      // (mode 6: most entries carry the same key - long runs of equal keys in a MultiMap)
  c.params["U"] = U;
  //                         ins inshint rm rmit rmfront rmback clear copy assign bulk selfassign insref recreate count
  static const int w01[] = {30, 22, 12, 10, 4, 4, 1, 2, 2, 3, 1, 0, 1, 6};
  static const int w04[] = {24, 12, 8, 8, 3, 3, 2, 5, 5, 5, 5, 8, 5, 2};
  static const int w05[] = {34, 20, 8, 8, 3, 3, 1, 1, 1, 2, 0, 0, 0, 2};
  static const char* names[] = {"ins", "inshint", "rm", "rmit", "rmfront", "rmback", "clear", "copy", "assign", "bulk", "selfassign", "insref", "recreate", "count"};
  const int* w = pf == P_C04 ? w04 : pf == P_C05 ? w05 : w01;
  int asc = 0, desc = U, zig = 0;
  for (int k = 0; k < nops; ++k) {
    int o = r.weighted(w, 14);
    long key;
    bool draining = mode == 5 && k > nops / 2;
    if (draining && r.chance(70)) o = r.chance(50) ? 4 : (r.chance(50) ? 5 : 2);
    switch (mode) {
      case 2: key = r.chance(80) ? asc++ : (long)r.below((uint64_t)U); break;
      case 3: key = r.chance(80) ? desc-- : (long)r.below((uint64_t)U); break;
      case 4: key = r.chance(80) ? ((zig++ & 1) ? U - zig / 2 : zig / 2) : (long)r.below((uint64_t)U); break;
      case 6: key = r.chance(75) ? hot : (long)r.below((uint64_t)U); if (o == 2 && r.chance(80)) o = 0; break;   // (few removals by key: they would take the whole run)
      default: key = (long)r.below((uint64_t)U);
    }
    int cont = r.chance(pf == P_C01 ? 85 : 65) ? 0 : 1;
    c.add(names[o], cont, key, (long)r.below(8), (long)r.below(64));
  }
}

bool pbt_nontrivial(const Ctx& ctx) {
  switch (profile()) {
    case P_C04: return ctx.has("self_arg_on_size>=2") && ctx.has("destroy_with_live_elements");
    case P_C05: return ctx.has("survivor_10ins_5rm");
    default: return (ctx.has("two_child_removal") && ctx.has("hint_branch_taken")) || ctx.has("count_run>=3");
  }
}

void pbt_run(const Case& cs, Ctx& ctx) {
  Profile pf = profile();
  elem::stats() = elem::Stats();
  pbt::g_ledger.limitBytes = 8u << 20;
  elem::reg().reset();
  const long U = std::max(1L, cs.param("U", 8));
  Cont* C[NC];
  std::vector<Entry> M[NC];
  std::vector<Held> held;
  for (int i = 0; i < NC; ++i) C[i] = new Cont;
  long nextUid = 1; int nextVal = 1000;
  long insertsTotal = 0, removesTotal = 0;
  std::map<long, std::pair<long, long>> born;  // uid -> (inserts, removes) at birth

  auto findUid = [&](int c, long uid) -> int { for (size_t i = 0; i < M[c].size(); ++i) if (M[c][i].uid == uid) return (int)i; return -1; };
  auto dropHeld = [&](int c, long uid) { for (size_t i = 0; i < held.size();) if (held[i].c == c && held[i].uid == uid) held.erase(held.begin() + (long)i); else ++i; };
  auto dropHeldCont = [&](int c) { for (size_t i = 0; i < held.size();) if (held[i].c == c) held.erase(held.begin() + (long)i); else ++i; };
  auto keep = [&](int c, long uid, const It& it) { { LedgerPause lp; held.push_back(Held{c, uid, it}); if (held.size() > 10) held.erase(held.begin()); } };
  auto lowerRun = [&](int c, int key, size_t& lo, size_t& hi) { lo = 0; while (lo < M[c].size() && M[c][lo].key < key) ++lo; hi = lo; while (hi < M[c].size() && M[c][hi].key == key) ++hi; };
  auto bound = [&](size_t n) { return 2 * (long)std::floor(1.4405 * std::log2((double)n + 2.0)); };
  auto noteBirth = [&](long uid) { LedgerPause lp; born[uid] = std::make_pair(insertsTotal, removesTotal); };
  auto noteSurvivors = [&](int c) {
    for (auto& e : M[c]) { auto it = born.find(e.uid); if (it != born.end() && insertsTotal - it->second.first >= 10 && removesTotal - it->second.second >= 5) { ctx.label("survivor_10ins_5rm"); break; } }
  };

  // learn the position of a newly inserted entry (address not yet in the model) and check the rest of the sequence
  auto syncInsert = [&](int c, int key, int val, bool plain, const char* opname) -> long {
    std::vector<Entry>& m = M[c];
    size_t lo, hi; lowerRun(c, key, lo, hi);
    size_t pos = 0; It it = C[c]->begin();
    for (; pos < m.size() && it != C[c]->end(); ++pos, ++it) if (&*it != m[pos].addr) break;
    if (it == C[c]->end()) ctx.fail("mismatch:insert-lost", std::string(opname) + ": inserted entry is not found in iteration order");
    if (pos < lo || pos > hi) { char d[160]; snprintf(d, sizeof d, "%s: key %d placed at position %zu outside its equal-key run [%zu,%zu]", opname, key, pos, lo, hi); ctx.fail("mismatch:order", d); }
    if (plain && pos != hi) { char d[160]; snprintf(d, sizeof d, "%s: plainly inserted key %d placed at %zu, not after its %zu equal keys (insertion order)", opname, key, pos, hi - lo); ctx.fail("mismatch:equal-key-order", d); }
    LedgerPause lp;
    Entry e{key, val, nextUid++, (const void*)&*it, plain};
    m.insert(m.begin() + (long)pos, e);
    ++insertsTotal; noteBirth(e.uid);
    return e.uid;
  };

  auto checkAll = [&](const char* opname) {
    for (int c = 0; c < NC; ++c) {
      Cont& K = *C[c]; std::vector<Entry>& m = M[c];
      if (K.size() != m.size()) { char d[160]; snprintf(d, sizeof d, "after %s: container %d size %zu, model %zu", opname, c, (size_t)K.size(), m.size()); ctx.fail("mismatch:size", d); }
      if (K.isEmpty() != m.empty()) ctx.fail("mismatch:isEmpty", opname);
#ifdef STRUCT_ORACLE
      checkStructure(ctx, K, opname);
#endif
      size_t i = 0;
      for (It it = K.begin(), e = K.end(); it != e; ++it, ++i) {
        if (i >= m.size()) ctx.fail("mismatch:iteration-too-long", opname);
        if (it.key().id != m[i].key || (*it).id != m[i].val) { char d[200]; snprintf(d, sizeof d, "after %s: container %d position %zu holds (%d,%d), model (%d,%d)", opname, c, i, it.key().id, (*it).id, m[i].key, m[i].val); ctx.fail("mismatch:contents", d); }
        if ((const void*)&*it != m[i].addr) { char d[200]; snprintf(d, sizeof d, "after %s: value of key %d moved from %p to %p", opname, m[i].key, m[i].addr, (const void*)&*it); ctx.fail("address:moved", d); }
      }
      if (i != m.size()) ctx.fail("mismatch:iteration-too-short", opname);
      // backwards
      i = m.size();
      if (!m.empty()) {
        It it = K.end();
        do { --it; --i; if ((*it).id != m[i].val || it.key().id != m[i].key) ctx.fail("mismatch:reverse-iteration", opname); } while (it != K.begin() && i > 0);
        if (i != 0 || it != K.begin()) ctx.fail("mismatch:reverse-iteration-length", opname);
        if (K.front().id != m.front().val || K.back().id != m.back().val) ctx.fail("mismatch:front-back", opname);
        const Cont& CK = K;
        if (CK.front().id != m.front().val || CK.back().id != m.back().val) ctx.fail("mismatch:front-back-const", opname);
      }
      // lookups over the whole universe (+ one absent key below and above)
      long bnd = bound(m.size());
      for (long k = -1; k <= U + 1; ++k) {
        Elem key((int)k);
        size_t lo, hi; lowerRun(c, (int)k, lo, hi);
        uint64_t c0 = elem::stats().cmp;
        It f = K.find(key);
        long used = (long)(elem::stats().cmp - c0);
        if (used > bnd) { char d[200]; snprintf(d, sizeof d, "after %s: find(%ld) among %zu entries used %ld key comparisons, bound %ld", opname, k, m.size(), used, bnd); ctx.fail("depth:comparisons", d); }
        if (lo == hi) { if (f != K.end()) ctx.fail("mismatch:find-absent", opname); }
        else {
          if (f == K.end()) { char d[160]; snprintf(d, sizeof d, "after %s: find(%ld) returned end but the key is present", opname, k); ctx.fail("mismatch:find-present", d); }
          if (f.key().id != k) ctx.fail("mismatch:find-key", opname);
          bool ok = false; for (size_t j = lo; j < hi; ++j) if (m[j].addr == (const void*)&*f) ok = true;
          if (!ok) ctx.fail("mismatch:find-entry", opname);
        }
        if (K.contains(key) != (lo != hi)) ctx.fail("mismatch:contains", opname);
#if MULTI
        if (!ctx.excluded("C01-multimap-count") ) {
          size_t cnt = K.count(key);
          if (cnt != hi - lo) { char d[160]; snprintf(d, sizeof d, "after %s: count(%ld) = %zu, model %zu", opname, k, cnt, hi - lo); ctx.fail("mismatch:count", d); }
          if (hi - lo >= 3) ctx.label("count_run>=3");
        }
#endif
      }
    }
    // held iterators still designate their element
    for (auto& h : held) {
      int ix = findUid(h.c, h.uid);
      if (ix < 0) continue;
      const Entry& e = M[h.c][(size_t)ix];
      if ((const void*)&*h.it != e.addr || (*h.it).id != e.val || h.it.key().id != e.key) { char d[200]; snprintf(d, sizeof d, "after %s: held iterator to key %d no longer designates it", opname, e.key); ctx.fail("address:iterator", d); }
    }
  };

  auto isTwoChild = [&](int c, size_t pos) { return M[c].size() >= 7 && pos > 0 && pos + 1 < M[c].size(); };

  long idx = 0;
  for (const Op& op : cs.ops) {
    ctx.opIndex = idx++;
    int c = (int)(((op.a[0] % NC) + NC) % NC), o = 1 - c;
    int key = (int)(((op.a[1] % (U + 1)) + (U + 1)) % (U + 1));
    long aux = op.a[2] < 0 ? -op.a[2] : op.a[2], aux2 = op.a[3] < 0 ? -op.a[3] : op.a[3];
    Cont& K = *C[c]; std::vector<Entry>& m = M[c];
    const std::string& nm = op.name;

    if (nm == "ins") {
      int val = nextVal++;
      size_t lo, hi; lowerRun(c, key, lo, hi);
      It it = K.insert(Elem(key), Elem(val));
      if (it == K.end() || it.key().id != key || (*it).id != val) ctx.fail("mismatch:insert-result", "insert(key,value) did not return the inserted entry");
      long uid;
      if (!MULTI && lo != hi) {  // Map: value replaced in place
        if ((const void*)&*it != m[lo].addr) ctx.fail("mismatch:insert-existing-moved", "insert of an existing key returned a different entry");
        m[lo].val = val; uid = m[lo].uid; ctx.label("insert_existing");
      } else uid = syncInsert(c, key, val, true, "ins");
      keep(c, uid, it);
    }
    else if (nm == "inshint") {
      int val = nextVal++;
      It hint; int hk = (int)(aux % 4); bool haveHint = false;
      if (hk == 0) { hint = K.begin(); haveHint = true; }
      else if (hk == 1) { hint = K.end(); haveHint = true; }
      else if (hk == 2) { for (size_t q = 0; q < held.size(); ++q) { const Held& h = held[(q + (size_t)aux2) % held.size()]; if (h.c == c && findUid(c, h.uid) >= 0) { hint = h.it; haveHint = true; break; } } }
      if (!haveHint) {  // neighbour of the key: find(k + d), d in -2..2
        int d = (int)(aux2 % 5) - 2;
        hint = K.find(Elem(key + d)); haveHint = true;
      }
      size_t lo, hi; lowerRun(c, key, lo, hi);
      // does the hint designate the right spot?
      if (hint == K.end() ? (!m.empty() && m.back().key < key) : true) ctx.label("hint_used");
      It it = K.insert(hint, Elem(key), Elem(val));
      if (it == K.end() || it.key().id != key || (*it).id != val) ctx.fail("mismatch:insert-result", "insert(hint,key,value) did not return the inserted entry");
      long uid;
      if (!MULTI && lo != hi) {
        if ((const void*)&*it != m[lo].addr) ctx.fail("mismatch:insert-existing-moved", "hinted insert of an existing key returned a different entry");
        m[lo].val = val; uid = m[lo].uid; ctx.label("insert_existing");
      } else {
        // the hint branch is taken when key fits directly next to the hint position
        if (hint != K.end() || (!m.empty() && key > m.back().key)) {
          bool fits;
          if (hint == K.end()) fits = true;
          else {
            int hkey = hint.key().id; size_t hp = 0; while (hp < m.size() && m[hp].addr != (const void*)&*hint) ++hp;
            if (key < hkey) fits = hp == 0 || (MULTI ? key >= m[hp - 1].key : key > m[hp - 1].key);
            else if (key > hkey || MULTI) fits = hp + 1 >= m.size() || (MULTI ? key <= m[hp + 1].key : key < m[hp + 1].key);
            else fits = false;
          }
          if (fits) ctx.label("hint_branch_taken");
        }
        uid = syncInsert(c, key, val, false, "inshint");
      }
      keep(c, uid, it);
    }
    else if (nm == "rm") {
      size_t lo, hi; lowerRun(c, key, lo, hi);
      K.remove(Elem(key));
      if (lo != hi) {
        // learn which entry of the run disappeared
        size_t gone = hi; It it = K.begin(); for (size_t j = 0; j < lo; ++j) ++it;
        for (size_t j = lo; j < hi; ++j) { if (it == K.end() || (const void*)&*it != m[j].addr) { gone = j; break; } ++it; }
        if (gone == hi) ctx.fail("mismatch:remove-key", "remove(key) removed nothing although the key is present");
        if (isTwoChild(c, gone)) ctx.label("two_child_removal");
        dropHeld(c, m[gone].uid); m.erase(m.begin() + (long)gone); ++removesTotal;
      } else ctx.label("remove_absent");
    }
    else if (nm == "rmit") {
      // through a held iterator if possible, else through find
      int hix = -1;
      for (size_t q = 0; q < held.size(); ++q) { size_t qq = (q + (size_t)aux) % held.size(); if (held[qq].c == c && findUid(c, held[qq].uid) >= 0) { hix = (int)qq; break; } }
      if (hix < 0) { ctx.count("skipped"); }
      else {
        int pos = findUid(c, held[(size_t)hix].uid);
        It victim = held[(size_t)hix].it;
        if (isTwoChild(c, (size_t)pos)) ctx.label("two_child_removal");
        It nx = K.remove(victim);
        long uid = m[(size_t)pos].uid;
        dropHeld(c, uid); m.erase(m.begin() + pos); ++removesTotal;
        if ((size_t)pos == m.size()) { if (nx != K.end()) ctx.fail("mismatch:remove-result", "remove(it) of the last entry did not return end()"); }
        else if (nx == K.end() || (const void*)&*nx != m[(size_t)pos].addr) ctx.fail("mismatch:remove-result", "remove(it) did not return the successor");
        ctx.label("remove_by_iterator");
      }
    }
    else if (nm == "rmfront" || nm == "rmback") {
      if (m.empty()) ctx.count("skipped");
      else {
        bool front = nm == "rmfront";
        size_t pos = front ? 0 : m.size() - 1;
        It nx = front ? K.removeFront() : K.removeBack();
        dropHeld(c, m[pos].uid); m.erase(m.begin() + (long)pos); ++removesTotal;
        if (front) { if (m.empty() ? nx != K.end() : (nx == K.end() || (const void*)&*nx != m[0].addr)) ctx.fail("mismatch:remove-result", "removeFront did not return the new first entry"); }
        else if (nx != K.end()) ctx.fail("mismatch:remove-result", "removeBack did not return end()");
      }
    }
    else if (nm == "clear") { removesTotal += (long)m.size(); K.clear(); m.clear(); dropHeldCont(c); }
    else if (nm == "copy" || nm == "assign") {
      // container o becomes a copy of container c
      if (MULTI && ctx.excluded("C04-multimap-copy")) continue;
      if (!M[o].empty()) ctx.label("destroy_with_live_elements");
      if (nm == "copy") { delete C[o]; C[o] = new Cont(K); } else { *C[o] = K; }
      dropHeldCont(o);
      LedgerPause lp;
      M[o].clear();
      It it = C[o]->begin();
      for (size_t j = 0; j < m.size(); ++j) {
        if (it == C[o]->end()) ctx.fail("mismatch:copy-short", "copy has fewer entries than its source");
        Entry e = m[j]; e.uid = nextUid++; e.addr = (const void*)&*it; e.plain = true;
        for (auto& s : m) if (s.addr == e.addr) ctx.fail("copy:shared-storage", "copy shares an element with its source");
        M[o].push_back(e); ++it;
      }
      ctx.label("copy");
    }
    else if (nm == "selfassign") {
      if (ctx.excluded("C04-self-assignment")) continue;
      if (MULTI && ctx.excluded("C04-multimap-copy")) continue;
      Cont& self = K;
      K = self;
      // contents must be unchanged; addresses may change: re-learn them
      if (m.size() >= 2) ctx.label("self_arg_on_size>=2");
      dropHeldCont(c);
      if (K.size() != m.size()) { char d[160]; snprintf(d, sizeof d, "self-assignment changed the size from %zu to %zu", m.size(), (size_t)K.size()); ctx.fail("mismatch:self-assignment", d); }
      It it = K.begin(); for (auto& e : m) { e.addr = (const void*)&*it; ++it; }
    }
#if !MULTI
    else if (nm == "bulk") {
      // K.insert(other) ; aux odd and profile C04: other == K (self)
      bool self = (pf == P_C04) && (aux & 1);
      if (self) { if (m.size() >= 2) ctx.label("self_arg_on_size>=2"); Cont& s = K; K.insert(s); }
      else {
        K.insert(*C[o]);
        for (auto& e : M[o]) {
          size_t lo, hi; lowerRun(c, e.key, lo, hi);
          if (lo != hi) m[lo].val = e.val; else syncInsert(c, e.key, e.val, true, "bulk");
        }
        ctx.label("bulk_insert");
      }
    }
#endif
    else if (nm == "insref") {
      // key and value are references to elements stored in the container itself
      if (m.size() < 1) { ctx.count("skipped"); }
      else {
        size_t a = (size_t)aux % m.size(), b = (size_t)aux2 % m.size();
        It ia = K.begin(); for (size_t j = 0; j < a; ++j) ++ia;
        It ib = K.begin(); for (size_t j = 0; j < b; ++j) ++ib;
        int key2 = m[a].key, val2 = m[b].val;
        if (m.size() >= 2) ctx.label("self_arg_on_size>=2");
        It it = K.insert(ia.key(), *ib);
        if (it == K.end() || it.key().id != key2 || (*it).id != val2) ctx.fail("mismatch:insert-result", "insert(key&,value&) with references into the container");
        if (!MULTI) { m[a].val = val2; }
        else { long uid = syncInsert(c, key2, val2, true, "insref"); keep(c, uid, it); }
      }
    }
    else if (nm == "recreate") {
      if (!m.empty()) ctx.label("destroy_with_live_elements");
      removesTotal += (long)m.size();
      delete C[c]; C[c] = new Cont; m.clear(); dropHeldCont(c);
    }
    else if (nm == "count") { /* lookups happen in checkAll */ }
    else ctx.count("unknown_op");

    checkAll(nm.c_str());
    if (pf == P_C05) noteSurvivors(c);
  }
  ctx.opIndex = -2;
  for (int i = 0; i < NC; ++i) { if (!M[i].empty()) ctx.label("destroy_with_live_elements"); delete C[i]; }
  { LedgerPause lp; held.clear(); born.clear(); }
  if (!elem::reg().live.empty()) { char d[128]; snprintf(d, sizeof d, "%zu element instances are still alive after all containers were destroyed", elem::reg().live.size()); ctx.fail("lifetime:leaked-elements", d); }
  if (elem::stats().ctor != elem::stats().dtor) ctx.fail("lifetime:ctor-dtor-count", "constructions != destructions");
}
