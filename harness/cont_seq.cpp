// List / Array / PoolList interpreter (C03, C04, C05).  -DKIND=0 List<Elem>, 1 Array<Elem>, 2 PoolList<Pinned>.
// Model: vector of entries (value id, uid, element address).  Array elements may move (not part of C05).
#define PBT_MAIN
#include "pbt.hpp"
#include "elem.hpp"
#include <nstd/List.hpp>
#include <nstd/Array.hpp>
#include <nstd/PoolList.hpp>

#ifndef KIND
#define KIND 0
#endif

const char* pbt_property = "C03";
const char* pbt_part = KIND == 0 ? "list" : KIND == 1 ? "array" : "poollist";
void pbt_warmup() {}

using namespace pbt;
using elem::Elem;
using elem::Pinned;

#if KIND == 0
typedef List<Elem> Cont;
#elif KIND == 1
typedef Array<Elem> Cont;
#else
typedef PoolList<Pinned> Cont;
#endif
typedef Cont::Iterator It;

namespace {
const int NC = 3;
const bool STABLE = KIND != 1;  // addresses are stable for List and PoolList
struct Entry { int val; long uid; const void* addr; int b, c; };
struct Held { int c; long uid; It it; };
enum Profile { P_C03, P_C04, P_C05 };
Profile profile() { std::string p = pbt_property; return p == "C04" ? P_C04 : p == "C05" ? P_C05 : P_C03; }
inline const void* addrOf(const It& it) { return (const void*)&*it; }
}  // namespace

void pbt_generate(Rng& r, int size, Case& c) {
  Profile pf = profile();
  int nops = 2 + (int)r.below((uint64_t)size * 2 + 1);
  int V = 2 + (int)r.below((uint64_t)size + 4);  // value universe (duplicates matter for find / remove(value) / sort)
  c.params["V"] = V;
  c.params["acap"] = r.chance(50) ? -1 : (long)r.below(12);  // Array(capacity) for container 2
  //                          app pre ins rmit rmidx rmval rmfront rmback clear swap copy assign selfassign appendall insall resize reserve sort find appendptr selfref recreate eq
  static const int w03[] = {24, 8, 10, 8, 6, 5, 4, 4, 1, 4, 2, 2, 1, 3, 3, 5, 3, 4, 3, 3, 0, 1, 2};
  static const int w04[] = {18, 6, 8, 6, 5, 5, 3, 3, 2, 3, 4, 4, 5, 5, 5, 5, 2, 2, 1, 2, 10, 4, 1};
  static const int w05[] = {30, 10, 12, 8, 0, 3, 3, 3, 1, 8, 1, 1, 0, 2, 2, 0, 0, 0, 1, 0, 0, 0, 0};
  static const char* names[] = {"append", "prepend", "insert", "rmit", "rmidx", "rmval", "rmfront", "rmback", "clear", "swap", "copy", "assign", "selfassign",
                                "appendall", "insall", "resize", "reserve", "sort", "find", "appendptr", "selfref", "recreate", "eq"};
  const int* w = pf == P_C04 ? w04 : pf == P_C05 ? w05 : w03;
  int sortmode = (int)r.below(6);
  for (int k = 0; k < nops; ++k) {
    int o;
    for (int tries = 0;; ++tries) {
      o = r.weighted(w, 23);
      // ops that exist for this container kind: List all but rmidx/resize/reserve/appendptr; Array no prepend/insert/rmval/insall/sort/eq; PoolList few
      static const bool okList[] = {1, 1, 1, 1, 0, 1, 1, 1, 1, 1, 1, 1, 1, 1, 1, 0, 0, 1, 1, 0, 1, 1, 1};
      static const bool okArray[] = {1, 0, 0, 1, 1, 0, 1, 1, 1, 1, 1, 1, 1, 1, 0, 1, 1, 0, 1, 1, 1, 1, 0};
      static const bool okPool[] = {1, 0, 0, 1, 0, 1, 1, 1, 1, 1, 0, 0, 0, 0, 0, 0, 0, 0, 0, 0, 0, 1, 0};
      const bool* ok = KIND == 0 ? okList : KIND == 1 ? okArray : okPool;
      if (ok[o] || tries > 20) break;
    }
    long c0 = (long)r.below(NC), c1 = (long)r.below(NC);
    long v = (long)r.below((uint64_t)V);
    if (sortmode == 1) v = k % V; else if (sortmode == 2) v = V - 1 - k % V; else if (sortmode == 3) v = 1; else if (sortmode == 4) v = k & 1;
    c.add(names[o], c0, v, (long)r.below(24), c1);
    if ((o == 10 || o == 11) && r.chance(50)) c.add("eq", c0, 0, 0, c1);
  }
  if (KIND == 0 && r.chance(25)) {
    // dedicated sort input: many elements then sort
    int n = 8 + (int)r.below((uint64_t)size * 8 + 1);
    int sm = (int)r.below(6);
    for (int k = 0; k < n; ++k) {
      long v = sm == 0 ? (long)r.below(1000) : sm == 1 ? k : sm == 2 ? n - k : sm == 3 ? 7 : sm == 4 ? (k & 1) : (k < n / 2 ? k : n - k);
      c.add("append", 0, v % 100000, 0, 0);
    }
    c.params["V"] = std::max<long>(V, sm == 0 ? 1000 : n + 1);
    c.add("sort", 0, 0, 0, 0);
  }
}

bool pbt_nontrivial(const Ctx& ctx) {
  switch (profile()) {
    case P_C04: return ctx.has("self_arg_on_size>=2") && ctx.has("destroy_with_live_elements");
    case P_C05: return ctx.has("survivor_10ins_5rm") && ctx.has("swap_nonempty");
    default:
      if (KIND == 0) return ctx.has("sort>=8_with_duplicates") || (ctx.has("insert_at_held_iterator") && ctx.has("after_removals"));
      if (KIND == 1) return ctx.has("grew_twice") && ctx.has("remove_middle");
      return ctx.has("slot_reuse");
  }
}

void pbt_run(const Case& cs, Ctx& ctx) {
  Profile pf = profile();
  elem::stats() = elem::Stats();
  pbt::g_ledger.limitBytes = 8u << 20;
  elem::reg().reset();
  const long V = std::max(1L, cs.param("V", 8));
  Cont* C[NC];
  std::vector<Entry> M[NC];
  std::vector<Held> held;
  long acap = cs.param("acap", -1);
  for (int i = 0; i < NC; ++i) {
#if KIND == 1
    C[i] = (i == 2 && acap >= 0) ? new Cont((usize)acap) : new Cont;
#else
    C[i] = new Cont;
#endif
  }
  long nextUid = 1;
  long insertsTotal = 0, removesTotal = 0; int grew[NC] = {0, 0, 0};
  std::map<long, std::pair<long, long>> born;
  int pinSeq = 5000;

  auto findUid = [&](int c, long uid) -> int { for (size_t i = 0; i < M[c].size(); ++i) if (M[c][i].uid == uid) return (int)i; return -1; };
  auto findVal = [&](int c, int v) -> int { for (size_t i = 0; i < M[c].size(); ++i) if (M[c][i].val == v) return (int)i; return -1; };
  auto dropHeld = [&](int c, long uid) { for (size_t i = 0; i < held.size();) if (held[i].c == c && held[i].uid == uid) held.erase(held.begin() + (long)i); else ++i; };
  auto dropHeldCont = [&](int c) { for (size_t i = 0; i < held.size();) if (held[i].c == c) held.erase(held.begin() + (long)i); else ++i; };
  auto keep = [&](int c, long uid, const It& it) { if (!STABLE) return; LedgerPause lp; held.push_back(Held{c, uid, it}); if (held.size() > 10) held.erase(held.begin()); };
  auto iterAt = [&](int c, size_t pos) { It it = C[c]->begin(); for (size_t j = 0; j < pos; ++j) ++it; return it; };
  auto relearn = [&](int c) { It it = C[c]->begin(); for (auto& e : M[c]) { if (it == C[c]->end()) break; e.addr = addrOf(it); ++it; } };
  auto mIns = [&](int c, size_t pos, int val, const void* addr, int b = 0, int cc = 0) -> long {
    LedgerPause lp; Entry e{val, nextUid++, addr, b, cc}; M[c].insert(M[c].begin() + (long)pos, e); ++insertsTotal; born[e.uid] = std::make_pair(insertsTotal, removesTotal); return e.uid; };
  auto mRm = [&](int c, size_t pos) { dropHeld(c, M[c][pos].uid); M[c].erase(M[c].begin() + (long)pos); ++removesTotal; };
  auto noteSurvivors = [&]() {
    for (int c = 0; c < NC; ++c) for (auto& e : M[c]) { auto it = born.find(e.uid); if (it != born.end() && insertsTotal - it->second.first >= 10 && removesTotal - it->second.second >= 5) { ctx.label("survivor_10ins_5rm"); return; } }
  };

  auto checkAll = [&](const char* opname) {
    for (int c = 0; c < NC; ++c) {
      Cont& K = *C[c]; std::vector<Entry>& m = M[c];
      if (K.size() != m.size()) { char d[160]; snprintf(d, sizeof d, "after %s: container %d size %zu, model %zu", opname, c, (size_t)K.size(), m.size()); ctx.fail("mismatch:size", d); }
      if (K.isEmpty() != m.empty()) ctx.fail("mismatch:isEmpty", opname);
      size_t i = 0;
      for (It it = K.begin(), e = K.end(); it != e; ++it, ++i) {
        if (i >= m.size()) ctx.fail("mismatch:iteration-too-long", opname);
        if ((*it).id != m[i].val) { char d[200]; snprintf(d, sizeof d, "after %s: container %d position %zu holds %d, model %d", opname, c, i, (*it).id, m[i].val); ctx.fail("mismatch:contents", d); }
#if KIND == 2
        if ((*it).b != m[i].b || (*it).c != m[i].c) ctx.fail("mismatch:ctor-args", opname);
#endif
        if (STABLE && addrOf(it) != m[i].addr) { char d[200]; snprintf(d, sizeof d, "after %s: element %d moved from %p to %p", opname, m[i].val, m[i].addr, addrOf(it)); ctx.fail("address:moved", d); }
      }
      if (i != m.size()) ctx.fail("mismatch:iteration-too-short", opname);
      if (!m.empty()) {
        i = m.size(); It it = K.end();
        do { --it; --i; if ((*it).id != m[i].val) ctx.fail("mismatch:reverse-iteration", opname); } while (it != K.begin() && i > 0);
        if (i != 0 || it != K.begin()) ctx.fail("mismatch:reverse-iteration-length", opname);
#if KIND != 2
        if (K.front().id != m.front().val || K.back().id != m.back().val) ctx.fail("mismatch:front-back", opname);
        const Cont& CK = K;
        if (CK.front().id != m.front().val || CK.back().id != m.back().val) ctx.fail("mismatch:front-back-const", opname);
#endif
      }
#if KIND == 1
      if (K.capacity() < K.size()) ctx.fail("mismatch:capacity<size", opname);
      { const Cont& CK = K; const Elem* p = CK; for (size_t j = 0; j < m.size(); ++j) if (p[j].id != m[j].val) ctx.fail("mismatch:pointer-view", opname); }
#endif
    }
    for (auto& h : held) {
      int ix = findUid(h.c, h.uid);
      if (ix < 0) continue;
      const Entry& e = M[h.c][(size_t)ix];
      if (addrOf(h.it) != e.addr || (*h.it).id != e.val) { char d[200]; snprintf(d, sizeof d, "after %s: held iterator to element %d no longer designates it", opname, e.val); ctx.fail("address:iterator", d); }
    }
  };

  long idx = 0;
  for (const Op& op : cs.ops) {
    ctx.opIndex = idx++;
    int c = (int)(((op.a[0] % NC) + NC) % NC);
    int o = (int)(((op.a[3] % NC) + NC) % NC);
    int v = (int)(((op.a[1] % (V + 1)) + (V + 1)) % (V + 1));
    long aux = op.a[2] < 0 ? -op.a[2] : op.a[2];
    Cont& K = *C[c]; std::vector<Entry>& m = M[c];
    const std::string& nm = op.name;
#if KIND == 1
    size_t capBefore = K.capacity();
#endif

    if (nm == "append") {
#if KIND == 2
      int id = pinSeq++; Pinned* r; int b = 0, cc = 0; bool reuse = removesTotal > 0;
      long wantExtra = 0; int x4 = (int)aux + 11, x5 = v + 12, x6 = (int)aux * 3 + 13, x7 = v * 5 + 14;
      switch (aux % 8) {
        case 0: r = &K.append(); id = 0; break; case 1: r = &K.append(id); break; case 2: b = (int)aux; r = &K.append(id, b); break;
        case 3: b = (int)aux; cc = v; r = &K.append(id, b, cc); break;
        case 4: b = (int)aux; cc = v; r = &K.append(id, b, cc, x4); wantExtra = x4; break;
        case 5: b = (int)aux; cc = v; r = &K.append(id, b, cc, x4, x5); wantExtra = x4 + 3L * x5; break;
        case 6: b = (int)aux; cc = v; r = &K.append(id, b, cc, x4, x5, x6); wantExtra = x4 + 3L * x5 + 5L * x6; break;
        default: b = (int)aux; cc = v; r = &K.append(id, b, cc, x4, x5, x6, x7); wantExtra = x4 + 3L * x5 + 5L * x6 + 7L * x7; break;
      }
      if (r->id != id) ctx.fail("mismatch:append-result", "append() did not return the constructed element");
      if (r->b != b || r->c != cc || r->extra != wantExtra) ctx.fail("mismatch:append-arguments", "the element constructed by append(...) did not receive the arguments it was given");
      if (reuse) { for (auto& e : M[0]) (void)e; ctx.label("slot_reuse"); }
      It last = K.end(); --last;
      if (&*last != r) ctx.fail("mismatch:append-result", "append() result is not the last element");
      long uid = mIns(c, m.size(), id, (const void*)r, b, cc); keep(c, uid, last);
#else
      Elem& r = K.append(Elem(v));
      if (r.id != v) ctx.fail("mismatch:append-result", "append did not return the appended element");
      It last = K.end(); --last;
      if (&*last != &r) ctx.fail("mismatch:append-result", "append result is not the last element");
      long uid = mIns(c, m.size(), v, (const void*)&r); keep(c, uid, last);
#endif
    }
#if KIND == 0
    else if (nm == "prepend") {
      Elem& r = K.prepend(Elem(v));
      if (r.id != v || &r != &*K.begin()) ctx.fail("mismatch:prepend-result", "prepend did not return the first element");
      long uid = mIns(c, 0, v, (const void*)&r); keep(c, uid, K.begin());
    }
    else if (nm == "insert") {
      size_t pos = m.empty() ? 0 : (size_t)aux % (m.size() + 1); It pit = iterAt(c, pos);
      if (aux & 1) for (auto& h : held) if (h.c == c) { int ix = findUid(c, h.uid); if (ix >= 0) { pit = h.it; pos = (size_t)ix; ctx.label("insert_at_held_iterator"); if (removesTotal) ctx.label("after_removals"); break; } }
      It it = K.insert(pit, Elem(v));
      if (it == K.end() || (*it).id != v) ctx.fail("mismatch:insert-result", "insert(pos,value) did not return the inserted element");
      long uid = mIns(c, pos, v, addrOf(it)); keep(c, uid, it);
      It nxt = it; ++nxt; if (nxt != pit) ctx.fail("mismatch:insert-position", "inserted element is not directly before the position");
    }
#endif
    else if (nm == "rmit") {
      if (m.empty()) ctx.count("skipped");
      else {
        size_t pos = (size_t)aux % m.size(); It victim = iterAt(c, pos);
        if (aux & 1) for (auto& h : held) if (h.c == c) { int ix = findUid(c, h.uid); if (ix >= 0) { victim = h.it; pos = (size_t)ix; break; } }
        if (pos > 0 && pos + 1 < m.size()) ctx.label("remove_middle");
        It nx = K.remove(victim);
        mRm(c, pos);
        if (!STABLE) relearn(c);
        if (pos == m.size() ? nx != K.end() : (nx == K.end() || addrOf(nx) != m[pos].addr)) ctx.fail("mismatch:remove-result", "remove(it) did not return the successor");
      }
    }
#if KIND == 1
    else if (nm == "rmidx") {
      size_t index = (size_t)aux % (m.size() + 2);
      if (index > 0 && index + 1 < m.size()) ctx.label("remove_middle");
      K.remove((usize)index);
      if (index < m.size()) mRm(c, index); else ctx.label("remove_index_out_of_range");
      relearn(c);
    }
#endif
#if KIND == 0
    else if (nm == "rmval") {
      int pos = findVal(c, v);
      K.remove(Elem(v));
      if (pos >= 0) mRm(c, (size_t)pos); else ctx.label("remove_absent");
    }
#endif
#if KIND == 2
    else if (nm == "rmval") {
      if (m.empty()) ctx.count("skipped");
      else { size_t pos = (size_t)aux % m.size(); It it = iterAt(c, pos); Pinned& ref = *it; if (m.size() >= 2) ctx.label("self_arg_on_size>=2"); K.remove(ref); mRm(c, pos); ctx.label("remove_by_value_ref"); }
    }
#endif
    else if (nm == "rmfront" || nm == "rmback") {
      if (m.empty()) ctx.count("skipped");
      else {
        bool front = nm == "rmfront"; size_t pos = front ? 0 : m.size() - 1;
        It nx = front ? K.removeFront() : K.removeBack();
        mRm(c, pos);
        if (!STABLE) relearn(c);
        if (front ? (m.empty() ? nx != K.end() : (nx == K.end() || addrOf(nx) != m[0].addr)) : nx != K.end()) ctx.fail("mismatch:remove-result", "removeFront/removeBack result");
      }
    }
    else if (nm == "clear") { removesTotal += (long)m.size(); K.clear(); m.clear(); dropHeldCont(c); }
    else if (nm == "swap") {
      K.swap(*C[o]);
      if (c != o) {
        if (!m.empty() && !M[o].empty()) ctx.label("swap_nonempty");
        std::swap(M[c], M[o]); std::swap(grew[c], grew[o]);
        for (auto& h : held) { if (h.c == c) h.c = o; else if (h.c == o) h.c = c; }
      } else ctx.label("swap_self");
    }
#if KIND != 2
    else if (nm == "copy" || nm == "assign") {
      if (c == o) ctx.count("skipped");
      else {
        if (!M[o].empty()) ctx.label("destroy_with_live_elements");
        if (nm == "copy") { delete C[o]; C[o] = new Cont(K); grew[o] = 0; } else *C[o] = K;
        dropHeldCont(o);
        LedgerPause lp;
        M[o].clear();
        It it = C[o]->begin();
        for (size_t j = 0; j < m.size(); ++j) {
          if (it == C[o]->end()) ctx.fail("mismatch:copy-short", "copy has fewer entries than its source");
          Entry e = m[j]; e.uid = nextUid++; e.addr = addrOf(it);
          for (auto& s : m) if (s.addr == e.addr) ctx.fail("copy:shared-storage", "copy shares an element with its source");
          M[o].push_back(e); ++it;
        }
        ctx.label("copy");
      }
    }
    else if (nm == "selfassign") {
      if (ctx.excluded("C04-self-assignment")) continue;
      Cont& self = K; K = self;
      if (m.size() >= 2) ctx.label("self_arg_on_size>=2");
      dropHeldCont(c);
      if (K.size() != m.size()) { char d[160]; snprintf(d, sizeof d, "self-assignment changed the size from %zu to %zu", m.size(), (size_t)K.size()); ctx.fail("mismatch:self-assignment", d); }
      relearn(c);
    }
    else if (nm == "eq") {
#if KIND == 0
      bool e = (K == *C[o]), ne = (K != *C[o]);
      bool me = m.size() == M[o].size();
      for (size_t j = 0; me && j < m.size(); ++j) me = m[j].val == M[o][j].val;
      if (e != me || ne == me) ctx.fail("mismatch:eq", "operator==/!= disagrees with the model");
#endif
    }
    else if (nm == "appendall" || nm == "insall") {
      // bulk insertion of container o (possibly the container itself) at the end / at a position
      bool self = c == o;
      if (self && pf != P_C04) { ctx.count("skipped"); continue; }  // self-insertion belongs to C04
      if (m.size() + M[o].size() > 600) { ctx.count("skipped_big"); continue; }   // repeated bulk insertion doubles the sizes: keep the case within its memory budget
      if (self && ctx.excluded("C04-list-insert-self")) continue;
      std::vector<Entry> src; { LedgerPause lp; src = M[o]; }
      if (self && m.size() >= 2) ctx.label("self_arg_on_size>=2");
      size_t pos = m.size();
#if KIND == 0
      if (nm == "insall") {
        pos = m.empty() ? 0 : (size_t)aux % (m.size() + 1);
        It pit = iterAt(c, pos);
        It r = K.insert(pit, *C[o]);
        if (src.empty() ? r != pit : (r == K.end() || (*r).id != src[0].val)) ctx.fail("mismatch:insert-result", "insert(pos,list) did not return the first inserted element");
      } else if (aux % 3 == 0) { pos = 0; K.prepend(*C[o]); }
      else K.append(*C[o]);
#else
      K.append(*C[o]);
#endif
      { LedgerPause lp; for (size_t j = 0; j < src.size(); ++j) { Entry e = src[j]; e.uid = nextUid++; e.addr = 0; M[c].insert(M[c].begin() + (long)(pos + j), e); ++insertsTotal; } src.clear(); src.shrink_to_fit(); }
      // learn the addresses of the new elements
      { It it = K.begin(); for (auto& e : M[c]) { if (it == K.end()) break; if (!e.addr || !STABLE) e.addr = addrOf(it); ++it; } }
      ctx.label("bulk");
    }
#endif
#if KIND == 1
    else if (nm == "resize") {
      size_t n = (size_t)aux % 20;
      bool selfv = (pf == P_C04) && (aux & 1) && !m.empty();
      if (selfv && ctx.excluded("C04-array-self-element")) continue;
      if (selfv) {
        // fill with a reference to an own element, steering size == capacity first so that growth reallocates
        while (K.size() < K.capacity()) { K.append(Elem(v)); mIns(c, m.size(), v, 0); }
        size_t ix = (size_t)(aux / 2) % m.size(); int fv = m[ix].val;
        n = m.size() + 1 + (size_t)aux % 3;
        const Elem& ref = ((Elem*)K)[ix];
        if (m.size() >= 2) ctx.label("self_arg_on_size>=2"); ctx.label("realloc_on_self_arg");
        K.resize((usize)n, ref);
        while (m.size() < n) mIns(c, m.size(), fv, 0);
      } else {
        K.resize((usize)n, Elem(v));
        while (m.size() > n) mRm(c, m.size() - 1);
        while (m.size() < n) mIns(c, m.size(), v, 0);
      }
      relearn(c);
    }
    else if (nm == "reserve") {
      size_t n = (size_t)aux % 30;
      K.reserve((usize)n);
      if (K.capacity() < n) ctx.fail("mismatch:reserve", "capacity() smaller than reserved");
      if (K.capacity() < capBefore) ctx.fail("mismatch:reserve-shrank", "reserve reduced the capacity");
      relearn(c);
    }
    else if (nm == "appendptr") {
      size_t n = (size_t)aux % 6;
      Elem* tmp = (Elem*)malloc(sizeof(Elem) * (n ? n : 1));
      for (size_t j = 0; j < n; ++j) new (tmp + j) Elem(v + (int)j);
      K.append(tmp, (usize)n);
      for (size_t j = 0; j < n; ++j) { mIns(c, m.size(), v + (int)j, 0); tmp[j].~Elem(); }
      free(tmp);
      relearn(c);
    }
    else if (nm == "selfref") {
      // append(a[i]) with size == capacity
      if (ctx.excluded("C04-array-self-element")) continue;
      if (m.empty()) { K.append(Elem(v)); mIns(c, 0, v, 0); }
      while (K.size() < K.capacity()) { K.append(Elem(v)); mIns(c, m.size(), v, 0); }
      size_t ix = (size_t)aux % m.size(); int fv = m[ix].val;
      const Elem& ref = ((Elem*)K)[ix];
      if (m.size() >= 2) ctx.label("self_arg_on_size>=2"); ctx.label("realloc_on_self_arg");
      Elem& r = K.append(ref);
      if (r.id != fv) ctx.fail("mismatch:append-self-element", "append(a[i]) stored a different value");
      mIns(c, m.size(), fv, 0);
      relearn(c);
    }
    else if (nm == "find") {
      int pos = findVal(c, v); It f = K.find(Elem(v));
      if (pos < 0 ? f != K.end() : (f == K.end() || addrOf(f) != addrOf(iterAt(c, (size_t)pos)))) ctx.fail("mismatch:find", "find(value)");
    }
#endif
#if KIND == 0
    else if (nm == "selfref") {
      // value arguments that are references to own elements
      if (m.empty()) ctx.count("skipped");
      else {
        size_t ix = (size_t)aux % m.size(); It it = iterAt(c, ix); int fv = m[ix].val;
        if (m.size() >= 2) ctx.label("self_arg_on_size>=2");
        if (aux % 3 == 0) { It r = K.insert(iterAt(c, (size_t)(aux / 3) % (m.size() + 1)), *it); size_t pos = (size_t)(aux / 3) % (m.size() + 1); mIns(c, pos, fv, addrOf(r)); }
        else if (aux % 3 == 1) { Elem& r = K.append(*it); mIns(c, m.size(), fv, (const void*)&r); }
        else { const Elem& ref = *it; int pos = findVal(c, fv); K.remove(ref); mRm(c, (size_t)pos); ctx.label("remove_value_ref_into_list"); }
      }
    }
    else if (nm == "find") {
      int pos = findVal(c, v); It f = K.find(Elem(v));
      if (pos < 0 ? f != K.end() : (f == K.end() || addrOf(f) != m[(size_t)pos].addr)) ctx.fail("mismatch:find", "find(value)");
    }
    else if (nm == "sort") {
      std::vector<int> before; { LedgerPause lp; for (auto& e : m) before.push_back(e.val); std::sort(before.begin(), before.end()); }
      bool dups = false; for (size_t j = 1; j < before.size(); ++j) if (before[j] == before[j - 1]) dups = true;
      if (before.size() >= 8 && dups) ctx.label("sort>=8_with_duplicates");
      if (before.size() >= 8) ctx.label("sort>=8");
      K.sort();
      // ascending and a permutation of the previous contents (both directions): equals the sorted multiset
      size_t j = 0;
      for (It it = K.begin(); it != K.end(); ++it, ++j) {
        if (j >= before.size()) ctx.fail("sort:length", "sort changed the number of elements");
        if ((*it).id != before[j]) { char d[160]; snprintf(d, sizeof d, "after sort position %zu holds %d, sorted previous contents have %d", j, (*it).id, before[j]); ctx.fail("sort:not-sorted-permutation", d); }
      }
      if (j != before.size()) ctx.fail("sort:length", "sort changed the number of elements");
      // sort permutes values between nodes: node addresses stay, values move
      for (size_t q = 0; q < m.size(); ++q) m[q].val = before[q];
      dropHeldCont(c);
      { LedgerPause lp; before.clear(); before.shrink_to_fit(); }
    }
#endif
    else if (nm == "recreate") {
      if (!m.empty()) ctx.label("destroy_with_live_elements");
      removesTotal += (long)m.size();
      delete C[c]; C[c] = new Cont; m.clear(); dropHeldCont(c); grew[c] = 0;
    }
    else ctx.count("unknown_op");

#if KIND == 1
    if (C[c]->capacity() != capBefore && nm != "swap" && nm != "recreate" && nm != "copy") { if (++grew[c] >= 2) ctx.label("grew_twice"); }
#endif
    checkAll(nm.c_str());
    if (pf == P_C05) noteSurvivors();
  }
  ctx.opIndex = -2;
  for (int i = 0; i < NC; ++i) { if (!M[i].empty()) ctx.label("destroy_with_live_elements"); delete C[i]; }
  { LedgerPause lp; held.clear(); born.clear(); }
  if (!elem::reg().live.empty()) { char d[128]; snprintf(d, sizeof d, "%zu element instances are still alive after all containers were destroyed", elem::reg().live.size()); ctx.fail("lifetime:leaked-elements", d); }
  if (elem::stats().ctor != elem::stats().dtor) ctx.fail("lifetime:ctor-dtor-count", "constructions != destructions");
#if KIND == 2
  if (elem::stats().copies || elem::stats().assigns) ctx.fail("pool:copied", "a pool element was copied");
#endif
}
