// C20 libFuzzer front-end for Process::Arguments: bytes -> option-table mask + argv elements (separated by 0x1f), every element in
// an exactly sized heap block; oracle = the reference getopt_long-style parser of c20_args_ref.hpp and ASan.
#define FUZZ_MAIN
#include "fuzz.hpp"
#include "c20_args_ref.hpp"

extern "C" int LLVMFuzzerTestOneInput(const uint8_t* data, size_t size) {
  if (size < 1) return 0;
  long mask = (data[0] & 127) | ((data[0] & 128) ? 0 : 384); if (!mask) mask = FULLMASK; ++data; --size;   // (bit 7 clear: the two prefix-named entries are in the table)
  std::vector<std::string> argv; argv.push_back("prog");
  std::string cur;
  for (size_t i = 0; i <= size; ++i) {
    if (i == size || data[i] == 0x1f) { if (argv.size() <= MAXTOK) argv.push_back(cur); cur.clear(); continue; }
    if (data[i] == 0) return 0;
    cur += (char)data[i];
  }
  std::vector<PoolOpt> tbl; for (int k = 0; k < NPOOL; ++k) if (mask & (1 << k)) tbl.push_back(POOL[k]);
  // outside the domain of the statement: proper prefixes of known long names (GNU abbreviations), short options with optional values
  for (auto& t : argv) if (t.size() > 2 && t[0] == '-' && t[1] == '-') { std::string name = t.substr(2, t.find('=', 2) == std::string::npos ? std::string::npos : t.find('=', 2) - 2); if (findLong(tbl, name)) continue; for (auto& o : tbl) if (o.name && name.size() < strlen(o.name) && strncmp(o.name, name.c_str(), name.size()) == 0) return 0; }   // (a name that is itself in the table is an exact name, whatever it is a prefix of)
  RefResult R = reference(argv, tbl, nullptr);
  int argc = (int)argv.size();
  char** av = (char**)malloc(sizeof(char*) * (size_t)argc);
  for (int i = 0; i < argc; ++i) { av[i] = (char*)malloc(argv[(size_t)i].size() + 1); memcpy(av[i], argv[(size_t)i].c_str(), argv[(size_t)i].size() + 1); }
  Process::Option* ot = (Process::Option*)malloc(sizeof(Process::Option) * tbl.size());
  for (size_t k = 0; k < tbl.size(); ++k) { ot[k].character = tbl[k].character; ot[k].name = tbl[k].name; ot[k].flags = tbl[k].flags; }
  fuzz::g_allocLimit = 64 * (uint64_t)size + 2000;
  fuzz::begin(0);
  {
    Process::Arguments* A = mkArgs(tbl.size(), argc, av, ot);
    String arg; size_t n = 0; bool cluster = false, value = false;
    for (;; ++n) {
      int ch = -12345;
      if (!A->read(ch, arg)) { if (n < R.events.size()) fuzz::fail("read() ended after %zu of %zu events; next expected %s", n, R.events.size(), show(R.events[n].ch, R.events[n].arg).c_str()); break; }
      std::string got((const char*)arg, (size_t)arg.length());
      if (n >= R.events.size()) fuzz::fail("extra event #%zu %s after the expected end", n, show(ch, got).c_str());
      const Event& e = R.events[n];
      if (ch != e.ch || (!e.anyArg && got != e.arg)) fuzz::fail("event #%zu is %s, expected %s", n, show(ch, got).c_str(), show(e.ch, e.arg).c_str());
      if (n > R.events.size() + 4) break;
    }
    delete A;
    for (size_t i = 1; i < argv.size(); ++i) { if (R.clusterLetters[i] >= 2) cluster = true; if (R.kindOf[i] == 1) value = true; }
    if (cluster) fuzz::label("cluster"); if (value) fuzz::label("value_form");
    if ((cluster || value) && argv.size() >= 4) fuzz::nontrivial(data, size);
  }
  fuzz::end();
  for (int i = 0; i < argc; ++i) if (memcmp(av[i], argv[(size_t)i].c_str(), argv[(size_t)i].size() + 1) != 0) fuzz::fail("argv[%d] was modified", i);
  for (int i = 0; i < argc; ++i) free(av[i]);
  free(av); free(ot);
  return 0;
}
