// Shared by the JSON harnesses (C15): reference comment stripper, error-position oracle, value walkers.
#pragma once
#include <string>
#include <vector>
#include <nstd/Variant.hpp>
#include <nstd/Document/Json.hpp>

namespace jsonref {

// Reference for Json::stripComments, written from the statement: outside string literals remove "//..." up to but excluding
// the line break and "/*...*/" keeping every CR / LF inside it; inside "..." a backslash protects the next byte; everything
// else verbatim.  wellFormed = no unterminated block comment / string literal.
inline std::string strip(const std::string& in, bool* wellFormed = nullptr) {
  std::string out; size_t i = 0, n = in.size(); bool wf = true;
  while (i < n) {
    char c = in[i];
    if (c == '/' && i + 1 < n && in[i + 1] == '/') { while (i < n && in[i] != '\r' && in[i] != '\n') ++i; continue; }
    if (c == '/' && i + 1 < n && in[i + 1] == '*') {
      i += 2; bool closed = false;
      while (i < n) { if (in[i] == '*' && i + 1 < n && in[i + 1] == '/') { i += 2; closed = true; break; } if (in[i] == '\r' || in[i] == '\n') out += in[i]; ++i; }
      if (!closed) wf = false;
      continue;
    }
    if (c == '"') {
      out += c; ++i; bool closed = false;
      while (i < n) {
        if (in[i] == '\\' && i + 1 < n) { out += in[i]; out += in[i + 1]; i += 2; continue; }
        out += in[i];
        if (in[i++] == '"') { closed = true; break; }
      }
      if (!closed) wf = false;
      continue;
    }
    out += c; ++i;
  }
  if (wellFormed) *wellFormed = wf;
  return out;
}

// lines are separated by \r\n, \r or \n
inline std::vector<size_t> lineLengths(const std::string& t) {
  std::vector<size_t> l; size_t cur = 0;
  for (size_t i = 0; i < t.size(); ++i) {
    if (t[i] == '\r') { l.push_back(cur); cur = 0; if (i + 1 < t.size() && t[i + 1] == '\n') ++i; }
    else if (t[i] == '\n') { l.push_back(cur); cur = 0; }
    else ++cur;
  }
  l.push_back(cur);
  return l;
}
// empty string = fine, otherwise a description of the problem
inline std::string checkErrorPos(const std::string& text, int line, int column) {
  std::vector<size_t> l = lineLengths(text);
  char b[160];
  if (line < 1 || (size_t)line > l.size()) { snprintf(b, sizeof b, "error line %d outside the text (%zu lines)", line, l.size()); return b; }
  if (column < 1 || (size_t)column > l[(size_t)line - 1] + 1) { snprintf(b, sizeof b, "error column %d outside line %d (which has %zu characters)", column, line, l[(size_t)line - 1]); return b; }
  return std::string();
}

struct Facts { bool hasDouble = false, hasNulString = false, hasUnsigned = false; int depth = 0; bool hasEscapeWorthy = false, nonAscii = false; };
inline void scanString(const String& s, Facts& f) {
  const char* p = s; usize n = s.length();
  for (usize i = 0; i < n; ++i) { unsigned char c = (unsigned char)p[i]; if (!c) f.hasNulString = true; if (c == '"' || c == '\\' || c < 0x20) f.hasEscapeWorthy = true; if (c >= 0x80) f.nonAscii = true; }
}
inline void scan(const Variant& v, Facts& f, int depth = 0) {
  if (depth > f.depth) f.depth = depth;
  switch (v.getType()) {
    case Variant::doubleType: f.hasDouble = true; break;
    case Variant::uintType: case Variant::uint64Type: f.hasUnsigned = true; break;
    case Variant::stringType: scanString(v.toString(), f); break;
    case Variant::listType: { const List<Variant>& l = v.toList(); for (List<Variant>::Iterator i = l.begin(); i != l.end(); ++i) scan(*i, f, depth + 1); break; }
    case Variant::arrayType: { const Array<Variant>& l = v.toArray(); for (Array<Variant>::Iterator i = l.begin(); i != l.end(); ++i) scan(*i, f, depth + 1); break; }
    case Variant::mapType: { const HashMap<String, Variant>& m = v.toMap(); for (HashMap<String, Variant>::Iterator i = m.begin(); i != m.end(); ++i) { scanString(i.key(), f); scan(*i, f, depth + 1); } break; }
    default: break;
  }
}
}  // namespace jsonref
