// C16 (opfuzz part "tree"): element trees -> toString -> parse -> same tree; documents with comments / processing
// instructions / references; truncations and flips for totality and error position; value independence of Xml::Variant.
#define PBT_MAIN
#include "pbt.hpp"
#include "xml_common.hpp"

const char* pbt_property = "C16";
const char* pbt_part = "tree";

using namespace pbt;
using xmlref::Node;

namespace {
const char* const NAMES[] = {"a", "b", "item", "x1", "_n", "A.b-c", "node_2", "t", "gr\xc3\xb6\xc3\x9f" "e", "\xe5\x90\x8d\xe5\x89\x8d", "\xce\xb1\xce\xb2" "1", "ns:el"};   // well-formed names, also with letters outside ASCII
const int NN = 12;
const char* const VALS[] = {"", "v", "two words", "q\"uote", "ap'os", "a&b", "<tag>", "&amp;", "&#65;", "line\nbreak", "cr\rlf\r\n", "tab\there", "\xc3\xa4\xe2\x82\xac", "\xf0\x9f\x98\x80 \xf4\x8f\xbf\xbf", "\x01\x1f", "a=b/c", "&lt", "x;y", " lead", "trail ", "--", "]]>"};
const char* const TEXTS[] = {"x", "hello world", " padded ", "a&b", "1<2", "2>1", "\"q\"", "it's", "line\nbreak", "\xc3\xb6", "smile \xf0\x9f\x98\x80", "&amp;", "&#66;", "a;b", "=", "/", "-->", "<!--", "x\r\ny", "/>", "?>"};

struct Deco { uint64_t s; uint64_t next() { s = s * 6364136223846793005ull + 1442695040888963407ull; return s >> 33; } };
std::string gap(Deco& d, bool allowText = false) {
  switch (d.next() % 10) {
    case 0: return " ";
    case 1: return "\n";
    case 2: return "<!-- c -->";
    case 3: return "<!--a-b - -> - \n x-->";
    case 4: return "\r\n\t";
    case 5: return "<!---->";
    case 6: return " <!-- <b a=\"1\"> --> ";
    default: return "";
  }
}
std::string esc(const std::string& s, Deco& d, bool attr) {
  std::string r; char b[24];
  for (size_t si = 0; si < s.size(); ++si) {
    unsigned char c = (unsigned char)s[si];
    // a well-formed multi-byte UTF-8 sequence may be written as a decimal character reference (up to 7 digits, or zero padded)
    if (c >= 0xC2 && c <= 0xF4) {
      int len = c >= 0xF0 ? 4 : c >= 0xE0 ? 3 : 2; bool ok = si + (size_t)len <= s.size();
      unsigned cp = c & (0xFF >> (len + 1));
      for (int k = 1; ok && k < len; ++k) { unsigned char cc = (unsigned char)s[si + (size_t)k]; if ((cc & 0xC0) != 0x80) ok = false; else cp = (cp << 6) | (cc & 0x3F); }
      if (ok && cp <= 0x10FFFF && !(cp >= 0xD800 && cp <= 0xDFFF) && cp >= (len == 2 ? 0x80u : len == 3 ? 0x800u : 0x10000u) && d.next() % 3 == 0) {
        snprintf(b, sizeof b, (d.next() & 3) == 0 ? "&#%08u;" : "&#%u;", cp); r += b; si += (size_t)len - 1; continue;
      }
    }
    if (c == '&') r += "&amp;"; else if (c == '<') r += "&lt;"; else if (c == '>') r += (d.next() & 1) ? "&gt;" : ">";
    else if (c == '"') r += "&quot;"; else if (c == '\'') r += (d.next() & 1) ? "&apos;" : (attr ? "&apos;" : "'");
    else if (c == '\n' || c == '\r') { if (attr || (d.next() & 1)) { snprintf(b, sizeof b, "&#%u;", c); r += b; } else r += (char)c; }
    else if (c >= 0x20 && c < 0x7f && d.next() % 7 == 0) { snprintf(b, sizeof b, "&#%u;", c); r += b; }
    else r += (char)c;
  }
  return r;
}
void emit(std::string& out, const Node& n, Deco& d, bool comments) {
  out += "<" + n.name;
  for (auto& a : n.attrs) { out += comments ? (" " + gap(d)) : std::string(" "); char q = (d.next() & 1) ? '"' : '\''; std::string v = esc(a.second, d, true); out += a.first; if (comments) { std::string g = gap(d); if (!g.empty()) out += " " + g; } out += "="; if (comments) out += gap(d); out += q; out += v; out += q; }
  if (comments) { std::string g = gap(d); if (!g.empty()) out += " " + g; }
  if (n.kids.empty() && (d.next() & 1)) { out += "/>"; return; }
  out += ">";
  for (auto& k : n.kids) { if (comments) out += gap(d); if (k.isText) out += esc(k.text, d, false); else emit(out, k, d, comments); }
  if (comments) out += gap(d);
  out += "</" + n.name; if (comments && (d.next() & 1)) out += " " + gap(d); out += ">";
}
}  // namespace

namespace {
// Parser::parse(const String&) converts to a C string; to keep the text in an exactly sized block the String is created
// with String(ptr,len) whose capacity is len|3: up to 3 spare bytes. The libFuzzer target uses the same entry point.
Xml::Parser* g_xparser = nullptr; long g_xparses = 0;   // created at the start of every case, destroyed at its end
bool parseDoc(const std::string& text, Xml::Element& e, int& line, int& col) {
  // exactly sized block through the static entry point (memory safety), then the Parser object (error position)
  char* t = (char*)malloc(text.size() + 1); memcpy(t, text.data(), text.size()); t[text.size()] = 0;
  bool ok0; { pbt::LedgerPause lp; Xml::Element e0; ok0 = Xml::parse((const char*)t, e0); }  // (keeps a per-thread error string alive: not a leak)
  free(t);
  String s(text.data(), text.size());
  // one Xml::Parser object serves two out of three parses of a case (nothing may carry over from one document to the next)
  Xml::Parser fresh; Xml::Parser& p = (g_xparser && (++g_xparses % 3)) ? *g_xparser : fresh;
  bool ok = p.parse(s, e);
  if (ok != ok0) pbt::g_ctx.fail("parse:entry-points-disagree", "Xml::parse(const char*) and Xml::Parser::parse(const String&) disagree on success");
  if (!ok) { line = p.getErrorLine(); col = p.getErrorColumn(); }
  return ok;
}
struct XV { int t = 0; std::string text; Node el; };  // model of an Xml::Variant: 0 null 1 element 2 text
}  // namespace

void pbt_warmup() { Xml::Element e; Xml::parse("<a b=\"c\">x<d/></a>", e); (void)Xml::toString(e); (void)((const Xml::Variant&)Xml::Variant()).toElement(); }

void pbt_generate(Rng& r, int size, Case& c) {
  int n = 1 + (int)r.below((uint64_t)size + 1);
  bool deep = r.chance(2);
  if (deep) { int d = 50 + (int)r.below(r.chance(10) ? 950 : 250); for (int k = 0; k < d; ++k) c.add("open", (long)r.below(12)); c.add("text", (long)r.below(20)); c.params["deco"] = (long)r.below(1 << 30); return; }
  // wide documents: a thousand and more siblings without content under a few levels (nesting depth is bounded, breadth is not)
  if (r.chance(1)) { int lv = (int)r.below(4); for (int k = 0; k < lv; ++k) c.add("open", (long)r.below(12)); c.add("empties", 900 + (long)r.below(1800), (long)r.below(12)); c.add("open", (long)r.below(12)); c.add("text", (long)r.below(20)); c.params["deco"] = (long)r.below(1 << 30); return; }
  static const char* names[] = {"open", "attr", "text", "close", "v_elem", "v_text", "v_copy", "v_assign", "v_mutate", "v_clear"};
  static const int w[] = {14, 16, 12, 12, 2, 2, 3, 3, 4, 1};
  for (int k = 0; k < n; ++k) {
    int o = r.weighted(w, 10);
    std::string d;
    if (o == 1 || o == 2 || o == 5 || o == 8) {
      if (r.chance(70)) d = o == 2 ? TEXTS[r.below(sizeof TEXTS / sizeof *TEXTS)] : VALS[r.below(sizeof VALS / sizeof *VALS)];
      else { int len = 1 + (int)r.below(6); for (int q = 0; q < len; ++q) { static const char al[] = "ab <>&\"';=/-!?#\n\r\t1"; d += al[r.below(sizeof al - 1)]; } }
    }
    c.add(names[o], (long)r.below(12), (long)r.below(3), (long)r.below(3), (long)r.below(100), d);
  }
  c.params["deco"] = (long)r.below(1 << 30);
}

bool pbt_nontrivial(const Ctx& ctx) { return (ctx.has("special_attr_value") && ctx.has("depth>=2")) || ctx.has("comment_adjacent_to_text"); }

void pbt_run(const Case& cs, Ctx& ctx) {
  pbt::g_ledger.limitBytes = 48u << 20;
  struct ParserScope { ParserScope() { g_xparser = new Xml::Parser; g_xparses = 0; } ~ParserScope() { delete g_xparser; g_xparser = nullptr; } } parserScope;
  Node root; root.name = "root";
  std::vector<std::vector<size_t>> open; open.push_back(std::vector<size_t>());
  auto resolve = [&](const std::vector<size_t>& p) -> Node* { Node* n = &root; for (size_t ix : p) n = &n->kids[ix]; return n; };
  Xml::Variant* xv[3]; XV xm[3]; for (int i = 0; i < 3; ++i) xv[i] = new Xml::Variant;
  int maxDepth = 0; long idx = 0;
  auto checkVariants = [&](const char* opname) {
    for (int i = 0; i < 3; ++i) {
      const Xml::Variant& v = *xv[i];
      bool ok = (xm[i].t == 0 && v.isNull()) || (xm[i].t == 2 && v.isText() && xmlref::str(v.toString()) == xm[i].text) || (xm[i].t == 1 && v.isElement() && xmlref::cmp(v.toElement(), xm[i].el, "v").empty());
      if (!ok) { char b[200]; snprintf(b, sizeof b, "after %s: Xml::Variant v%d differs from its model (type %d, model %d)%s", opname, i, (int)v.getType(), xm[i].t, xm[i].t == 1 && v.isElement() ? (": " + xmlref::cmp(v.toElement(), xm[i].el, "v")).c_str() : ""); ctx.fail("variant:mismatch", b); }
    }
  };
  for (const Op& op : cs.ops) {
    ctx.opIndex = idx++;
    const std::string& nm = op.name; std::string d = op.data; for (auto& ch : d) if (!ch) ch = '0';
    if (nm == "open") { Node* p = resolve(open.back()); Node c; c.name = NAMES[((op.a[0] % NN) + NN) % NN]; p->kids.push_back(c); std::vector<size_t> pth = open.back(); pth.push_back(p->kids.size() - 1); open.push_back(pth); if ((int)open.size() - 1 > maxDepth) maxDepth = (int)open.size() - 1; }
    else if (nm == "close") { if (open.size() > 1) open.pop_back(); }
    else if (nm == "empties") { Node* p = resolve(open.back()); long cnt = std::max(0L, std::min(3000L, op.a[0])); Node c; c.name = NAMES[((op.a[1] % NN) + NN) % NN]; for (long q = 0; q < cnt; ++q) p->kids.push_back(c); if (cnt >= 1000) ctx.label("siblings>=1000"); }
    else if (nm == "attr") {
      Node* p = resolve(open.back()); if (!p->kids.empty()) { ctx.count("skipped"); continue; }  // attributes are given before content (keeps the model simple)
      std::string an = std::string(NAMES[((op.a[0] % NN) + NN) % NN]) + (op.a[1] ? std::to_string(op.a[1]) : "");
      bool dup = false; for (auto& a : p->attrs) if (a.first == an) dup = true;
      if (dup || p->attrs.size() >= 4) { ctx.count("skipped"); continue; }
      p->attrs.emplace_back(an, d);
      if (d.find_first_of("\"&\n\r'<") != std::string::npos) ctx.label("special_attr_value");
    }
    else if (nm == "text") {
      Node* p = resolve(open.back()); std::string t = d.empty() ? std::string(TEXTS[((op.a[0] % 20) + 20) % 20]) : d;
      if (xmlref::blank(t) || (!p->kids.empty() && p->kids.back().isText)) { ctx.count("skipped"); continue; }  // non-blank, non-adjacent
      Node c; c.isText = true; c.text = t; p->kids.push_back(c);
    }
    else if (nm.compare(0, 2, "v_") == 0) {
      int i = (int)(((op.a[1] % 3) + 3) % 3), j = (int)(((op.a[2] % 3) + 3) % 3);
      if (nm == "v_elem") { Node e; e.name = NAMES[((op.a[0] % NN) + NN) % NN]; e.attrs.emplace_back("k", d); *xv[i] = Xml::Variant(xmlref::build(e)); xm[i].t = 1; xm[i].el = e; xm[i].text.clear(); }
      else if (nm == "v_text") { *xv[i] = String(d.data(), d.size()); xm[i].t = 2; xm[i].text = d; }
      else if (nm == "v_copy") { if (i == j) { ctx.count("skipped"); continue; } delete xv[i]; xv[i] = new Xml::Variant(*xv[j]); xm[i] = xm[j]; ctx.label("variant_copy"); }
      else if (nm == "v_assign") { *xv[i] = *xv[j]; xm[i] = xm[j]; ctx.label("variant_copy"); }
      else if (nm == "v_mutate") {
        // mutable access followed by a change: must not change any other variable
        if (ctx.excluded("C16-variant-toelement-shared")) { ctx.count("skipped"); continue; }
        Xml::Element& e = xv[i]->toElement();
        if (xm[i].t != 1) { xm[i] = XV(); xm[i].t = 1; }
        e.type = String("changed"); e.attributes.append(String("m"), String(d.data(), d.size())); e.content.append(Xml::Variant(String("t")));
        xm[i].el.name = "changed"; bool f = false; for (auto& a : xm[i].el.attrs) if (a.first == "m") { a.second = d; f = true; } if (!f) xm[i].el.attrs.emplace_back("m", d);
        Node t; t.isText = true; t.text = "t"; xm[i].el.kids.push_back(t);
        ctx.label("variant_mutable_access");
      }
      else if (nm == "v_clear") { xv[i]->clear(); xm[i] = XV(); }
      checkVariants(nm.c_str());
    }
    else ctx.count("unknown_op");
  }
  ctx.opIndex = -2;
  if (maxDepth >= 2) ctx.label("depth>=2");
  if (maxDepth >= 100) ctx.label("deep_chain");
  for (int i = 0; i < 3; ++i) delete xv[i];

  // ---- (a) serialise with the library, parse again: same names, attribute order and values, text and nesting
  Xml::Element el = xmlref::build(root);
  String textS = Xml::toString(el);
  std::string text = xmlref::str(textS);
  {
    Xml::Element back; int l = 0, c = 0;
    if (!parseDoc(text, back, l, c)) { char b[400]; snprintf(b, sizeof b, "output of Xml::toString does not parse (line %d column %d): %s", l, c, xmlref::hex(text.substr(0, 150)).c_str()); ctx.fail("roundtrip:parse-failed", b); }
    std::string r = xmlref::cmp(back, root, "/root"); if (!r.empty()) ctx.fail("roundtrip:tree-differs", r);
    r = xmlref::checkPositions(back, text); if (!r.empty()) ctx.fail("element-position", r);
  }
  // ---- (b) own document: other quote style, references, optional comments / processing instructions
  {
    Deco d{(uint64_t)cs.param("deco", 1) * 2654435761ull + 7};
    bool comments = (d.next() & 1) != 0;
    std::string doc;
    if (d.next() & 1) doc += "<?xml version=\"1.0\"\n encoding='UTF-8'?>";
    if (comments) doc += gap(d);
    if (d.next() % 4 == 0) doc += "<?pi a\r\nb ? > ?>\n";
    if (comments) doc += gap(d);
    emit(doc, root, d, comments);
    if (comments) doc += gap(d);
    Xml::Element back; int l = 0, c = 0;
    if (!parseDoc(doc, back, l, c)) { char b[500]; snprintf(b, sizeof b, "well-formed document does not parse (line %d column %d): %s", l, c, xmlref::hex(doc.substr(0, 200)).c_str()); ctx.fail("document:parse-failed", b); }
    std::string r = comments ? xmlref::cmpLoose(back, root, "/root") : xmlref::cmp(back, root, "/root");
    if (!r.empty()) ctx.fail(comments ? "document:tree-differs(comments)" : "document:tree-differs", r + " | doc " + xmlref::hex(doc.substr(0, 120)));
    r = xmlref::checkPositions(back, doc); if (!r.empty()) ctx.fail("element-position", r + " | doc " + xmlref::hex(doc.substr(0, 120)));
    if (comments) { ctx.label("has_comments"); if (doc.find("--><") == std::string::npos || true) { for (size_t p = doc.find("-->"); p != std::string::npos; p = doc.find("-->", p + 3)) if (p + 3 < doc.size() && doc[p + 3] != '<' && doc[p + 3] != ' ' && doc[p + 3] != '\n' && doc[p + 3] != '\r' && doc[p + 3] != '\t') ctx.label("comment_adjacent_to_text"); } }
    // truncations / flips of the document
    uint64_t rs = (uint64_t)cs.param("deco", 1) + 99; size_t n = doc.size(); int tries = n <= 150 ? (int)n : n > 50000 ? 3 : 20;
    for (int q = 0; q < tries; ++q) {
      size_t at = n <= 150 ? (size_t)q : (size_t)((rs = rs * 6364136223846793005ull + 1442695040888963407ull) >> 33) % n;
      std::string cut = doc.substr(0, at); Xml::Element e2; int l2 = 0, c2 = 0;
      if (!parseDoc(cut, e2, l2, c2)) { std::string e = jsonref::checkErrorPos(cut, l2, c2); if (!e.empty()) ctx.fail("error-position", e + " | truncated doc " + xmlref::hex(cut.substr(0, 100))); ctx.label("truncation_rejected"); }
      if (q < 10 && n && n <= 20000) {
        std::string fl = doc; size_t p = (size_t)((rs = rs * 6364136223846793005ull + 1442695040888963407ull) >> 33) % n; fl[p] = "<>\"'&=/!-?\n"[(rs >> 20) % 11];
        Xml::Element e3; if (!parseDoc(fl, e3, l2, c2)) { std::string e = jsonref::checkErrorPos(fl, l2, c2); if (!e.empty()) ctx.fail("error-position", e + " | flipped doc " + xmlref::hex(fl.substr(0, 100))); }
        else { std::string r2 = xmlref::checkPositions(e3, fl); if (!r2.empty()) ctx.fail("element-position", r2); }
      }
    }
  }
}
