// C18 libFuzzer target: Unicode decoders and String::fromBase64 on arbitrary bytes in exactly sized heap blocks.
#define FUZZ_MAIN
#include "fuzz.hpp"
#include <nstd/Unicode.hpp>
#include <nstd/String.hpp>

extern "C" int LLVMFuzzerTestOneInput(const uint8_t* data, size_t size) {
  if (size < 1) return 0;
  int mode = data[0] % 3; ++data; --size;
  char* p = (char*)malloc(size ? size : 1); memcpy(p, data, size);
  fuzz::begin(0);
  if (mode == 0) {
    // walk the buffer like a caller would: length() of the lead byte, then fromString on the remaining range
    bool valid = Unicode::isValid(p, size);
    size_t off = 0, steps = 0; bool multi = false;
    while (off < size && steps++ < 1000) {
      usize l = Unicode::length(p[off]);
      uint32 cp = Unicode::fromString(p + off, size - off); (void)cp;
      if (l > 1) multi = true;
      if (valid && (l == 0 || off + l > size)) fuzz::fail("isValid accepted a buffer whose sequence at offset %zu is malformed or truncated", off);
      off += l ? l : 1;
    }
    // the empty range at the end of the block: nothing may be read, nothing is decoded
    if (Unicode::fromString(p + size, 0) != 0) fuzz::fail("fromString of an empty range returned a code point");
    if (valid && multi) { fuzz::label("valid_multibyte"); fuzz::nontrivial(data, size); }
    String s(p, size); (void)Unicode::isValid(s); (void)Unicode::fromString(s);
  } else {
    String s(p, size);
    String out = String::fromBase64(s);
    if (out.length() > size) fuzz::fail("fromBase64 produced more bytes than its input has");
    { char* blk = (char*)malloc(size + 1); memcpy(blk, p, size); blk[size] = 0; String at; at.attach(blk, size);   // attached to the start of an exact (terminated) block
      String out2 = String::fromBase64(at); bool same = out2.length() == out.length() && memcmp((const char*)out2, (const char*)out, out.length()) == 0; free(blk);
      if (!same) fuzz::fail("fromBase64 of an attached text differs from fromBase64 of its copy"); }
    bool high = false; for (size_t i = 0; i < size; ++i) if (data[i] & 0x80) high = true;
    if (out.length()) { fuzz::label("decoded"); fuzz::nontrivial(data, size); } else if (high) fuzz::label("rejected_high_bytes");
  }
  fuzz::end();
  free(p);
  return 0;
}
