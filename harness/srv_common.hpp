// Shared by the Server harnesses (C13, C14 single-thread part): the harness owns send(), the readiness order and the clock.
// Linked with -Wl,--wrap=send,--wrap=epoll_wait,--wrap=clock_gettime.
//  - clock_gettime(CLOCK_MONOTONIC / REALTIME) serves a virtual clock (milliseconds advance only through epoll_wait time-outs)
//  - epoll_wait calls the real one with time-out 0; if nothing is ready it advances the virtual clock by the requested time-out
//    and returns 0 (the loop never sleeps); ready events may be permuted / truncated by a generated script (C14)
//  - send() on registered (server side) descriptors consumes the next entry of the case's fault script:
//    would-block, partial(k), full; what the kernel really took is logged per descriptor
#pragma once
#include <sys/epoll.h>
#include <sys/socket.h>
#include <time.h>
#include <errno.h>
#include <cstring>
#include <vector>
#include <map>

extern "C" {
ssize_t __real_send(int, const void*, size_t, int);
int __real_epoll_wait(int, struct epoll_event*, int, int);
int __real_clock_gettime(clockid_t, struct timespec*);
}

namespace srv {
struct Fault { int kind; long n; };                 // kind 0 full, 1 would-block, 2 partial(n), 3 partial(all but n)
struct SendLog { long long taken = 0; long calls = 0, wouldBlock = 0, partial = 0; };
struct State {
  bool active = false;
  long long nowMs = 1000000;                          // virtual clock
  std::vector<Fault> faults; size_t nextFault = 0; bool faultsOn = true;
  std::map<int, SendLog> watched;                     // server side client descriptors
  std::vector<unsigned> permScript; size_t nextPerm = 0;  // readiness order / subset choices
  long epollCalls = 0, idleRounds = 0, advancedMs = 0, permuted = 0, truncated = 0;
  long maxTimeoutSeen = 0, hupOnlyDropped = 0;
};
inline State& st() { static State s; return s; }
inline void (*idleHookPtr)(int timeout) = nullptr;   // called when nothing is ready, before the virtual clock advances by 'timeout'

inline void reset() { State& s = st(); s = State(); }
}  // namespace srv

extern "C" {
ssize_t __wrap_send(int fd, const void* buf, size_t len, int flags) {
  srv::State& s = srv::st();
  auto it = s.active ? s.watched.find(fd) : s.watched.end();
  if (!s.active || it == s.watched.end()) return __real_send(fd, buf, len, flags);
  srv::SendLog& lg = it->second; ++lg.calls;
  size_t allow = len;
  if (s.faultsOn && s.nextFault < s.faults.size()) {
    srv::Fault f = s.faults[s.nextFault++];
    if (f.kind == 1) { ++lg.wouldBlock; errno = EAGAIN; return -1; }
    if (f.kind == 2) allow = (size_t)(f.n < 1 ? 1 : f.n);
    else if (f.kind == 3) allow = len > (size_t)f.n ? len - (size_t)f.n : 1;
    if (allow > len) allow = len;
    if (allow < len) ++lg.partial;
  }
  ssize_t r = __real_send(fd, buf, allow, flags);
  if (r > 0) lg.taken += r;
  if (r >= 0 && (size_t)r < len && allow == len) ++lg.partial;   // the kernel itself took less
  if (r < 0 && (errno == EAGAIN || errno == EWOULDBLOCK)) ++lg.wouldBlock;
  return r;
}
int __wrap_clock_gettime(clockid_t id, struct timespec* ts) {
  srv::State& s = srv::st();
  bool timeClock = id == CLOCK_MONOTONIC || id == CLOCK_REALTIME || id == CLOCK_MONOTONIC_RAW || id == CLOCK_MONOTONIC_COARSE || id == CLOCK_REALTIME_COARSE || id == CLOCK_BOOTTIME;
  if (!s.active || !timeClock) return __real_clock_gettime(id, ts);   // (every wall / monotonic clock is the one virtual clock)
  long long t = s.nowMs;
  if (id == CLOCK_MONOTONIC_COARSE || id == CLOCK_REALTIME_COARSE) t -= t % 4;   // the _COARSE clocks stand still between two timer ticks (4 ms)
  ts->tv_sec = (time_t)(t / 1000); ts->tv_nsec = (long)(t % 1000) * 1000000L;
  return 0;
}
int __wrap_epoll_wait(int epfd, struct epoll_event* ev, int maxev, int timeout) {
  srv::State& s = srv::st();
  if (!s.active) return __real_epoll_wait(epfd, ev, maxev, timeout);
  ++s.epollCalls;
  int n = __real_epoll_wait(epfd, ev, maxev, 0);
  // Events that carry only EPOLLHUP / EPOLLERR belong to descriptors registered with an empty mask (a suspended client whose
  // peer hung up): the kernel reports them regardless of the mask, the library maps them to "no event" and polls again, i.e. it
  // spins in real time. That is not covered by a listed property, but under virtual time it would be a livelock: drop them.
  if (n > 0) { int k = 0; for (int i = 0; i < n; ++i) if (ev[i].events & (EPOLLIN | EPOLLOUT | EPOLLRDHUP)) ev[k++] = ev[i]; else ++s.hupOnlyDropped; n = k; }
  if (n <= 0) {
    if (srv::idleHookPtr) srv::idleHookPtr(timeout);
    if (timeout > s.maxTimeoutSeen) s.maxTimeoutSeen = timeout;
    if (timeout > 0) { s.nowMs += timeout; s.advancedMs += timeout; }
    ++s.idleRounds;
    return n < 0 ? n : 0;
  }
  // generated readiness order: rotate / reverse / keep a prefix (the rest is reported again by the level-triggered epoll)
  if (n > 1 && s.nextPerm < s.permScript.size()) {
    unsigned c = s.permScript[s.nextPerm++];
    unsigned rot = c % (unsigned)n;
    if (rot) { std::vector<epoll_event> t(ev, ev + n); for (int i = 0; i < n; ++i) ev[i] = t[(size_t)((i + (int)rot) % n)]; ++s.permuted; }
    if ((c >> 8) & 1) { for (int i = 0; i < n / 2; ++i) { epoll_event t = ev[i]; ev[i] = ev[n - 1 - i]; ev[n - 1 - i] = t; } ++s.permuted; }
    if ((c >> 9) & 1) { int keep = 1 + (int)((c >> 10) % (unsigned)n); if (keep < n) { n = keep; ++s.truncated; } }
  }
  return n;
}
}
