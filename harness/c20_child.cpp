// C20 helper child (plain C++/POSIX, no libnstd).  Started by harness/c20_proc.cpp through Process::start/open.
//
//   c20_child <report-file> <control> [free words ...]
//
// control is a comma separated list of <letter><number>:
//   x<code>  exit code
//   i<0|1>   read ALL of stdin (until end-of-file) before anything is written
//   O<0|1>   echo the stdin bytes to stdout     E<0|1>  echo the stdin bytes to stderr
//   o<n>     then write n pattern bytes to stdout   e<n>  write n pattern bytes to stderr
//   f<0|1>   1: serve stderr before stdout (default stdout first); each stream is closed as soon as it is complete
//   h<0|1>   1: after the report is written, pause until killed (no stream traffic)
//   w<ms>    wait that many milliseconds after the report before any stream traffic
//
// Report (length prefixed, binary safe):
//   "A <argc>\n" then per argument "<len>\n<bytes>\n"; "E <n>\n" then per environment string "<len>\n<bytes>\n";
//   "I <len> <fnv64 hex>\n" for the stdin bytes (len -1 when stdin was not read); last line "D <errors>\n" once all
//   stream traffic is done.
// Without arguments (argc < 2) the report goes to stdout when stdout is a pipe, and the exit code is 77.
#include <cerrno>
#include <csignal>
#include <cstdint>
#include <cstdio>
#include <cstdlib>
#include <cstring>
#include <string>
#include <fcntl.h>
#include <sys/stat.h>
#include <unistd.h>

extern char** environ;

static int writeAll(int fd, const char* p, size_t n) {
  while (n) {
    ssize_t k = write(fd, p, n);
    if (k < 0) { if (errno == EINTR) continue; return 1; }
    p += k; n -= (size_t)k;
  }
  return 0;
}

static unsigned char patternByte(size_t k, unsigned seed) { return (unsigned char)((k * 31u + seed * 101u) ^ (k >> 8) ^ (k >> 15)); }

static std::string report(int argc, char** argv) {
  std::string r;
  char b[64];
  snprintf(b, sizeof b, "A %d\n", argc); r += b;
  for (int i = 0; i < argc; ++i) { size_t n = strlen(argv[i]); snprintf(b, sizeof b, "%zu\n", n); r += b; r.append(argv[i], n); r += '\n'; }
  int ne = 0; while (environ && environ[ne]) ++ne;
  snprintf(b, sizeof b, "E %d\n", ne); r += b;
  for (int i = 0; i < ne; ++i) { size_t n = strlen(environ[i]); snprintf(b, sizeof b, "%zu\n", n); r += b; r.append(environ[i], n); r += '\n'; }
  return r;
}

int main(int argc, char** argv) {
  signal(SIGPIPE, SIG_IGN);
  alarm(60);  // never outlive a harness that died
  if (argc < 2) {
    struct stat st;
    if (fstat(1, &st) == 0 && S_ISFIFO(st.st_mode)) { std::string r = report(argc, argv); r += "I -1 0\nD 0\n"; writeAll(1, r.data(), r.size()); }
    // a child that was started without even its own name in the argument vector says so (the vector a process gets starts with the executable)
    _exit((argc < 1 || !argv[0] || !*argv[0]) ? 78 : 77);
  }
  long code = 0, rd = 0, no = 0, ne = 0, eo = 0, ee = 0, errFirst = 0, hang = 0, waitMs = 0;
  if (argc >= 3) {
    const char* p = argv[2];
    while (*p) {
      char k = *p++;
      char* end; long v = strtol(p, &end, 10); p = end;
      switch (k) { case 'x': code = v; break; case 'i': rd = v; break; case 'o': no = v; break; case 'e': ne = v; break;
                   case 'O': eo = v; break; case 'E': ee = v; break; case 'f': errFirst = v; break; case 'h': hang = v; break; case 'w': waitMs = v; break; default: break; }
      if (*p == ',') ++p; else if (*p) break;
    }
  }
  int rf = open(argv[1], O_WRONLY | O_CREAT | O_TRUNC, 0644);
  if (rf < 0) _exit(78);
  std::string in;
  if (rd) {
    char buf[65536];
    for (;;) {
      ssize_t k = read(0, buf, sizeof buf);
      if (k < 0) { if (errno == EINTR) continue; break; }
      if (k == 0) break;
      in.append(buf, (size_t)k);
    }
  }
  {
    std::string r = report(argc, argv);
    char b[96];
    uint64_t h = 1469598103934665603ull; for (unsigned char c : in) { h ^= c; h *= 1099511628211ull; }
    snprintf(b, sizeof b, "I %ld %llx\n", rd ? (long)in.size() : -1L, (unsigned long long)h); r += b;
    if (writeAll(rf, r.data(), r.size())) _exit(79);
  }
  if (hang) { for (;;) pause(); }
  if (waitMs > 0) usleep((useconds_t)waitMs * 1000);
  int errors = 0;
  for (int pass = 0; pass < 2; ++pass) {
    bool isErr = (pass == 0) == (errFirst != 0);
    int fd = isErr ? 2 : 1;
    long n = isErr ? ne : no; bool echo = isErr ? ee != 0 : eo != 0;
    if (echo) errors += writeAll(fd, in.data(), in.size());
    if (n > 0) {
      std::string pat((size_t)n, '\0');
      for (size_t k = 0; k < (size_t)n; ++k) pat[k] = (char)patternByte(k, isErr ? 2 : 1);
      errors += writeAll(fd, pat.data(), pat.size());
    }
    close(fd);  // end-of-file for this stream as soon as it is complete
  }
  char b[32]; snprintf(b, sizeof b, "D %d\n", errors);
  writeAll(rf, b, strlen(b));
  close(rf);
  _exit((int)(code & 255));
}
