// HashMap / HashSet / PoolMap interpreter (C02, C04, C05).  -DKIND=0 HashMap<Elem,Elem>, 1 HashSet<Elem>, 2 PoolMap<Elem,Pinned>.
// Model: insertion-ordered vector of unique keys with value id, payload of the stored key, uid and element address.
#define PBT_MAIN
#include "pbt.hpp"
#include "elem.hpp"
#include <nstd/HashMap.hpp>
#include <nstd/HashSet.hpp>
#include <nstd/PoolMap.hpp>

#ifndef KIND
#define KIND 0
#endif

const char* pbt_property = "C02";
const char* pbt_part = KIND == 0 ? "hashmap" : KIND == 1 ? "hashset" : "poolmap";
void pbt_warmup() {}

using namespace pbt;
using elem::Elem;
using elem::Pinned;

#if KIND == 0
typedef HashMap<Elem, Elem> Cont;
#elif KIND == 1
typedef HashSet<Elem> Cont;
#else
typedef PoolMap<Elem, Pinned> Cont;
#endif
typedef Cont::Iterator It;

namespace {
const int NC = 3;
struct Entry { int key; int val; int pay; long uid; const void* addr; };
struct Held { int c; long uid; It it; };
enum Profile { P_C02, P_C04, P_C05 };
Profile profile() { std::string p = pbt_property; return p == "C04" ? P_C04 : p == "C05" ? P_C05 : P_C02; }

// uniform access to the three kinds
inline int keyOf(const It& it) {
#if KIND == 1
  return (*it).id;
#else
  return it.key().id;
#endif
}
inline int payOf(const It& it) {
#if KIND == 1
  return (*it).pay;
#else
  return it.key().pay;
#endif
}
inline int valOf(const It& it) {
#if KIND == 1
  return (*it).id;
#else
  return (*it).id;
#endif
}
inline const void* addrOf(const It& it) { return (const void*)&*it; }
}  // namespace

void pbt_generate(Rng& r, int size, Case& c) {
  Profile pf = profile();
  int nops = 2 + (int)r.below((uint64_t)size * 2 + 1);
  int U = 2 + (int)r.below((uint64_t)size * 2 + 2);
  static const long caps[] = {0, 1, 2, 3, 4, 7, 16, 500};
  static const long mods[] = {1, 1, 2, 3, 7, 0, 0};
  c.params["U"] = U;
  c.params["hashmod"] = mods[r.below(7)];
  c.params["cap0"] = caps[r.below(8)];
  c.params["cap1"] = caps[r.below(8)];
  c.params["cap2"] = r.chance(50) ? -1 : caps[r.below(8)];  // -1: default constructed
  //                           app  pre  inspos rm  rmit rmfront rmback clear swap copy assign selfassign eq  setappend setremove insref recreate rmval
  static const int w02[] = {30, 12, 12, 14, 10, 4, 4, 1, 6, 2, 2, 1, 3, 3, 3, 0, 1, 6};
  static const int w04[] = {24, 8, 8, 8, 8, 3, 3, 2, 4, 5, 5, 5, 1, 4, 4, 8, 5, 4};
  static const int w05[] = {34, 12, 12, 8, 8, 3, 3, 1, 8, 1, 1, 0, 1, 2, 1, 0, 0, 4};
  static const char* names[] = {"append", "prepend", "inspos", "rm", "rmit", "rmfront", "rmback", "clear", "swap", "copy", "assign", "selfassign", "eq", "setappend", "setremove", "insref", "recreate", "rmval"};
  const int* w = pf == P_C04 ? w04 : pf == P_C05 ? w05 : w02;
  for (int k = 0; k < nops; ++k) {
    int o = r.weighted(w, 18);
    long c0 = (long)r.below(NC), c1 = (long)r.below(NC);
    c.add(names[o], c0, (long)r.below((uint64_t)U), (long)r.below(16), c1);
    if ((o == 9 || o == 10) && r.chance(60)) {  // compare a fresh copy with its source, possibly after one more change
      if (r.chance(40)) c.add(r.chance(50) ? "append" : "rm", r.chance(50) ? c0 : c1, (long)r.below((uint64_t)U), 0, 0);
      c.add("eq", c0, 0, 0, c1);
    }
  }
}

bool pbt_nontrivial(const Ctx& ctx) {
  switch (profile()) {
    case P_C04: return ctx.has("self_arg_on_size>=2") && ctx.has("destroy_with_live_elements");
    case P_C05: return ctx.has("survivor_10ins_5rm") && ctx.has("swap_nonempty");
    default: return (ctx.has("chain>=3") && ctx.has("remove_mid_chain")) || ctx.has("swap_or_assign_across_capacities");
  }
}

void pbt_run(const Case& cs, Ctx& ctx) {
  Profile pf = profile();
  elem::stats() = elem::Stats();
  pbt::g_ledger.limitBytes = 8u << 20;
  elem::reg().reset();
  const long U = std::max(1L, cs.param("U", 8));
  const long hashmod = cs.param("hashmod", 0);
  elem::stats().hashmod = hashmod;
  Cont* C[NC]; long cap[NC];
  std::vector<Entry> M[NC];
  std::vector<Held> held;
  auto mk = [&](long cp) -> Cont* { return cp < 0 ? new Cont : new Cont((usize)cp); };
  auto effcap = [&](long cp) -> long { return cp < 0 ? 500 : (cp == 0 ? 1 : cp); };
  for (int i = 0; i < NC; ++i) { char pn[8]; snprintf(pn, sizeof pn, "cap%d", i); cap[i] = cs.param(pn, -1); C[i] = mk(cap[i]); }
  long nextUid = 1; int nextVal = 1000;
  long insertsTotal = 0, removesTotal = 0;
  std::map<long, std::pair<long, long>> born;

  auto findKey = [&](int c, int key) -> int { for (size_t i = 0; i < M[c].size(); ++i) if (M[c][i].key == key) return (int)i; return -1; };
  auto findUid = [&](int c, long uid) -> int { for (size_t i = 0; i < M[c].size(); ++i) if (M[c][i].uid == uid) return (int)i; return -1; };
  auto dropHeld = [&](int c, long uid) { for (size_t i = 0; i < held.size();) if (held[i].c == c && held[i].uid == uid) held.erase(held.begin() + (long)i); else ++i; };
  auto dropHeldCont = [&](int c) { for (size_t i = 0; i < held.size();) if (held[i].c == c) held.erase(held.begin() + (long)i); else ++i; };
  auto keep = [&](int c, long uid, const It& it) { LedgerPause lp; held.push_back(Held{c, uid, it}); if (held.size() > 10) held.erase(held.begin()); };
  auto bucket = [&](int c, int key) -> long { unsigned long h = hashmod > 0 ? (unsigned long)((unsigned)key % (unsigned long)hashmod) : (unsigned long)(unsigned)key; return (long)(h % (unsigned long)effcap(cap[c])); };
  auto chainLen = [&](int c, int key) { long b = bucket(c, key); int n = 0; for (auto& e : M[c]) if (bucket(c, e.key) == b) ++n; return n; };
  auto iterAt = [&](int c, size_t pos) { It it = C[c]->begin(); for (size_t j = 0; j < pos; ++j) ++it; return it; };
  auto born_note = [&](long uid) { LedgerPause lp; born[uid] = std::make_pair(insertsTotal, removesTotal); };
  auto noteSurvivors = [&]() {
    for (int c = 0; c < NC; ++c) for (auto& e : M[c]) { auto it = born.find(e.uid); if (it != born.end() && insertsTotal - it->second.first >= 10 && removesTotal - it->second.second >= 5) { ctx.label("survivor_10ins_5rm"); return; } }
  };

  // insertion of (key,val,pay) at model position pos (before entry pos); returns uid. 'it' designates the element.
  auto modelInsert = [&](int c, size_t pos, int key, int val, int pay, const It& it) -> long {
    LedgerPause lp;
    Entry e{key, val, pay, nextUid++, addrOf(it)};
    M[c].insert(M[c].begin() + (long)pos, e);
    ++insertsTotal; born_note(e.uid);
    if (chainLen(c, key) >= 3) ctx.label("chain>=3");
    return e.uid;
  };
  auto modelRemove = [&](int c, size_t pos) {
    const Entry& e = M[c][pos];
    int cl = chainLen(c, e.key);
    if (cl >= 3) {
      // newest entries are at the chain head; is something both before and after it in the chain?
      long b = bucket(c, e.key); bool older = false, newer = false;
      for (auto& x : M[c]) if (bucket(c, x.key) == b && x.uid != e.uid) { if (x.uid < e.uid) older = true; else newer = true; }
      if (older && newer) ctx.label("remove_mid_chain");
    }
    dropHeld(c, e.uid); M[c].erase(M[c].begin() + (long)pos); ++removesTotal;
  };

  auto checkAll = [&](const char* opname) {
    for (int c = 0; c < NC; ++c) {
      Cont& K = *C[c]; std::vector<Entry>& m = M[c];
      if (K.size() != m.size()) { char d[160]; snprintf(d, sizeof d, "after %s: container %d size %zu, model %zu", opname, c, (size_t)K.size(), m.size()); ctx.fail("mismatch:size", d); }
      if (K.isEmpty() != m.empty()) ctx.fail("mismatch:isEmpty", opname);
      size_t i = 0;
      for (It it = K.begin(), e = K.end(); it != e; ++it, ++i) {
        if (i >= m.size()) ctx.fail("mismatch:iteration-too-long", opname);
        if (keyOf(it) != m[i].key || valOf(it) != m[i].val || payOf(it) != m[i].pay) { char d[220]; snprintf(d, sizeof d, "after %s: container %d position %zu holds (key %d,val %d,pay %d), model (%d,%d,%d)", opname, c, i, keyOf(it), valOf(it), payOf(it), m[i].key, m[i].val, m[i].pay); ctx.fail("mismatch:contents", d); }
        if (addrOf(it) != m[i].addr) { char d[200]; snprintf(d, sizeof d, "after %s: element with key %d moved from %p to %p", opname, m[i].key, m[i].addr, addrOf(it)); ctx.fail("address:moved", d); }
      }
      if (i != m.size()) ctx.fail("mismatch:iteration-too-short", opname);
      if (!m.empty()) {
        i = m.size(); It it = K.end();
        do { --it; --i; if (keyOf(it) != m[i].key) ctx.fail("mismatch:reverse-iteration", opname); } while (it != K.begin() && i > 0);
        if (i != 0 || it != K.begin()) ctx.fail("mismatch:reverse-iteration-length", opname);
#if KIND == 1
        const Cont& CK = K;
        if (CK.front().id != m.front().key || CK.back().id != m.back().key) ctx.fail("mismatch:front-back", opname);
#else
        if (K.front().id != m.front().val || K.back().id != m.back().val) ctx.fail("mismatch:front-back", opname);
#endif
      }
      for (long k = -1; k <= U; ++k) {
        Elem key((int)k, 777);
        int pos = findKey(c, (int)k);
        It f = K.find(key);
        if (pos < 0) { if (f != K.end()) ctx.fail("mismatch:find-absent", opname); }
        else {
          if (f == K.end()) { char d[160]; snprintf(d, sizeof d, "after %s: container %d find(%ld) returned end but the key is present", opname, c, k); ctx.fail("mismatch:find-present", d); }
          if (addrOf(f) != m[(size_t)pos].addr) ctx.fail("mismatch:find-entry", opname);
        }
        if (K.contains(key) != (pos >= 0)) ctx.fail("mismatch:contains", opname);
      }
    }
    for (auto& h : held) {
      int ix = findUid(h.c, h.uid);
      if (ix < 0) continue;
      const Entry& e = M[h.c][(size_t)ix];
      if (addrOf(h.it) != e.addr || keyOf(h.it) != e.key || valOf(h.it) != e.val) { char d[200]; snprintf(d, sizeof d, "after %s: held iterator to key %d no longer designates it", opname, e.key); ctx.fail("address:iterator", d); }
    }
  };

  // generic insert through the real API.  where: 0 append, 1 prepend, 2 position pos (iterator 'posIt')
  auto doInsert = [&](int c, int where, size_t pos, const It& posIt, int key, int pay, const char* opname) {
    Cont& K = *C[c]; std::vector<Entry>& m = M[c];
    int val = nextVal++;
    int ex = findKey(c, key);
    It it;
#if KIND == 0
    if (where == 0) { Elem& r = K.append(Elem(key, pay), Elem(val)); it = K.find(Elem(key)); if (it == K.end() || &r != &*it) ctx.fail("mismatch:append-result", "append did not return the stored value"); }
    else if (where == 1) { Elem& r = K.prepend(Elem(key, pay), Elem(val)); it = K.find(Elem(key)); if (it == K.end() || &r != &*it) ctx.fail("mismatch:prepend-result", "prepend did not return the stored value"); }
    else it = K.insert(posIt, Elem(key, pay), Elem(val));
#elif KIND == 1
    val = key;
    if (where == 0) { K.append(Elem(key, pay)); it = K.find(Elem(key)); }
    else if (where == 1) { K.prepend(Elem(key, pay)); it = K.find(Elem(key)); }
    else it = K.insert(posIt, Elem(key, pay));
#else
    if (where == 0) { Pinned& r = K.append(Elem(key, pay)); it = K.find(Elem(key)); if (it == K.end() || &r != &*it) ctx.fail("mismatch:append-result", "append did not return the stored value"); }
    else it = K.insert(posIt, Elem(key, pay));
    if (ex < 0) { (*it).id = val; *(*it).blk = val; } else val = m[(size_t)ex].val;
#endif
    if (it == K.end() || keyOf(it) != key) ctx.fail("mismatch:insert-result", std::string(opname) + ": returned iterator does not designate the key");
    if (ex >= 0) {
      // existing key: position kept; HashMap updates the value, HashSet / PoolMap leave the entry untouched
      if (addrOf(it) != m[(size_t)ex].addr) ctx.fail("mismatch:insert-existing-moved", opname);
#if KIND == 0
      m[(size_t)ex].val = val;
#endif
      ctx.label("insert_existing");
      keep(c, m[(size_t)ex].uid, it);
    } else {
      size_t p = where == 0 ? m.size() : where == 1 ? 0 : pos;
      long uid = modelInsert(c, p, key, val, pay, it);
      keep(c, uid, it);
    }
  };

  long idx = 0;
  for (const Op& op : cs.ops) {
    ctx.opIndex = idx++;
    int c = (int)(((op.a[0] % NC) + NC) % NC);
    int o = (int)(((op.a[3] % NC) + NC) % NC);
    int key = (int)(((op.a[1] % (U + 1)) + (U + 1)) % (U + 1));
    long aux = op.a[2] < 0 ? -op.a[2] : op.a[2];
    int pay = (int)(idx * 3 + aux);
    Cont& K = *C[c]; std::vector<Entry>& m = M[c];
    const std::string& nm = op.name;

    if (nm == "append") doInsert(c, 0, 0, K.end(), key, pay, "append");
#if KIND != 2
    else if (nm == "prepend") doInsert(c, 1, 0, K.begin(), key, pay, "prepend");
#endif
    else if (nm == "inspos") {
      size_t pos = m.empty() ? 0 : (size_t)aux % (m.size() + 1);
      // prefer a held iterator when aux is odd
      It pit = iterAt(c, pos);
      if (aux & 1) for (auto& h : held) if (h.c == c) { int ix = findUid(c, h.uid); if (ix >= 0) { pit = h.it; pos = (size_t)ix; ctx.label("insert_at_held_iterator"); break; } }
      doInsert(c, 2, pos, pit, key, pay, "inspos");
    }
    else if (nm == "rm") {
      int pos = findKey(c, key);
      K.remove(Elem(key, 555));
      if (pos >= 0) modelRemove(c, (size_t)pos); else ctx.label("remove_absent");
    }
    else if (nm == "rmit") {
      if (m.empty()) ctx.count("skipped");
      else {
        size_t pos = (size_t)aux % m.size(); It victim = iterAt(c, pos);
        for (auto& h : held) if ((aux & 1) && h.c == c) { int ix = findUid(c, h.uid); if (ix >= 0) { victim = h.it; pos = (size_t)ix; break; } }
        It nx = K.remove(victim);
        modelRemove(c, pos);
        if (pos == m.size() ? nx != K.end() : (nx == K.end() || addrOf(nx) != m[pos].addr)) ctx.fail("mismatch:remove-result", "remove(it) did not return the successor");
      }
    }
#if KIND == 2
    else if (nm == "rmval") {
      if (m.empty()) ctx.count("skipped");
      else { size_t pos = (size_t)aux % m.size(); It v = iterAt(c, pos); Pinned& ref = *v; if (m.size() >= 2) ctx.label("self_arg_on_size>=2"); K.remove(ref); modelRemove(c, pos); ctx.label("remove_by_value_ref"); }
    }
#endif
    else if (nm == "rmfront" || nm == "rmback") {
      if (m.empty()) ctx.count("skipped");
      else {
        bool front = nm == "rmfront"; size_t pos = front ? 0 : m.size() - 1;
        It nx = front ? K.removeFront() : K.removeBack();
        modelRemove(c, pos);
        if (front ? (m.empty() ? nx != K.end() : (nx == K.end() || addrOf(nx) != m[0].addr)) : nx != K.end()) ctx.fail("mismatch:remove-result", "removeFront/removeBack result");
      }
    }
    else if (nm == "clear") { removesTotal += (long)m.size(); K.clear(); m.clear(); dropHeldCont(c); }
    else if (nm == "swap") {
      K.swap(*C[o]);
      if (c != o) {
        if (!m.empty() && !M[o].empty()) { ctx.label("swap_nonempty"); if (effcap(cap[c]) != effcap(cap[o])) ctx.label("swap_or_assign_across_capacities"); }
        if (m.empty() != M[o].empty()) ctx.label("swap_with_empty");
        std::swap(M[c], M[o]); std::swap(cap[c], cap[o]);
        for (auto& h : held) { if (h.c == c) h.c = o; else if (h.c == o) h.c = c; }
      } else ctx.label("swap_self");
    }
#if KIND != 2
    else if (nm == "copy" || nm == "assign") {
      if (c == o) { ctx.count("skipped"); }
      else {
        if (!M[o].empty()) ctx.label("destroy_with_live_elements");
        if (nm == "copy") { delete C[o]; C[o] = new Cont(K); cap[o] = -1; }
        else { *C[o] = K; if (!m.empty() && effcap(cap[c]) != effcap(cap[o])) ctx.label("swap_or_assign_across_capacities"); }
        dropHeldCont(o);
        LedgerPause lp;
        M[o].clear();
        It it = C[o]->begin();
        for (size_t j = 0; j < m.size(); ++j) {
          if (it == C[o]->end()) ctx.fail("mismatch:copy-short", "copy has fewer entries than its source");
          Entry e = m[j]; e.uid = nextUid++; e.addr = addrOf(it);
          for (auto& s : m) if (s.addr == e.addr) ctx.fail("copy:shared-storage", "copy shares an element with its source");
          M[o].push_back(e); ++it;
        }
        ctx.label("copy");
      }
    }
    else if (nm == "selfassign") {
      if (ctx.excluded("C04-self-assignment")) continue;
      Cont& self = K; K = self;
      if (m.size() >= 2) ctx.label("self_arg_on_size>=2");
      dropHeldCont(c);
      if (K.size() != m.size()) { char d[160]; snprintf(d, sizeof d, "self-assignment changed the size from %zu to %zu", m.size(), (size_t)K.size()); ctx.fail("mismatch:self-assignment", d); }
      It it = K.begin(); for (auto& e : m) { e.addr = addrOf(it); ++it; }
    }
    else if (nm == "eq") {
      bool e = (K == *C[o]), ne = (K != *C[o]);
      bool me = m.size() == M[o].size();
      for (size_t j = 0; me && j < m.size(); ++j) me = m[j].key == M[o][j].key && (KIND == 1 || m[j].val == M[o][j].val);
      if (e != me || ne == me) ctx.fail("mismatch:eq", "operator==/!= disagrees with the model");
      if (me && !m.empty() && c != o) ctx.label("eq_true_nonempty");
    }
#endif
#if KIND == 1
    else if (nm == "setappend") {
      bool self = c == o;
      if (self && m.size() >= 2) ctx.label("self_arg_on_size>=2");
      K.append(*C[o]);
      if (!self) for (auto e : M[o]) if (findKey(c, e.key) < 0) { It it = K.find(Elem(e.key)); if (it == K.end()) ctx.fail("mismatch:set-append", "append(set) lost a key"); modelInsert(c, m.size(), e.key, e.key, e.pay, it); }
      ctx.label("bulk");
    }
    else if (nm == "setremove") {
      bool self = c == o;
      if (self && ctx.excluded("C04-hashset-remove-self")) continue;
      if (self && m.size() >= 2) ctx.label("self_arg_on_size>=2");
      std::vector<int> keys; { LedgerPause lp; for (auto& e : M[o]) keys.push_back(e.key); }
      K.remove(*C[o]);
      for (int k2 : keys) { int pos = findKey(c, k2); if (pos >= 0) modelRemove(c, (size_t)pos); }
      { LedgerPause lp; keys.clear(); keys.shrink_to_fit(); }
      ctx.label("bulk");
    }
#endif
    else if (nm == "insref") {
      // arguments are references to elements of the container itself
      if (m.empty()) ctx.count("skipped");
      else {
        size_t a = (size_t)aux % m.size(), b = (size_t)(aux / 2) % m.size();
        It ia = iterAt(c, a), ib = iterAt(c, b);
        if (m.size() >= 2) ctx.label("self_arg_on_size>=2");
#if KIND == 0
        const Elem& kr = ia.key(); const Elem& vr = *ib;
        int v2 = m[b].val;
        Elem& r = K.append(kr, vr);
        if (&r != &*ia) ctx.fail("mismatch:insert-existing-moved", "append(key&, value&) of an existing key");
        m[a].val = v2;
#elif KIND == 1
        const Elem& kr = *ia; K.append(kr); (void)ib;
#else
        const Elem& kr = ia.key(); K.append(kr); (void)ib;
#endif
      }
    }
    else if (nm == "recreate") {
      if (!m.empty()) ctx.label("destroy_with_live_elements");
      removesTotal += (long)m.size();
      delete C[c]; C[c] = mk(cap[c]); m.clear(); dropHeldCont(c);
    }
    else ctx.count("unknown_op");

    checkAll(nm.c_str());
    if (pf == P_C05) noteSurvivors();
  }
  ctx.opIndex = -2;
  for (int i = 0; i < NC; ++i) { if (!M[i].empty()) ctx.label("destroy_with_live_elements"); delete C[i]; }
  { LedgerPause lp; held.clear(); born.clear(); }
  if (!elem::reg().live.empty()) { char d[128]; snprintf(d, sizeof d, "%zu element instances are still alive after all containers were destroyed", elem::reg().live.size()); ctx.fail("lifetime:leaked-elements", d); }
  if (elem::stats().ctor != elem::stats().dtor) ctx.fail("lifetime:ctor-dtor-count", "constructions != destructions");
}
