// C08: Buffer is a faithful byte queue with a terminator and no stray writes.
// Three Buffers, a guarded pool for attach(), a byte-vector model with an ownership lower bound.
#define PBT_MAIN
#include "pbt.hpp"
#include <nstd/Buffer.hpp>

const char* pbt_property = "C08";
const char* pbt_part = "buffer";
void pbt_warmup() {}

using namespace pbt;

namespace {
const int NB = 3;          // buffers
const int NR = 4;          // attach regions (always one free)
const int RLEN = 20;       // bytes per region
const int GUARD = 16;
const int POOL = GUARD + NR * RLEN + GUARD;

struct Model {
  std::string bytes;
  bool owning = false;   // lower bound: true only when the buffer certainly owns storage
  int region = -1;       // attached region or -1
  int off = 0, len = 0;  // window inside the region
};

std::string rbytes(Rng& r, int maxlen) {
  int n = (int)r.below((uint64_t)maxlen + 1);
  std::string s;
  for (int i = 0; i < n; ++i) s += (char)(r.chance(15) ? r.below(256) : 'a' + r.below(26));
  return s;
}
}  // namespace

void pbt_generate(Rng& r, int size, Case& c) {
  int nops = 1 + (int)r.below((uint64_t)size + 1);
  int maxlen = 1 + (int)r.below(40);
  static const char* names[] = {"ctor", "ctorcap", "ctordata", "ctorcopy", "assign", "set", "append", "appendb", "prepend", "prependb",
                                "resize", "reserve", "rmfront", "rmback", "clear", "free", "swap", "attach", "eq"};
  static const int weights[] = {2, 3, 3, 3, 5, 5, 12, 6, 12, 5, 10, 5, 10, 8, 3, 3, 5, 6, 3};
  for (int k = 0; k < nops; ++k) {
    int o = r.weighted(weights, sizeof weights / sizeof *weights);
    std::string nm = names[o];
    bool usesData = nm == "ctordata" || nm == "assign" || nm == "append" || nm == "prepend";
    long n = (long)r.below((uint64_t)maxlen + 6);
    if ((nm == "rmfront" || nm == "rmback") && r.chance(70)) n = (long)r.below(6);   // small removals leave head-room / keep data
    if (nm == "prepend" && r.chance(50)) maxlen = maxlen;                            // (payload length below decides the branch)
    std::string d = usesData ? rbytes(r, nm == "prepend" && r.chance(60) ? 4 : maxlen) : std::string();
    c.add(names[o], (long)r.below(NB), (long)r.below(NB), n, (long)r.below(RLEN + 1), d);
  }
}

bool pbt_nontrivial(const Ctx& ctx) {
  int br = ctx.has("prepend_headroom") + ctx.has("prepend_shift") + ctx.has("prepend_realloc") + ctx.has("resize_inplace") + ctx.has("resize_compact") + ctx.has("resize_realloc");
  return br >= 3 && ctx.has("attach_then_owning");
}

void pbt_run(const Case& c, Ctx& ctx) {
  // guarded pool on the heap (ASan polices the ends; guard bytes police the rest)
  unsigned char* pool = (unsigned char*)malloc(POOL);
  unsigned char shadow[POOL];
  for (int i = 0; i < POOL; ++i) pool[i] = shadow[i] = (unsigned char)(0xA0 + i % 61);
  Buffer* b[NB];
  Model m[NB];
  for (int i = 0; i < NB; ++i) b[i] = new Buffer;

  auto region_free = [&](int skipBuf) {
    for (int rg = 0; rg < NR; ++rg) { bool used = false; for (int i = 0; i < NB; ++i) if (i != skipBuf && m[i].region == rg) used = true; if (!used) return rg; }
    return -1;
  };
  auto check_all = [&](const char* opname) {
    // pool: every byte outside the windows currently attached must be unchanged; bytes inside a window follow the actual content
    bool inwin[POOL]; memset(inwin, 0, sizeof inwin);
    for (int i = 0; i < NB; ++i) if (m[i].region >= 0) for (int k = 0; k < m[i].len; ++k) inwin[GUARD + m[i].region * RLEN + m[i].off + k] = true;
    for (int k = 0; k < POOL; ++k) {
      if (inwin[k]) { shadow[k] = pool[k]; continue; }
      if (pool[k] != shadow[k]) { char d[160]; snprintf(d, sizeof d, "after %s: pool byte %d outside every attached window changed %02x -> %02x", opname, k - GUARD, shadow[k], pool[k]); ctx.fail("stray-write", d); }
    }
    for (int i = 0; i < NB; ++i) {
      const Buffer& cb = *b[i];
      size_t n = cb.size();
      if (n != m[i].bytes.size()) { char d[160]; snprintf(d, sizeof d, "after %s: b%d size %zu, model %zu", opname, i, n, m[i].bytes.size()); ctx.fail("mismatch:size", d); }
      if (cb.isEmpty() != m[i].bytes.empty()) ctx.fail("mismatch:isEmpty", opname);
      const byte* v = cb;
      if (n && memcmp(v, m[i].bytes.data(), n) != 0) {
        size_t k = 0; while (v[k] == (byte)m[i].bytes[k]) ++k;
        char d[160]; snprintf(d, sizeof d, "after %s: b%d byte %zu is %02x, model %02x (size %zu)", opname, i, k, v[k], (unsigned char)m[i].bytes[k], n); ctx.fail("mismatch:bytes", d);
      }
      if (m[i].owning) {
        if (v[n] != 0) { char d[160]; snprintf(d, sizeof d, "after %s: owning b%d has byte %02x after its %zu data bytes", opname, i, v[n], n); ctx.fail("terminator-missing", d); }
        if (cb.capacity() < n) ctx.fail("mismatch:capacity<size", opname);
      }
    }
  };
  auto became_owning = [&](int i) { if (m[i].region >= 0) ctx.label("attach_then_owning"); m[i].owning = true; m[i].region = -1; };

  long idx = 0;
  for (const Op& op : c.ops) {
    ctx.opIndex = idx++;
    int i = (int)(((op.a[0] % NB) + NB) % NB), j = (int)(((op.a[1] % NB) + NB) % NB);
    size_t n = (size_t)(op.a[2] < 0 ? 0 : op.a[2] > 200 ? 200 : op.a[2]);
    const std::string& d = op.data;
    const byte* dp = (const byte*)d.data();
    // exact-size heap copy of the data argument so over-reads are visible
    byte* exact = (byte*)malloc(d.size() ? d.size() : 1); memcpy(exact, d.data(), d.size());
    dp = exact;
    Buffer& B = *b[i]; Model& M = m[i];
    const std::string& nm = op.name;
    size_t capBefore = B.capacity();
    const byte* viewBefore = (const byte*)(const Buffer&)B;
    bool attachedState = (M.region >= 0);
    if (attachedState && (nm == "assign" || nm == "set" || nm == "append" || nm == "appendb" || nm == "resize" || nm == "reserve") && ctx.excluded("C08-attach-stale-capacity")) { free(exact); continue; }

    if (nm == "ctor") { delete b[i]; b[i] = new Buffer; M = Model(); }
    else if (nm == "ctorcap") { delete b[i]; b[i] = new Buffer(n); M = Model(); M.owning = true; }
    else if (nm == "ctordata") { delete b[i]; b[i] = new Buffer(dp, d.size()); M = Model(); M.bytes = d; M.owning = true; }
    else if (nm == "ctorcopy") {
      if (i == j) { ctx.count("skipped"); }
      else { delete b[i]; b[i] = new Buffer(*b[j]); M = Model(); M.bytes = m[j].bytes; M.owning = true; }
    }
    else if (nm == "assign") { B.assign(dp, d.size()); M.bytes = d; if (d.size() > capBefore) became_owning(i); }
    else if (nm == "set") {
      if (i == j) ctx.count("skipped");
      else { B = *b[j]; M.bytes = m[j].bytes; if (m[j].bytes.size() > capBefore) became_owning(i); }
    }
    else if (nm == "append") { B.append(dp, d.size()); M.bytes += d; if (M.bytes.size() > capBefore) became_owning(i); }
    else if (nm == "appendb" && M.bytes.size() + m[j].bytes.size() > 60000) { ctx.count("skipped_big"); }   // repeated appending of buffers doubles the sizes
    else if (nm == "appendb") { std::string add = m[j].bytes; B.append(*b[j]); M.bytes += add; if (M.bytes.size() > capBefore) became_owning(i); if (i == j) ctx.label("append_self"); }
    else if (nm == "prepend" || nm == "prependb") {
      std::string add = d;
      size_t oldSize = M.bytes.size();
      if (nm == "prependb" && M.bytes.size() + m[j].bytes.size() > 60000) { ctx.count("skipped_big"); free(exact); continue; }
      if (nm == "prependb") { if (i == j) { ctx.count("skipped"); free(exact); continue; } add = m[j].bytes; B.prepend(*b[j]); }
      else B.prepend(dp, d.size());
      M.bytes = add + M.bytes;
      if (M.bytes.size() > capBefore) became_owning(i);
      const byte* viewAfter = (const byte*)(const Buffer&)B;
      if (B.capacity() != capBefore) ctx.label("prepend_realloc");
      else if (M.owning && add.size() && viewAfter + add.size() == viewBefore) ctx.label("prepend_headroom");
      else if (M.owning && add.size() && oldSize) ctx.label("prepend_shift");
    }
    else if (nm == "resize") {
      size_t old = M.bytes.size();
      B.resize(n);
      M.bytes.resize(n, 0);
      if (n > capBefore) became_owning(i);
      if (n > old) {  // newly exposed bytes are unspecified: define them now
        byte* w = B;
        for (size_t k = old; k < n; ++k) { w[k] = (byte)(0x30 + k % 10); M.bytes[k] = (char)w[k]; }
      }
      const byte* viewAfter = (const byte*)(const Buffer&)B;
      if (B.capacity() != capBefore) ctx.label("resize_realloc");
      else if (M.owning && viewAfter != viewBefore && old) ctx.label("resize_compact");
      else if (M.owning) ctx.label("resize_inplace");
    }
    else if (nm == "reserve") { B.reserve(n); if (n > capBefore) became_owning(i); if (B.capacity() < n) ctx.fail("mismatch:reserve", "capacity() smaller than reserved"); }
    else if (nm == "rmfront") { B.removeFront(n); M.bytes.erase(0, std::min(n, M.bytes.size())); if (n && n < M.bytes.size() + n) ctx.label("removeFront"); }
    else if (nm == "rmback") { B.removeBack(n); M.bytes.resize(M.bytes.size() - std::min(n, M.bytes.size())); }
    else if (nm == "clear") { B.clear(); M.bytes.clear(); }
    else if (nm == "free") { B.free(); M = Model(); }
    else if (nm == "swap") { B.swap(*b[j]); if (i != j) std::swap(m[i], m[j]); else ctx.label("swap_self"); }
    else if (nm == "attach") {
      int rg = region_free(i);
      int off = (int)(((op.a[3] % RLEN) + RLEN) % RLEN);
      int len = (int)(n % (size_t)(RLEN - off + 1));
      // commit the old window to the shadow before it stops being a window
      if (M.region >= 0) for (int k = 0; k < M.len; ++k) shadow[GUARD + M.region * RLEN + M.off + k] = pool[GUARD + M.region * RLEN + M.off + k];
      unsigned char* p = pool + GUARD + rg * RLEN + off;
      B.attach(p, (usize)len);
      M = Model(); M.region = rg; M.off = off; M.len = len; M.bytes.assign((const char*)p, (size_t)len);
      ctx.label("attach");
    }
    else if (nm == "eq") {
      bool e = (*b[i] == *b[j]), ne = (*b[i] != *b[j]);
      bool me = m[i].bytes == m[j].bytes;
      if (e != me || ne == me) ctx.fail("mismatch:eq", "operator==/!= disagrees with the model");
    }
    else ctx.count("unknown_op");
    free(exact);
    check_all(nm.c_str());
  }
  ctx.opIndex = -2;
  for (int i = 0; i < NB; ++i) delete b[i];
  for (int i = 0; i < NB; ++i) m[i].region = -1;
  // after destruction the pool must still be intact outside former windows (already folded into shadow)
  free(pool);
}
