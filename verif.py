#!/usr/bin/env python3
"""Driver of the property-based-testing / fuzzing machinery for craflin/libnstd.

  python3 verif.py setup
  python3 verif.py check <id> [--tier quick|thorough]
  python3 verif.py replay <path>
  python3 verif.py list

Only the Python standard library is used.  Everything is rebuilt from /repo's current
working tree (content-hash build cache under /verif/build).
"""
import threading, sys, os, json, hashlib, subprocess, shutil, time, fcntl, glob, re, struct, tempfile
from concurrent.futures import ThreadPoolExecutor

VERIF = os.path.dirname(os.path.abspath(__file__))
REPO = os.environ.get("VERIF_REPO", "/repo")
BUILD = os.path.join(VERIF, "build")
ALT = os.path.realpath(REPO) != "/repo"   # running against a scratch copy (mutant self-test): keep evidence and failures apart
OUTDIR = os.path.join(BUILD, "alt-" + hashlib.sha1(REPO.encode()).hexdigest()[:8]) if ALT else VERIF
NCPU = os.cpu_count() or 4

sys.path.insert(0, VERIF)

CXX = "clang++"
COMMON = ["-std=gnu++17", "-g", "-O1", "-DDEBUG", "-fno-omit-frame-pointer", "-Wno-everything"]
UBSAN = "-fsanitize=bounds,null,return,unreachable,vla-bound,integer-divide-by-zero,builtin"
FLAVOURS = {
    "asan": ["-fsanitize=address", UBSAN, "-fno-sanitize-recover=all"],
    "fuzz": ["-fsanitize=address", UBSAN, "-fno-sanitize-recover=all", "-fsanitize=fuzzer-no-link"],
    "sched": ["-fsanitize=thread", "-mllvm", "-tsan-distinguish-volatile=1"],
    "plain": [],
}
# "<flavour>rel": the same instrumentation in the library's release configuration (NDEBUG instead of DEBUG: ASSERT compiles to
# nothing, VERIFY keeps only its side effects), with nstd/Debug.hpp seen before every other header of a harness TU.
for _f in ("asan", "sched"):
    FLAVOURS[_f + "rel"] = FLAVOURS[_f]
def common_flags(flavour, harness_tu=False):
    if not flavour.endswith("rel"):
        return list(COMMON)
    return [f for f in COMMON if f != "-DDEBUG"] + ["-DNDEBUG"] + (["-include", "nstd/Debug.hpp"] if harness_tu else [])
LINK = {
    "asan": ["-fsanitize=address", UBSAN],
    "fuzz": ["-fsanitize=address", UBSAN, "-fsanitize=fuzzer"],
    "sched": [],
    "plain": [],
}
LINK["asanrel"] = LINK["asan"]
LINK["schedrel"] = LINK["sched"]


def log(*a):
    print(*a, file=sys.stderr, flush=True)


def sha(*parts):
    h = hashlib.sha1()
    for p in parts:
        if isinstance(p, str):
            p = p.encode()
        h.update(p)
        h.update(b"\0")
    return h.hexdigest()[:16]


def file_hash(paths):
    h = hashlib.sha1()
    for p in sorted(paths):
        h.update(p.encode())
        try:
            with open(p, "rb") as f:
                h.update(f.read())
        except OSError:
            h.update(b"<missing>")
    return h.hexdigest()[:16]


def repo_files():
    out = []
    for top in ("include", "src"):
        for d, _, fs in os.walk(os.path.join(REPO, top)):
            for f in fs:
                if f.endswith((".hpp", ".cpp", ".h", ".c")):
                    out.append(os.path.join(d, f))
    return sorted(out)


_tree_hash = None


def tree_hash():
    global _tree_hash
    if _tree_hash is None:
        _tree_hash = file_hash(repo_files())
    return _tree_hash


class Lock:
    def __init__(self, name):
        os.makedirs(BUILD, exist_ok=True)
        self.path = os.path.join(BUILD, name + ".lock")

    def __enter__(self):
        self.f = open(self.path, "w")
        fcntl.flock(self.f, fcntl.LOCK_EX)

    def __exit__(self, *a):
        fcntl.flock(self.f, fcntl.LOCK_UN)
        self.f.close()


def run_cmd(cmd, **kw):
    return subprocess.run(cmd, stdout=subprocess.PIPE, stderr=subprocess.STDOUT, text=True, **kw)


class BuildError(Exception):
    pass


def shim_dir():
    """nstd/Base.hpp without its re-declaration of the global allocation functions (so STL headers can coexist).
    Everything else in Base.hpp is taken verbatim from the current tree."""
    src = os.path.join(REPO, "include", "nstd", "Base.hpp")
    with open(src) as f:
        lines = f.read().split("\n")
    key = sha("shim", "\n".join(lines))
    d = os.path.join(BUILD, "shim-" + key)
    dst = os.path.join(d, "nstd", "Base.hpp")
    if not os.path.exists(dst):
        with Lock("shim-" + key):   # several parts of a property are built by concurrent threads (and processes)
            if not os.path.exists(dst):
                os.makedirs(os.path.dirname(dst), exist_ok=True)
                out = ["#pragma once", "#include <new>"]
                for l in lines:
                    if re.search(r"operator\s+(new|delete)", l):
                        continue
                    out.append(l)
                tmp = "%s.tmp%d-%d" % (dst, os.getpid(), threading.get_ident())
                with open(tmp, "w") as f:
                    f.write("\n".join(out))
                os.replace(tmp, dst)
    return d


def lib_sources():
    out = []
    for d in ("src", "src/Crypto", "src/Document", "src/Socket"):
        out += sorted(glob.glob(os.path.join(REPO, d, "*.cpp")))
    return out


def build_lib(flavour, extra_flags=()):
    """Compile all libnstd sources of the current tree with the flavour's instrumentation -> static archive."""
    flags = common_flags(flavour) + FLAVOURS[flavour] + list(extra_flags)
    key = sha("lib", flavour, tree_hash(), " ".join(flags))
    d = os.path.join(BUILD, "lib-%s-%s" % (flavour, key))
    lib = os.path.join(d, "libnstd.a")
    if os.path.exists(lib):
        os.utime(d)
        return lib
    with Lock("lib-%s-%s" % (flavour, key)):
        if os.path.exists(lib):
            return lib
        os.makedirs(d, exist_ok=True)
        t0 = time.time()
        srcs = lib_sources()
        objs = []
        jobs = []
        for s in srcs:
            o = os.path.join(d, os.path.relpath(s, REPO).replace("/", "_") + ".o")
            objs.append(o)
            jobs.append([CXX] + flags + ["-I", os.path.join(REPO, "include"), "-c", s, "-o", o])
        with ThreadPoolExecutor(NCPU) as ex:
            res = list(ex.map(run_cmd, jobs))
        for r, j in zip(res, jobs):
            if r.returncode != 0:
                raise BuildError("compile failed: %s\n%s" % (" ".join(j), r.stdout))
        r = run_cmd(["ar", "rcs", lib + ".tmp"] + objs)
        if r.returncode != 0:
            raise BuildError(r.stdout)
        os.rename(lib + ".tmp", lib)
        for o in objs:
            os.unlink(o)
        log("[build] lib %s in %.1fs" % (flavour, time.time() - t0))
    prune("lib-%s-" % flavour, 2)
    return lib


def prune(prefix, keep):
    try:
        ents = [os.path.join(BUILD, e) for e in os.listdir(BUILD) if e.startswith(prefix) and not e.endswith(".lock")]
        ents.sort(key=lambda p: os.path.getmtime(p), reverse=True)
        for p in ents[keep:]:
            if time.time() - os.path.getmtime(p) < 600:
                continue
            if os.path.isdir(p):
                shutil.rmtree(p, ignore_errors=True)
            else:
                try:
                    os.unlink(p)
                except OSError:
                    pass
            try:
                os.unlink(p + ".lock")
            except OSError:
                pass
    except OSError:
        pass


def build_bin(name, sources, flavour, extra_cflags=(), extra_ldflags=(), link_lib=True, deps=(), optional=False, plain_sources=()):
    """Build a harness binary against the current tree. Returns path."""
    srcs = [s if os.path.isabs(s) else os.path.join(VERIF, s) for s in sources]
    psrcs = [s_ if os.path.isabs(s_) else os.path.join(VERIF, s_) for s_ in plain_sources]
    dep_files = srcs + psrcs + glob.glob(os.path.join(VERIF, "vsched", "*")) + glob.glob(os.path.join(VERIF, "engine", "*")) + glob.glob(os.path.join(VERIF, "harness", "*.hpp")) + [
        d if os.path.isabs(d) else os.path.join(VERIF, d) for d in deps]
    flags = common_flags(flavour, True) + FLAVOURS[flavour] + list(extra_cflags)
    key = sha("bin", name, flavour, tree_hash(), file_hash(dep_files), " ".join(flags), " ".join(extra_ldflags))
    out = os.path.join(BUILD, "bin-%s-%s" % (name, key))
    if os.path.exists(out):
        os.utime(out)
        return out
    lib = build_lib(flavour if flavour != "plain" else "plain") if link_lib else None
    with Lock("bin-%s-%s" % (name, key)):
        if os.path.exists(out):
            return out
        t0 = time.time()
        inc = ["-I", shim_dir(), "-I", os.path.join(REPO, "include"), "-I", os.path.join(VERIF, "engine"), "-I", os.path.join(VERIF, "harness"), "-I", os.path.join(VERIF, "vsched"), "-I", REPO]
        objs = []
        jobs = []
        tmpd = tempfile.mkdtemp(prefix="obj-", dir=BUILD)
        try:
            for s in srcs:
                o = os.path.join(tmpd, os.path.basename(s) + ".o")
                objs.append(o)
                jobs.append([CXX] + flags + inc + ["-c", s, "-o", o])
            for s_ in psrcs:   # runtime pieces that must not be instrumented (vsched/rt.cpp)
                o = os.path.join(tmpd, os.path.basename(s_) + ".plain.o")
                objs.append(o)
                jobs.append([CXX] + COMMON + inc + ["-c", s_, "-o", o])
            with ThreadPoolExecutor(NCPU) as ex:
                res = list(ex.map(run_cmd, jobs))
            for r, j in zip(res, jobs):
                if r.returncode != 0:
                    raise BuildError("compile failed: %s\n%s" % (" ".join(j), r.stdout))
            cmd = [CXX] + LINK[flavour] + objs + ([lib] if lib else []) + ["-lpthread", "-lrt", "-ldl"] + list(extra_ldflags) + ["-o", out + ".tmp%d" % os.getpid()]
            r = run_cmd(cmd)
            if r.returncode != 0:
                raise BuildError("link failed: %s\n%s" % (" ".join(cmd), r.stdout))
            os.rename(out + ".tmp%d" % os.getpid(), out)
        finally:
            shutil.rmtree(tmpd, ignore_errors=True)
        log("[build] %s (%s) in %.1fs" % (name, flavour, time.time() - t0))
    prune("bin-%s-" % name, 2)
    return out


# ---------------------------------------------------------------------------------------------- known findings

def load_findings():
    p = os.path.join(VERIF, "known_findings.json")
    if not os.path.exists(p):
        return {"open": [], "fixed": []}
    with open(p) as f:
        return json.load(f)


def open_findings(prop):
    return [f for f in load_findings().get("open", []) if f["property"] == prop]


# ---------------------------------------------------------------------------------------------- opfuzz part

ASAN_ENV = {"ASAN_OPTIONS": "alloc_dealloc_mismatch=0:detect_leaks=0:abort_on_error=0:allocator_may_return_null=1:handle_abort=0:handle_sigill=0:detect_stack_use_after_return=0:symbolize=1",
            "UBSAN_OPTIONS": "print_stacktrace=1:halt_on_error=1"}


def env_with(extra=None):
    e = dict(os.environ)
    e.update(ASAN_ENV)
    if extra:
        e.update(extra)
    return e


def scratch_dir(tag):
    d = os.path.join(BUILD, "run", "%s-%d-%d" % (tag, os.getpid(), int(time.time() * 1000) % 100000000))
    os.makedirs(d, exist_ok=True)
    return d


def case_kind(path):
    kind = ""
    try:
        with open(path, errors="replace") as f:
            for l in f:
                if l.startswith("#kind "):
                    kind = l[6:].strip()
                    break
                if not l.startswith("#"):
                    break
    except OSError:
        pass
    return kind


def kind_class(kind):
    if kind.startswith("crash") or kind.startswith("asan"):
        return "crash"
    return kind


def replay_case(binary, text, workdir, timeout=90, extra_args=()):
    """Run one case through --replay.  Returns (failed, kind, output)."""
    p = os.path.join(workdir, "cand.case")
    with open(p, "w") as f:
        f.write(text)
    fp = os.path.join(workdir, "fail.case")
    if os.path.exists(fp):
        os.unlink(fp)
    try:
        r = subprocess.run([binary, "--replay", p, "--out", workdir] + list(extra_args), stdout=subprocess.PIPE, stderr=subprocess.STDOUT, text=True,
                           errors="replace", timeout=timeout, env=env_with(), cwd=workdir)
        rc, out = r.returncode, r.stdout
    except subprocess.TimeoutExpired as e:
        return True, "timeout", "timeout"
    if rc == 0:
        return False, "", out
    kind = case_kind(fp) if os.path.exists(fp) else "crash:exit%d" % rc
    return True, kind, out


def split_case(text):
    hdr, ops = [], []
    for l in text.split("\n"):
        if not l.strip():
            continue
        if l.startswith("#param"):
            hdr.append(l)
        elif l.startswith("#"):
            continue
        else:
            ops.append(l)
    return hdr, ops


def shrink_case(binary, text, kind, workdir, budget=400, extra_args=(), time_budget=150):
    """ddmin over op lines, then argument minimisation.  A candidate counts only if it fails with the same kind class."""
    hdr, ops = split_case(text)
    want = kind_class(kind)
    calls = [0]
    t_end = time.time() + time_budget

    def fails(ops_):
        if calls[0] >= budget or time.time() > t_end:
            return False
        calls[0] += 1
        failed, k, _ = replay_case(binary, "\n".join(hdr + ops_) + "\n", workdir, extra_args=extra_args)
        return failed and kind_class(k) == want

    n = 2
    while len(ops) >= 2 and calls[0] < budget:
        chunk = max(1, len(ops) // n)
        reduced = False
        for i in range(0, len(ops), chunk):
            cand = ops[:i] + ops[i + chunk:]
            if cand and fails(cand):
                ops = cand
                n = max(n - 1, 2)
                reduced = True
                break
        if not reduced:
            if chunk == 1:
                break
            n = min(n * 2, len(ops))
    # argument minimisation
    for idx in range(len(ops)):
        parts = ops[idx].split(" ")
        if len(parts) < 6:
            continue
        for a in range(1, 5):
            try:
                v = int(parts[a])
            except ValueError:
                continue
            for cand_v in (0, 1, v // 2):
                if cand_v == v or calls[0] >= budget:
                    continue
                p2 = list(parts)
                p2[a] = str(cand_v)
                cand = ops[:idx] + [" ".join(p2)] + ops[idx + 1:]
                if fails(cand):
                    ops = cand
                    parts = p2
                    break
        # payload shortening
        hx = parts[5][1:] if parts[5].startswith("x") else ""
        while len(hx) >= 2 and calls[0] < budget:
            h2 = hx[: (len(hx) // 4) * 2]
            p2 = list(parts)
            p2[5] = "x" + h2
            cand = ops[:idx] + [" ".join(p2)] + ops[idx + 1:]
            if fails(cand):
                ops = cand
                parts = p2
                hx = h2
            else:
                break
    return "\n".join(hdr + ops) + "\n", calls[0]


def run_opfuzz(prop, part, binary, cfg, seed, tier, excludes, extra_args=()):
    """Run the generation tier of an opfuzz harness on W workers.  Returns dict with counters and failures."""
    W = cfg.get("workers", 8 if tier == "quick" else 16)
    W = min(W, NCPU)
    cases = cfg["cases"]
    maxsize = cfg.get("maxsize", 40)
    timecap = cfg.get("time", 600)
    base = scratch_dir("%s-%s" % (prop, part))
    procs = []
    for w in range(W):
        d = os.path.join(base, "w%d" % w)
        os.makedirs(d)
        cmd = [binary, "--seed", str(seed), "--w", str(w), "--W", str(W), "--cases", str(cases), "--maxsize", str(maxsize), "--out", d, "--time", str(timecap)]
        if excludes:
            cmd += ["--exclude", ",".join(excludes)]
        cmd += list(extra_args)
        lf = open(os.path.join(d, "log.txt"), "w")
        procs.append((w, d, subprocess.Popen(cmd, stdout=lf, stderr=subprocess.STDOUT, env=env_with(), cwd=d), lf))
    res = {"cases": 0, "ops": 0, "nontrivial": 0, "labels": {}, "counters": {}, "samples": [], "hashes": set(), "failures": [], "capped": False, "workdir": base, "workers": W}
    for w, d, p, lf in procs:
        rc = p.wait()
        lf.close()
        cp = os.path.join(d, "counters.json")
        fp = os.path.join(d, "fail.case")
        if rc != 0 or not os.path.exists(cp):
            if os.path.exists(fp):
                with open(fp, errors="replace") as f:
                    txt = f.read()
                with open(os.path.join(d, "log.txt"), errors="replace") as f:
                    lg = f.read()
                res["failures"].append({"text": txt, "kind": case_kind(fp), "log": lg[-6000:], "worker": w, "rc": rc})
            else:
                with open(os.path.join(d, "log.txt"), errors="replace") as f:
                    lg = f.read()
                res["failures"].append({"text": None, "kind": "worker-died:%d" % rc, "log": lg[-6000:], "worker": w, "rc": rc})
            continue
        with open(cp) as f:
            c = json.load(f)
        res["cases"] += c["cases"]
        res["ops"] += c["ops"]
        res["nontrivial"] += c["nontrivial"]
        res["capped"] = res["capped"] or c["capped"]
        for k, v in c["labels"].items():
            res["labels"][k] = res["labels"].get(k, 0) + v
        for k, v in c["counters"].items():
            res["counters"][k] = res["counters"].get(k, 0) + v
        if len(res["samples"]) < 5:
            res["samples"] += c["samples"][: 5 - len(res["samples"])]
        hp = os.path.join(d, "nthash.bin")
        if os.path.exists(hp):
            with open(hp, "rb") as f:
                data = f.read()
            res["hashes"].update(struct.unpack("<%dQ" % (len(data) // 8), data))
    return res


# ---------------------------------------------------------------------------------------------- libFuzzer part

def lf_run_file(binary, path, timeout=70, extra_env=None):
    """Run the fuzz target on one saved input. Returns (failed, kind, output)."""
    try:
        r = subprocess.run([binary, "-timeout=60", "-rss_limit_mb=4096", path], stdout=subprocess.PIPE, stderr=subprocess.STDOUT, text=True, errors="replace",
                           timeout=timeout, env=env_with(extra_env), cwd=os.path.dirname(path) or ".")
    except subprocess.TimeoutExpired:
        return True, "hang", "timeout after %ds" % timeout
    if r.returncode == 0:
        return False, "", r.stdout
    out = r.stdout
    kind = "crash"
    m = re.search(r"ORACLE: ([^\n]*)", out)
    if m:
        kind = "oracle:" + m.group(1)[:100]
    else:
        m = re.search(r"(ERROR: AddressSanitizer: [a-zA-Z-]+|runtime error: [^\n]{0,80}|ERROR: libFuzzer: [a-z- ]+)", out)
        if m:
            kind = "crash:" + m.group(1)
    return True, kind, out


def run_libfuzzer(prop, part, binary, cfg, seed, tier):
    W = min(cfg.get("workers", 8 if tier == "quick" else 16), NCPU)
    runs = cfg["runs"]
    max_len = part.get("max_len", 512)
    base = scratch_dir("%s-%s" % (prop, part["name"]))
    seeds = sorted(glob.glob(os.path.join(VERIF, "corpus", prop, part["name"], "*")))
    procs = []
    for w in range(W):
        d = os.path.join(base, "w%d" % w)
        cd = os.path.join(d, "corpus")
        os.makedirs(cd)
        # odd workers start from the seed corpus, even workers (in the thorough tier) from an empty one
        if not (tier == "thorough" and w % 4 == 0):
            for sp in seeds:
                shutil.copy(sp, cd)
        art = os.path.join(d, "art") + "/"
        os.makedirs(art)
        cmd = [binary, cd, "-seed=%d" % (seed * 1000 + w + 1), "-runs=%d" % runs, "-max_len=%d" % max_len, "-timeout=10", "-rss_limit_mb=3000", "-use_value_profile=1",
               "-artifact_prefix=" + art, "-print_final_stats=1", "-max_total_time=%d" % cfg.get("time", 600)] + list(part.get("lf_args", ()))
        lf = open(os.path.join(d, "log.txt"), "w")
        env = env_with({"PBT_STATS": os.path.join(d, "stats.json")})
        procs.append((w, d, subprocess.Popen(cmd, stdout=lf, stderr=subprocess.STDOUT, env=env, cwd=d), lf))
    res = {"execs": 0, "nontrivial": 0, "hashes": set(), "labels": {}, "samples": [], "artifacts": [], "cov": 0, "corpus": 0, "workdir": base, "workers": W, "logs": []}
    for w, d, p, lf in procs:
        rc = p.wait()
        lf.close()
        with open(os.path.join(d, "log.txt"), errors="replace") as f:
            lg = f.read()
        m = re.search(r"stat::number_of_executed_units:\s*(\d+)", lg)
        if m:
            res["execs"] += int(m.group(1))
        covs = re.findall(r"cov: (\d+)", lg)
        if covs:
            res["cov"] = max(res["cov"], int(covs[-1]))
        res["corpus"] += len(os.listdir(os.path.join(d, "corpus")))
        sp = os.path.join(d, "stats.json")
        if os.path.exists(sp):
            try:
                with open(sp) as f:
                    st = json.load(f)
                if not m:
                    res["execs"] += st.get("execs", 0)
                for k, v in st.get("labels", {}).items():
                    res["labels"][k] = res["labels"].get(k, 0) + v
                res["hashes"].update(st.get("hashes", []))
                if len(res["samples"]) < 4:
                    res["samples"] += st.get("samples", [])[:2]
            except ValueError:
                pass
        for a in sorted(os.listdir(os.path.join(d, "art"))):
            res["artifacts"].append((os.path.join(d, "art", a), lg[-5000:]))
        if rc != 0 and not os.listdir(os.path.join(d, "art")):
            res["logs"].append("worker %d exited with %d and no artifact:\n%s" % (w, rc, lg[-3000:]))
    return res


def minimize_artifact(binary, path, workdir):
    out = os.path.join(workdir, "min-" + os.path.basename(path))
    try:
        subprocess.run([binary, "-minimize_crash=1", "-runs=20000", "-max_total_time=60", "-exact_artifact_path=" + out, path], stdout=subprocess.PIPE, stderr=subprocess.STDOUT,
                       timeout=120, env=env_with(), cwd=workdir)
    except subprocess.TimeoutExpired:
        pass
    if os.path.exists(out) and os.path.getsize(out) <= os.path.getsize(path):
        return out
    return path


# ---------------------------------------------------------------------------------------------- check driver

WRAPS = ["nanosleep", "clock_nanosleep", "pthread_cond_clockwait", "sem_clockwait", "pthread_mutexattr_init", "pthread_mutexattr_settype", "pthread_create", "pthread_join", "sched_yield", "usleep", "clock_gettime", "pthread_mutex_init", "pthread_mutex_destroy", "pthread_mutex_lock", "pthread_mutex_trylock",
         "pthread_mutex_unlock", "pthread_cond_init", "pthread_cond_destroy", "pthread_cond_wait", "pthread_cond_timedwait", "pthread_cond_signal", "pthread_cond_broadcast",
         "sem_init", "sem_destroy", "sem_post", "sem_wait", "sem_timedwait", "sem_trywait"]


FALLBACK_USED = {}   # (prop, part name) -> reason; reported in the evidence


def part_binary(prop, part):
    """Primary build; when it does not compile and the part names fallback flags (a harness that reads private members of the
    library for an additional oracle), build the variant without that oracle instead of failing the whole check."""
    try:
        return part_binary_(prop, part)
    except BuildError as e:
        if "fallback_cflags" not in part:
            raise
        log("[build] %s/%s: primary build failed, using the fallback variant (%s)" % (prop, part["name"], part.get("fallback_note", "reduced oracle")))
        log(str(e)[-1500:])
        FALLBACK_USED[(prop, part["name"])] = part.get("fallback_note", "reduced oracle")
        p2 = dict(part)
        p2["cflags"] = list(part["fallback_cflags"])
        p2["bin"] = part.get("bin", "%s_%s" % (prop, part["name"])) + "_fb"
        return part_binary_(prop, p2)


def part_binary_(prop, part):
    if part.get("flavour", "").startswith("sched"):
        ld = ["-Wl," + ",".join("--wrap=" + w for w in WRAPS + list(part.get("wraps", ())))] + list(part.get("ldflags", ()))
        return build_bin(part.get("bin", "%s_%s" % (prop, part["name"])), part["sources"], part["flavour"], part.get("cflags", ()), ld, deps=part.get("deps", ()), plain_sources=["vsched/rt.cpp"] + list(part.get("plain_sources", ())))
    if part["kind"] == "libfuzzer":
        return build_bin(part.get("bin", "%s_%s" % (prop, part["name"])), part["sources"], "fuzz", part.get("cflags", ()), part.get("ldflags", ()), deps=part.get("deps", ()))
    return build_bin(part.get("bin", "%s_%s" % (prop, part["name"])), part["sources"], part.get("flavour", "asan"), part.get("cflags", ()), part.get("ldflags", ()), deps=part.get("deps", ()))


def part_args(prop, part):
    return ["--prop", prop] + list(part.get("args", ()))


def write_evidence(prop, tier, seed, level, wall, violations, coverage, assumptions):
    os.makedirs(os.path.join(OUTDIR, "evidence"), exist_ok=True)
    ev = {"property_id": prop, "tier": tier, "seed": seed, "level": level, "wall_s": round(wall, 2), "violations": violations,
          "coverage": coverage, "assumptions": assumptions}
    p = os.path.join(OUTDIR, "evidence", prop + ".json")
    with open(p + ".tmp", "w") as f:
        json.dump(ev, f, indent=1, default=str)
    os.rename(p + ".tmp", p)


def save_failure(prop, part, text, tag="fail"):
    d = os.path.join(OUTDIR, "failures", prop)
    os.makedirs(d, exist_ok=True)
    h = sha(text)[:10]
    ext = ".case"
    p = os.path.join(d, "%s-%s-%s%s" % (part, tag, h, ext))
    with open(p, "w") as f:
        f.write(text)
    return p


def with_header(prop, part, kind, body, detail=""):
    hdr = "#prop %s\n#part %s\n#kind %s\n" % (prop, part, kind)
    if detail:
        hdr += "#detail %s\n" % detail.replace("\n", " ")
    return hdr + body


def check(prop, tier):
    import props
    if prop not in props.PROPS:
        log("unknown property", prop)
        return 2
    spec = props.PROPS[prop]
    seed = int(os.environ.get("VERIF_SEED", "1") or 1)
    t0 = time.time()
    violations = []   # (part, path, kind)
    known_lines = []
    coverage = {"evaluations": 0, "distinct_nontrivial": 0, "rule": spec["rule"], "samples": [], "parts": {}}
    inconclusive = []
    findings = open_findings(prop)
    excludes = sorted({f["exclusion"] for f in findings if f.get("exclusion")})

    # build everything this check needs up front, in parallel
    try:
        with ThreadPoolExecutor(8) as ex:
            list(ex.map(lambda p: part_binary(prop, p), [p for p in spec["parts"] if p["kind"] in ("opfuzz", "libfuzzer")]))
    except BuildError as e:
        print("BUILD-ERROR property=%s" % prop)
        print(str(e)[-8000:])
        return 2

    for part in spec["parts"]:
        pname = part["name"]
        kind = part["kind"]
        cfg = part["tiers"].get(tier) or part["tiers"].get("quick")
        if cfg is None:
            continue
        if cfg.get("skip"):
            continue
        pt0 = time.time()
        try:
            if kind in ("opfuzz", "libfuzzer"):
                binary = part_binary(prop, part)
            elif kind == "custom":
                binary = None
            else:
                raise BuildError("unknown part kind " + kind)
        except BuildError as e:
            print("BUILD-ERROR property=%s part=%s" % (prop, pname))
            print(str(e)[-8000:])
            return 2

        if kind == "custom":
            mod = __import__(part["module"])
            r = mod.run(prop=prop, part=part, tier=tier, seed=seed, cfg=cfg, findings=findings, api=sys.modules[__name__])
            coverage["evaluations"] += r.get("evaluations", 0)
            coverage["distinct_nontrivial"] += r.get("distinct_nontrivial", 0)
            coverage["samples"] += r.get("samples", [])[:4]
            coverage["parts"][pname] = r.get("detail", {})
            coverage["parts"][pname]["wall_s"] = round(time.time() - pt0, 2)
            for v in r.get("violations", []):
                violations.append((pname, v["path"], v.get("kind", "")))
            known_lines += r.get("known", [])
            inconclusive += r.get("inconclusive", [])
            continue

        if kind == "libfuzzer":
            wd = scratch_dir("%s-%s-replay" % (prop, pname))
            nreg = 0
            for rp in sorted(glob.glob(os.path.join(VERIF, "regress", prop, pname + "-*"))):
                failed, k, out = lf_run_file(binary, rp)
                nreg += 1
                if failed:
                    violations.append((pname, rp, k))
            for fd in findings:
                if fd.get("part") != pname:
                    continue
                failed, k, out = lf_run_file(binary, os.path.join(VERIF, fd["witness"]), extra_env={"PBT_EXCLUDE": ""})
                if failed:
                    known_lines.append("KNOWN-FINDING: property=%s %s [%s]" % (prop, fd["what"], fd["id"]))
            os.environ["PBT_EXCLUDE"] = ",".join(excludes)
            res = run_libfuzzer(prop, part, binary, cfg, seed, tier)
            detail = {"engine": "libFuzzer", "executions": res["execs"], "coverage_edges": res["cov"], "corpus_files": res["corpus"], "labels": res["labels"],
                      "distinct_nontrivial": len(res["hashes"]), "regress_files_replayed": nreg, "workers": res["workers"], "excluded_patterns": excludes}
            coverage["evaluations"] += res["execs"]
            coverage["distinct_nontrivial"] += len(res["hashes"])
            coverage["samples"] += [{"part": pname, "input": smp} for smp in res["samples"][:3]]
            if res["execs"] < cfg["runs"] * res["workers"] // 50:   # (a time budget hit on a loaded machine is not "too few")
                coverage.setdefault("too_few", []).append("%s: only %d executions" % (pname, res["execs"]))
            for lgs in res["logs"]:
                inconclusive.append("%s: %s" % (pname, lgs[:300]))
                log(lgs)
            seen = set()
            for apath, lg in res["artifacts"]:
                base = os.path.basename(apath)
                if base.startswith(("crash-", "leak-")):
                    failed, k, out = lf_run_file(binary, apath)
                    if not failed:
                        inconclusive.append("%s: artifact %s does not reproduce" % (pname, base))
                        continue
                    if kind_class(k) + k in seen:
                        continue
                    seen.add(kind_class(k) + k)
                    small = minimize_artifact(binary, apath, wd)
                    oks = [lf_run_file(binary, small) for _ in range(3)]
                    if not all(o[0] for o in oks):
                        small = apath
                        oks = [lf_run_file(binary, small) for _ in range(3)]
                        if not all(o[0] for o in oks):
                            inconclusive.append("%s: artifact %s fails only sometimes" % (pname, base))
                            continue
                    dd = os.path.join(OUTDIR, "failures", prop)
                    os.makedirs(dd, exist_ok=True)
                    with open(small, "rb") as f:
                        data = f.read()
                    dest = os.path.join(dd, "%s-crash-%s" % (pname, hashlib.sha1(data).hexdigest()[:10]))
                    with open(dest, "wb") as f:
                        f.write(data)
                    violations.append((pname, dest, oks[0][1]))
                    log(oks[0][2][-2500:])
                else:
                    # timeout-/oom-/slow-unit-: load noise unless it deterministically never finishes on a small input
                    if base.startswith("timeout-") and os.path.getsize(apath) <= 4096:
                        if all(lf_run_file(binary, apath, timeout=70)[1] in ("hang",) or "timeout" in lf_run_file(binary, apath, timeout=70)[2][-400:] for _ in range(2)):
                            dd = os.path.join(OUTDIR, "failures", prop)
                            os.makedirs(dd, exist_ok=True)
                            dest = os.path.join(dd, "%s-hang-%s" % (pname, sha(open(apath, "rb").read())[:10]))
                            shutil.copy(apath, dest)
                            violations.append((pname, dest, "hang"))
                            continue
                    inconclusive.append("%s: %s (load noise, not a violation)" % (pname, base))
            detail["wall_s"] = round(time.time() - pt0, 2)
            coverage["parts"][pname] = detail
            shutil.rmtree(wd, ignore_errors=True)
            shutil.rmtree(res["workdir"], ignore_errors=True)
            continue

        wd = scratch_dir("%s-%s-replay" % (prop, pname))
        pargs = part_args(prop, part)
        # ---- replay tier: regress/<prop>/<part>-*.case must pass
        reg = sorted(glob.glob(os.path.join(VERIF, "regress", prop, pname + "-*.case")))
        nreg = 0
        for rp in reg:
            with open(rp, errors="replace") as f:
                txt = f.read()
            failed, k, out = replay_case(binary, txt, wd, extra_args=pargs)
            nreg += 1
            if failed:
                violations.append((pname, rp, k))
        # ---- open findings of this part: replay witness; still failing -> KNOWN-FINDING line
        for fd in findings:
            if fd.get("part") != pname:
                continue
            wp = os.path.join(VERIF, fd["witness"])
            with open(wp, errors="replace") as f:
                txt = f.read()
            failed, k, out = replay_case(binary, txt, wd, extra_args=pargs)
            if failed:
                known_lines.append("KNOWN-FINDING: property=%s %s [%s]" % (prop, fd["what"], fd["id"]))
            else:
                log("[note] witness of open finding %s no longer fails" % fd["id"])
        # ---- generation tier
        res = run_opfuzz(prop, pname, binary, cfg, seed, tier, excludes, pargs)
        detail = {"engine": "opfuzz", "cases": res["cases"], "ops": res["ops"], "nontrivial_cases": res["nontrivial"], "distinct_nontrivial": len(res["hashes"]),
                  "labels": res["labels"], "counters": res["counters"], "regress_files_replayed": nreg, "workers": res["workers"],
                  "capped_by_time": res["capped"], "excluded_patterns": excludes}
        if (prop, pname) in FALLBACK_USED:
            detail["fallback_build"] = FALLBACK_USED[(prop, pname)]
        coverage["evaluations"] += res["cases"]
        coverage["distinct_nontrivial"] += len(res["hashes"])
        coverage["samples"] += [{"part": pname, "labels": s["labels"], "case": s["case"]} for s in res["samples"][:3]]
        min_cases = cfg.get("min_cases", cfg["cases"] // 20)   # far fewer than planned means the workers died, not that the machine was busy
        if res["cases"] < min_cases:
            coverage.setdefault("too_few", []).append("%s: only %d of %d cases ran" % (pname, res["cases"], cfg["cases"]))
        # ---- failures: shrink, confirm, report
        seen_kinds = set()
        for fl in res["failures"]:
            if fl["text"] is None:
                # worker died without a case file: report the log as replay file
                p = save_failure(prop, pname, "#prop %s\n#part %s\n#kind %s\n#log\n%s" % (prop, pname, fl["kind"], "\n".join("# " + l for l in fl["log"].split("\n"))), "died")
                violations.append((pname, p, fl["kind"]))
                continue
            kc = kind_class(fl["kind"])
            if kc in seen_kinds:
                continue
            seen_kinds.add(kc)
            if fl["kind"] == "timeout":
                # confirm: must never finish (3x with long limit) on a small case, else inconclusive
                hdr, ops = split_case(fl["text"])
                body = "\n".join(hdr + ops) + "\n"
                confirmed = all(replay_case(binary, body, wd, timeout=60, extra_args=pargs + ["--alarm", "100"])[1] == "timeout" for _ in range(2))
                if not confirmed:
                    inconclusive.append("%s: a case hit the alarm but finishes when replayed" % pname)
                    continue
            hdr, ops = split_case(fl["text"])
            body = "\n".join(hdr + ops) + "\n"
            if part.get("timing"):
                # a part that runs in real time with real threads: its invariants do not depend on timing, but whether a case reaches
                # the failing state does. The candidate is replayed up to 30 times; reproduced at least once -> violation (reported
                # unshrunk, marked "#timing"), never -> inconclusive
                runs = [replay_case(binary, body, wd, extra_args=pargs) for _ in range(30)]
                hits = [r_ for r_ in runs if r_[0] and r_[1] != "timeout"]
                if not hits:
                    p = save_failure(prop, pname, fl["text"], "flaky")
                    inconclusive.append("%s: failure of kind %s did not reproduce in 30 replays" % (pname, fl["kind"]))
                    continue
                p = save_failure(prop, pname, with_header(prop, pname, hits[0][1], "#timing reproduced in %d of 30 replays\n" % len(hits) + body, fl.get("log", "")[-300:].replace("\n", " ")))
                violations.append((pname, p, hits[0][1]))
                log(hits[0][2][-3000:])
                continue
            failed, k, out = replay_case(binary, body, wd, extra_args=pargs)
            if not failed:
                detail.setdefault("flaky_candidates", 0)
                detail["flaky_candidates"] += 1
                p = save_failure(prop, pname, fl["text"], "flaky")
                log("[warn] failure did not reproduce on replay: %s (%s)" % (p, fl["kind"]))
                inconclusive.append("%s: failure of kind %s did not reproduce on replay" % (pname, fl["kind"]))
                continue
            small, ncalls = shrink_case(binary, body, k, wd, budget=cfg.get("shrink_budget", 300), extra_args=pargs)
            oks = [replay_case(binary, small, wd, extra_args=pargs) for _ in range(3)]
            if not all(o[0] for o in oks):
                inconclusive.append("%s: shrunk case fails only sometimes" % pname)
                p = save_failure(prop, pname, small, "flaky")
                continue
            k2 = oks[0][1]
            m = re.search(r"^#detail (.*)$", "", re.M)
            fp = os.path.join(wd, "fail.case")
            detail_line = ""
            if os.path.exists(fp):
                with open(fp, errors="replace") as f:
                    for l in f:
                        if l.startswith("#detail "):
                            detail_line = l[8:].strip()
            san = ""
            mm = re.search(r"(ERROR: AddressSanitizer: [^\n]*|runtime error: [^\n]*|SUMMARY: [^\n]*)", oks[0][2])
            if mm:
                san = mm.group(1)
            p = save_failure(prop, pname, with_header(prop, pname, k2, small, (detail_line + " " + san).strip()))
            violations.append((pname, p, k2))
            log(oks[0][2][-3000:])
        detail["wall_s"] = round(time.time() - pt0, 2)
        coverage["parts"][pname] = detail
        shutil.rmtree(wd, ignore_errors=True)
        shutil.rmtree(res["workdir"], ignore_errors=True)

    wall = time.time() - t0
    coverage["inconclusive"] = inconclusive
    coverage["known_findings_reported"] = known_lines
    coverage["exhaustive"] = False
    write_evidence(prop, tier, seed, spec["level"], wall, len(violations), coverage, spec["assumptions"])
    for l in known_lines:
        print(l)
    for pname, path, k in violations:
        print("VIOLATION property=%s replay=%s" % (prop, path))
        log("  part=%s kind=%s" % (pname, k))
        # the replay file itself (text cases only), so that a log alone is enough to reproduce the run
        try:
            with open(path, "rb") as f:
                raw = f.read(6000)
            if raw and all(32 <= c < 127 or c in (9, 10, 13) for c in raw):
                for l in raw.decode().split("\n")[:80]:
                    log("  | " + l)
        except OSError:
            pass
    if violations:
        return 1
    if inconclusive:
        for i in inconclusive:
            log("[inconclusive] " + i)
    if coverage.get("too_few"):
        print("INCONCLUSIVE property=%s: %s" % (prop, "; ".join(coverage["too_few"])))
        return 2
    print("OK property=%s tier=%s evaluations=%d distinct_nontrivial=%d wall=%.1fs" % (prop, tier, coverage["evaluations"], coverage["distinct_nontrivial"], wall))
    return 0


def replay(path):
    import props
    prop = part = None
    with open(path, errors="replace") as f:
        for l in f:
            if l.startswith("#prop "):
                prop = l.split()[1]
            elif l.startswith("#part "):
                part = l.split()[1]
            if not l.startswith("#"):
                break
    if prop is None:
        # raw artifact: directory name tells
        m = re.search(r"/(C\d\d)/([A-Za-z0-9_]+)-", path)
        if m:
            prop, part = m.group(1), m.group(2)
    if prop not in props.PROPS:
        log("cannot tell the property of", path)
        return 2
    for p in props.PROPS[prop]["parts"]:
        if p["name"] == part or part is None:
            if p["kind"] == "opfuzz":
                binary = part_binary(prop, p)
                wd = scratch_dir("replay")
                with open(path, errors="replace") as f:
                    txt = f.read()
                failed, k, out = replay_case(binary, txt, wd, extra_args=part_args(prop, p))
                for _ in range(29 if (p.get("timing") and not failed) else 0):   # timing-dependent part: up to 30 attempts
                    failed, k, out = replay_case(binary, txt, wd, extra_args=part_args(prop, p))
                    if failed:
                        break
                print(out[-6000:])
                shutil.rmtree(wd, ignore_errors=True)
                if failed:
                    print("VIOLATION property=%s replay=%s" % (prop, path))
                    return 1
                return 0
            elif p["kind"] == "libfuzzer":
                binary = part_binary(prop, p)
                failed, k, out = lf_run_file(binary, os.path.abspath(path))
                print(out[-6000:])
                if failed:
                    print("VIOLATION property=%s replay=%s" % (prop, path))
                    return 1
                return 0
            else:
                mod = __import__(p["module"])
                return mod.replay(prop=prop, part=p, path=path, api=sys.modules[__name__])
    log("no part", part, "in", prop)
    return 2


def setup():
    import props
    t0 = time.time()
    os.makedirs(BUILD, exist_ok=True)
    flav = set()
    for pid, spec in props.PROPS.items():
        for part in spec["parts"]:
            flav.add("fuzz" if part["kind"] == "libfuzzer" else part.get("flavour", "asan"))
    for fl in sorted(flav):
        build_lib(fl)
    jobs = []
    for pid, spec in props.PROPS.items():
        for part in spec["parts"]:
            if part["kind"] in ("opfuzz", "libfuzzer"):
                jobs.append((pid, part))
            elif part["kind"] == "custom":
                mod = __import__(part["module"])
                if hasattr(mod, "setup"):
                    mod.setup(prop=pid, part=part, api=sys.modules[__name__])

    def one(j):
        pid, part = j
        return part_binary(pid, part)
    with ThreadPoolExecutor(6) as ex:
        list(ex.map(one, jobs))
    log("[setup] done in %.1fs" % (time.time() - t0))
    return 0


def main():
    if len(sys.argv) < 2:
        print(__doc__)
        return 2
    cmd = sys.argv[1]
    try:
        if cmd == "setup":
            return setup()
        if cmd == "check":
            tier = os.environ.get("VERIF_TIER") or "quick"
            if "--tier" in sys.argv:
                tier = sys.argv[sys.argv.index("--tier") + 1]
            return check(sys.argv[2], tier)
        if cmd == "replay":
            return replay(sys.argv[2])
        if cmd == "list":
            import props
            for k, v in props.PROPS.items():
                print(k, [p["name"] for p in v["parts"]])
            return 0
    except BuildError as e:
        print("BUILD-ERROR")
        print(str(e)[-8000:])
        return 2
    except Exception:
        # a defect of the driver itself is not a statement about the property: exit code 2, no VIOLATION line
        import traceback
        print("INTERNAL-ERROR (driver)")
        traceback.print_exc()
        return 2
    print(__doc__)
    return 2


if __name__ == "__main__":
    sys.exit(main())
