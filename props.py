"""Registry: property id -> parts (harnesses), tiers, evidence texts."""

def opf(name, sources, quick, thorough, **kw):
    d = {"name": name, "kind": "opfuzz", "sources": sources, "tiers": {"quick": quick, "thorough": thorough}}
    d.update(kw)
    return d

def rel(part, frac=4):
    """The same part in the library's release configuration (-DNDEBUG: ASSERT vanishes, VERIFY keeps only its side effects) at a
    fraction of the cases: a statement that lives inside an ASSERT, or a VERIFY turned into an ASSERT, only misbehaves there."""
    import copy
    d = copy.deepcopy(part)
    d["name"] = part["name"] + "_release"
    d["bin"] = part.get("bin", part["name"]) + "_rel"
    d["flavour"] = "schedrel" if part.get("flavour") == "sched" else "asanrel"
    for t in d["tiers"].values():
        t["cases"] = max(1000, t["cases"] // frac)
    return d

PROPS = {}
NOT_YET = {}
UNFINISHED = set()  # registered in props_c*.py but not yet claimed in MANIFEST.json
ENGINES = [
    {"name": "opfuzz", "path": "engine/pbt.hpp", "serves_properties": [], "kind_free_text": "own stateful property-based testing engine: PRNG-generated operation histories, total interpreters, reference models, ddmin shrinking through sub-process replay"},
]

PROPS["C08"] = {
    "level": "exploration",
    "level_text": "random operation histories (hundreds of thousands per run, millions in the thorough tier) against a byte-queue model with a check after every operation, under ASan; no exhaustiveness is claimed",
    "level_note": "trusted: the reference model in harness/c08_buffer.cpp, ASan/UBSan, clang 14; ownership is modelled as a lower bound so the terminator is only demanded where the buffer certainly owns storage",
    "technique": "stateful property-based testing (model-based, generated op sequences, ddmin shrinking) under ASan",
    "rule": "opfuzz: random operation histories over 3 Buffers and a guarded attach pool (sizes 0..45), compared after every op with a byte-vector "
            "model (size, bytes, ==, terminator when certainly owning, pool bytes outside attached windows unchanged) under ASan. "
            "Non-trivial = the case took >=3 of the 6 prepend/resize branches (headroom, shift, realloc / in-place, compact, realloc) and used an "
            "owning operation on a buffer that was attached; distinct = distinct case text (64-bit hash).",
    "assumptions": ["model ownership is a lower bound (owning only when the operation must have allocated)",
                    "ASan + UBSan white-list catch out-of-range accesses; attach windows are disjoint between live buffers"],
    "parts": [opf("buffer", ["harness/c08_buffer.cpp"], {"cases": 400000, "maxsize": 40}, {"cases": 12000000, "maxsize": 160, "workers": 16})],
}


def tree_parts(q, t):
    return [
        opf("map", ["harness/cont_tree.cpp"], q, t, bin="cont_map", cflags=["-DMULTI=0", "-DSTRUCT_ORACLE", "-fno-access-control"],
            fallback_cflags=["-DMULTI=0"], fallback_note="without the AVL structure oracle, which reads private members that this tree does not have"),
        opf("multimap", ["harness/cont_tree.cpp"], q, t, bin="cont_multimap", cflags=["-DMULTI=1", "-DSTRUCT_ORACLE", "-fno-access-control"],
            fallback_cflags=["-DMULTI=1"], fallback_note="without the AVL structure oracle, which reads private members that this tree does not have"),
    ]

PROPS["C01"] = {
    "level": "exploration",
    "level_text": "random operation histories (plain/hinted inserts, removals by key/iterator/front/back, clear, copy, assignment, bulk insert; random, ascending, descending, zig-zag and fill-then-drain key orders) against a sorted reference (multi)map with a full comparison after every operation, including find/contains/count for every key of the universe and a key-comparison counter for the depth bound",
    "level_note": "trusted: the reference model in harness/cont_tree.cpp, the comparison counter in harness/elem.hpp (counts operator<,>,== of the key type), ASan; the AVL structure oracle reads the tree's private fields (-fno-access-control): it checks the mechanism behind the depth bound (parent links, stored height/slope = recomputed, |slope| <= 1, tree order = iteration order) so that a missed re-balance fails at the operation that caused it",
    "technique": "stateful property-based testing against a reference sorted multimap, comparison-counting keys, ddmin shrinking",
    "rule": "opfuzz: histories of 2..2*size ops over two Map (resp. MultiMap) objects with keys from a small universe (key orders: random, ascending, descending, zig-zag, fill-then-drain, one hot key that most entries share); after every op size/isEmpty/forward+backward iteration/front/back/find/contains/count for all keys, returned iterators, addresses, the comparison bound and the AVL structure invariants are checked. "
            "Non-trivial = (removal of an inner entry at n>=7, i.e. a node with two children is possible, AND a hinted insert that took the hint branch) OR a count() on a key with >=3 entries; distinct by case text hash.",
    "assumptions": ["MultiMap::remove(key) may remove any one entry of that key (the model learns which)", "a hinted MultiMap insert may land anywhere inside its equal-key run"],
    "parts": tree_parts({"cases": 60000, "maxsize": 30}, {"cases": 600000, "maxsize": 150, "workers": 16}),
}


def hash_parts(q, t):
    return [
        opf("hashmap", ["harness/cont_hash.cpp"], q, t, bin="cont_hashmap", cflags=["-DKIND=0"]),
        opf("hashset", ["harness/cont_hash.cpp"], q, t, bin="cont_hashset", cflags=["-DKIND=1"]),
        opf("poolmap", ["harness/cont_hash.cpp"], q, t, bin="cont_poolmap", cflags=["-DKIND=2"]),
    ]

HASHKEYS = opf("hashkeys", ["harness/c02_hashkeys.cpp"], {"cases": 150000, "maxsize": 30}, {"cases": 1500000, "maxsize": 60, "workers": 16})

PROPS["C02"] = {
    "level": "exploration",
    "level_text": "random operation histories over three tables of different (generated) capacities with a controllable hash (all keys colliding, 2, 3, 7 buckets, identity) against an insertion-ordered reference map, full comparison after every operation",
    "level_note": "trusted: the reference model in harness/cont_hash.cpp, ASan; the hash of the key type is harness-defined (found by ADL) so collisions are controlled; the library's own hash() overloads (int, int64, const void*, String) are exercised by the 'hashkeys' part (harness/c02_hashkeys.cpp) with table capacities 1, 2, 3, 7, 16 and default",
    "technique": "stateful property-based testing against a reference insertion-ordered map with generated table capacities and a controllable hash",
    "rule": "opfuzz: histories of 2..2*size ops over three HashMap / HashSet / PoolMap objects with capacities drawn from {0,1,2,3,4,7,16,500,default} and hash modulus from {1,2,3,7,identity}; after every op size/isEmpty/iteration both ways/front/back/find+contains for the whole key universe/returned iterators/element addresses/held iterators are compared with the model. Part hashkeys: HashMap / HashSet / PoolMap over the library's own hash() overloads (int, int64, pointers, String - a third of the String keys, the empty one among them, are views attached to a word inside a larger buffer); the PoolMap has a plain value type and is filled through key-only append (a new entry shows the value-initialised value, not that of a recycled slot). "
            "Non-trivial = (a bucket chain reached length >=3 AND an element was removed from the middle of such a chain) OR a swap/assignment between two non-empty tables of different capacity; distinct by case text hash.",
    "assumptions": ["a payload field that is not part of key equality shows whether an existing entry was touched"],
    "parts": hash_parts({"cases": 50000, "maxsize": 30}, {"cases": 500000, "maxsize": 120, "workers": 16}) + [HASHKEYS]
             + [rel(p_) for p_ in hash_parts({"cases": 50000, "maxsize": 30}, {"cases": 500000, "maxsize": 120, "workers": 16}) if p_["name"] in ("hashmap", "hashset")],
}


def seq_parts(q, t):
    return [
        opf("list", ["harness/cont_seq.cpp"], q, t, bin="cont_list", cflags=["-DKIND=0"]),
        opf("array", ["harness/cont_seq.cpp"], q, t, bin="cont_array", cflags=["-DKIND=1"]),
        opf("poollist", ["harness/cont_seq.cpp"], q, t, bin="cont_poollist", cflags=["-DKIND=2"]),
    ]

PROPS["C03"] = {
    "level": "exploration",
    "level_text": "random operation histories over three List / Array / PoolList objects against a reference sequence with a full comparison after every operation; List::sort is checked in both directions (ascending and equal to the sorted multiset of the previous contents) on random, sorted, reverse, constant, two-valued and organ-pipe inputs",
    "level_note": "trusted: the reference model in harness/cont_seq.cpp, ASan",
    "technique": "stateful property-based testing against a reference sequence; sort checked as sorted permutation",
    "rule": "opfuzz: histories of 2..2*size ops (append/prepend/insert at position or held iterator/remove by iterator, index (also == size and beyond), value/resize/reserve/clear/swap/copy/assign incl. self/bulk append+insert/sort/find; PoolList elements are constructed in place through every append() arity, 0..7 arguments) over three containers; after every op size, isEmpty, contents both ways, front/back, pointer view and capacity (Array), returned iterators/references, element addresses (List, PoolList) are compared with the model. "
            "Non-trivial: List = a sort of >=8 elements with duplicates, or an insert at a held iterator after removals; Array = crossed >=2 capacity changes and removed from the middle; PoolList = an append after a removal (slot reuse); distinct by case text hash.",
    "assumptions": ["PoolList::front/back cannot be instantiated on the pinned tree (they reference a non-existing member) and are not used"],
    "parts": seq_parts({"cases": 50000, "maxsize": 30}, {"cases": 500000, "maxsize": 120, "workers": 16})
             + [rel(p_) for p_ in seq_parts({"cases": 50000, "maxsize": 30}, {"cases": 500000, "maxsize": 120, "workers": 16}) if p_["name"] in ("array", "list")],
}


PROPS["C04"] = {
    "level": "exploration",
    "level_text": "random operation histories over all eight container templates with tracked elements (registry of live instances, owned heap block per element), including copy construction, assignment, self-assignment, mid-case destruction and operations whose argument is the container itself or a reference to one of its own elements; lifetimes, leaks and model equality are checked after every operation",
    "level_note": "trusted: the element registry and allocation ledger in harness/elem.hpp and engine/pbt.hpp, the reference models of the container harnesses, ASan",
    "technique": "stateful property-based testing with lifetime-tracking element types, allocation ledger and self-referential arguments",
    "rule": "opfuzz: the C01-C03 interpreters run with the C04 profile (more copies, assignments, self-assignments, re-creations, self-referential arguments; Array is steered to size==capacity before a self-element append/resize). Oracle: every element instance is constructed and destroyed exactly once and never used when dead (registry + magic), constructions == destructions and no ledger block alive after the containers are destroyed, copies share no element storage with their source, results equal the model obtained by copying the argument first. "
            "Non-trivial = a self-assignment or self-referential argument on a container of size >=2 AND a destruction (re-creation, overwrite by copy, end of case) of a container with live elements; distinct by case text hash.",
    "assumptions": ["PoolList and PoolMap are not copyable by design; their self-referential arguments are key references and remove(value&)"],
    "parts": tree_parts({"cases": 40000, "maxsize": 24}, {"cases": 300000, "maxsize": 100, "workers": 16})
             + hash_parts({"cases": 40000, "maxsize": 24}, {"cases": 300000, "maxsize": 100, "workers": 16})
             + seq_parts({"cases": 40000, "maxsize": 24}, {"cases": 300000, "maxsize": 100, "workers": 16})
             + [rel(p_) for p_ in seq_parts({"cases": 40000, "maxsize": 24}, {"cases": 300000, "maxsize": 100, "workers": 16}) if p_["name"] == "array"]
             + [rel(p_) for p_ in hash_parts({"cases": 40000, "maxsize": 24}, {"cases": 300000, "maxsize": 100, "workers": 16}) if p_["name"] == "hashmap"],
}

PROPS["C05"] = {
    "level": "exploration",
    "level_text": "random insert/remove/clear/swap histories over the seven node and pool containers; the address and a held iterator of every live element are re-checked after every operation; pool elements are a non-copyable type whose construction count is compared with the number of appends",
    "level_note": "trusted: address bookkeeping in the container harnesses, the deleted copy operations of the Pinned element type (any internal copy would not compile), ASan",
    "technique": "stateful property-based testing with recorded element addresses and held iterators re-validated after every operation",
    "rule": "opfuzz: the container interpreters run with the C05 profile (long-living elements, swaps, few clears). After every op every live element is found at the address recorded at insertion and every held iterator still designates its element; after swap the elements are found in the other container at the same addresses. "
            "Non-trivial = some element survived >=10 later insertions and >=5 removals (tree containers: that includes rebalancing above it) and, where swap exists, a swap of two non-empty containers; distinct by case text hash.",
    "assumptions": ["List::sort permutes values between nodes by design and is excluded", "Map and MultiMap have no swap"],
    "parts": tree_parts({"cases": 30000, "maxsize": 40}, {"cases": 300000, "maxsize": 150, "workers": 16})
             + hash_parts({"cases": 30000, "maxsize": 40}, {"cases": 300000, "maxsize": 150, "workers": 16})
             + [p for p in seq_parts({"cases": 30000, "maxsize": 40}, {"cases": 300000, "maxsize": 150, "workers": 16}) if p["name"] != "array"],
}


PROPS["C06"] = {
    "level": "exploration",
    "level_text": "random operation histories over four String variables that share buffers (copy/assign of owned strings), literals and windows of a guarded memory pool (terminated and unterminated attach), against std::string models with every variable, every literal and the pool re-checked after every operation, under ASan",
    "level_note": "trusted: reference implementations in harness/c06_string.cpp (plain loops / std::string searches written from the documented meaning), ASan; C-string based operations are only compared on NUL-free strings; raw pointer arguments never alias the receiver; needles are non-empty",
    "technique": "stateful property-based testing against std::string models over several aliasing variables, guard bytes on source memory, ASan",
    "rule": "opfuzz: histories of 2..size ops from 32 operation kinds (constructors, copy, assign, attach, append/prepend (String incl. itself, pointer+length, char), +=, +, clear, resize, reserve, detach, replace(char), replace(String,String), case mapping, trim, substr, token(char/set) to exhaustion, split into List and HashSet, join, printf/fromPrintf across the 200 byte first buffer, C-string view, 20 query functions). "
            "Non-trivial = some variable was mutated while it shared its buffer with another variable AND (a mutation of an unterminated attached string OR an operation whose argument is the receiver itself); distinct by case text hash.",
    "assumptions": ["String::attach(p,n) requires p[n] to be readable (all callers attach to windows of NUL-terminated text)", "C-string semantics only for NUL-free strings", "needles of replace/find are non-empty"],
    "parts": [opf("string", ["harness/c06_string.cpp"], {"cases": 1200000, "maxsize": 40}, {"cases": 8000000, "maxsize": 120, "workers": 16})],
}


PROPS["C07"] = {
    "level": "exploration",
    "level_text": "random assignment / copy / swap / mutable-access histories over four Variant variables of all alternative types including nested lists, arrays and maps built from the current values of other variables, against a value-tree model with value semantics; every variable is compared deeply after every operation, a fresh copy must compare equal, and the scalar conversions are checked where the answer is uncontroversial",
    "level_note": "trusted: the value-tree model and coercion table in harness/c07_variant.cpp (only conversions whose C++ result is defined and documented are compared), ASan, allocation ledger; NaN is not generated; a container is never inserted into itself",
    "technique": "stateful property-based testing against a value-semantics tree model over several aliasing variables",
    "rule": "opfuzz: histories of 2..size ops from 24 kinds (scalar assignments through operator= and constructors with boundary values, strings incl. decimal texts up to 2^64-1, assignment from an element nested in another or the same variable, list/array/map construction from other variables, assign incl. self, copy, clear, swap, mutable accessors followed by a modification incl. type-converting accesses and two-level nested modifications). "
            "Non-trivial = a mutable access on a variable whose payload was shared with another variable at that moment AND some value reached nesting depth >=2 (container inside container); distinct by case text hash.",
    "assumptions": ["equality is checked between a variable and its copies (fresh ones, and ones detached from the shared payload by an unmodifying mutable access), not between independently built equal values", "double values other than NaN", "no self-containment"],
    "parts": [opf("variant", ["harness/c07_variant.cpp"], {"cases": 600000, "maxsize": 30}, {"cases": 6000000, "maxsize": 80, "workers": 16})],
}


PROPS["C12"] = {
    "level": "exploration",
    "level_text": "random histories of connect / disconnect / emit / destroy / re-create over 3 emitters x 2 signals and 4 listeners x 2 slots per signal, where every slot invocation executes the next entry of a generated reaction script (connect, disconnect incl. itself, nested and recursive emit up to depth 3, delete a listener incl. the running one, delete an emitter incl. the emitting one); a model of connection records predicts the exact invocation sequence; probe emissions and a generated teardown order follow, under ASan and the allocation ledger",
    "level_note": "trusted: the connection-record model in harness/c12_callback.cpp, the live-listener registry (a call on a destroyed listener is reported from the pointer value alone), ASan; two identical live connections are never created (the statement does not say which one a disconnect removes)",
    "technique": "stateful property-based testing with a reaction script executed inside callbacks and an exact invocation-sequence model",
    "rule": "opfuzz: 3..size top-level ops and 0..size reactions per case over 3 emitters x 10 signals (no argument, one int, a second no-argument signal that shares the slot functions of the first, and 2..8 ints: one signal per emit() overload) and 4 listeners with two slots per signature; a connection may exist up to three times, concentrated on one signal, or on the two sharing signals, so that slot chains get long. Oracle: each invocation must be the next connected record of the innermost running emission (connected before the outermost running emission of that signal began, still connected at its turn), no call on a destroyed listener or from a destroyed emitter, no connected record left uninvoked when an emission ends, probe emissions match, teardown in generated order is clean (ASan, ledger). "
            "Non-trivial = (a reaction changed the connection set of the signal being emitted AND three emissions were nested) OR an emitter/listener was destroyed inside a slot; distinct by case text hash.",
    "assumptions": ["no duplicate live connections", "an object that is both emitter and listener is not generated"],
    "parts": [opf("callback", ["harness/c12_callback.cpp"], {"cases": 1500000, "maxsize": 30}, {"cases": 20000000, "maxsize": 80, "workers": 16})],
}


def lfz(name, sources, quick, thorough, **kw):
    d = {"name": name, "kind": "libfuzzer", "sources": sources, "tiers": {"quick": quick, "thorough": thorough}}
    d.update(kw)
    return d

ENGINES.append({"name": "libFuzzer", "path": "engine/fuzz.hpp", "serves_properties": ["C15", "C16", "C18", "C20"], "kind_free_text": "clang 14 libFuzzer targets (-fsanitize=fuzzer,address + UBSan white-list) with the semantic oracle inside the target"})

PROPS["C15"] = {
    "level": "exploration",
    "engine": "opfuzz + libFuzzer",
    "level_text": "generated value trees (all listed alternatives, boundary integers, strings rich in quotes, backslashes, control characters, UTF-8 of 2-4 bytes, depth up to 1000) are serialised and parsed back; the same trees are written as documents with comments and escapes and checked against a reference comment stripper; every truncation (short texts) and sampled byte flips are parsed for totality and error position; a coverage-guided libFuzzer target with the same oracles runs on arbitrary NUL-free bytes held in exactly sized heap blocks under ASan/UBSan",
    "level_note": "trusted: reference stripper and error-position rule in harness/json_common.hpp, the value-tree model in harness/c15_json.cpp, ASan/UBSan, libFuzzer; doubles are excluded from the round trip (their %f text is lossy and the statement excludes them); strings are NUL-free",
    "technique": "property-based round-trip and differential testing (reference comment stripper) on generated trees plus coverage-guided fuzzing with in-target oracle",
    "rule": "opfuzz 'tree': flat op lists (push-list, push-map, scalar, string, pop) build a tree (3 % of the cases are chains 50-1000 deep, 1 % are lists of 900-1700 small maps; the string pool holds quotes, backslashes, control characters, 2-4 byte sequences, the line / paragraph separators U+2028 / U+2029 and their neighbours, NEL, BOM and cut sequences); oracle: parse(toString(t)) equals t structurally and under Variant== (two of three parses of a case go through one reused Json::Parser object); decorated document: stripComments == reference and parses to t; all truncations of texts <=200 bytes (24 sampled beyond) and 12 byte flips: no crash, error line/column inside the text. Non-trivial = (tree contains a string needing escapes or non-ASCII bytes AND depth >=2) OR a decorated document with a comment and a string escape. "
            "libFuzzer 'fuzz': first byte selects parse or stripComments mode; non-trivial = parsed input with escape-worthy/non-ASCII string at depth >=2 that round-trips, or a well-formed comment-stripping input containing both a comment and a string; distinct by input hash.",
    "assumptions": ["nesting depth <= 1000", "NUL-free input and strings", "lines are separated by CR LF, CR or LF"],
    "parts": [opf("tree", ["harness/c15_json.cpp"], {"cases": 60000, "maxsize": 40}, {"cases": 600000, "maxsize": 120, "workers": 16}, deps=["harness/json_common.hpp"]),
              lfz("fuzz", ["harness/c15_json_fuzz.cpp"], {"runs": 150000, "workers": 8, "time": 120}, {"runs": 3000000, "workers": 16, "time": 900}, max_len=600, deps=["harness/json_common.hpp"])],
}


PROPS["C16"] = {
    "level": "exploration",
    "engine": "opfuzz + libFuzzer",
    "level_text": "generated element trees (well-formed names, up to 4 attributes with arbitrary NUL-free values, non-blank non-adjacent text nodes, depth up to 1000) are serialised and parsed back; the same trees are written as documents with the other quote style, numeric and named references, comments wherever white space is allowed (incl. next to text) and processing instructions with line breaks; truncations and byte flips are parsed for totality and error/element positions; copies of Xml::Variant values are checked for independence against a value model; a libFuzzer target with the same oracles runs on arbitrary NUL-free bytes in exactly sized heap blocks",
    "level_note": "trusted: the tree model and comparison in harness/xml_common.hpp, ASan/UBSan, libFuzzer; documents with comments are compared modulo white space in text (a comment may split a text node and white space next to a comment is not significant)",
    "technique": "property-based round-trip testing on generated element trees and documents plus coverage-guided fuzzing with in-target oracle",
    "rule": "opfuzz 'tree': flat op lists (open, attr, text, close, and v_* ops on three Xml::Variant variables) build a tree under a root element (names from a pool of well-formed names, a third of them with letters outside ASCII or a colon; 2 %: chains 50..1000 deep, 1 %: 900..2700 empty siblings); oracle: parse(toString(e)) has the same names, attribute order/values, text and nesting; decorated document parses to the same tree (exact without comments, white-space-insensitive text with comments); element line/column inside the text; all truncations of documents <=150 bytes (20 sampled beyond) and 10 flips: no crash, error position inside the text; Xml::Variant variables equal their value model after every v_* op. "
            "Non-trivial = (an attribute value with quote, ampersand, angle bracket or line break AND depth >=2) OR a document with a comment directly followed by text. libFuzzer 'fuzz': non-trivial = a parsed input in the round-trip domain with such an attribute value and nesting; distinct by input hash.",
    "assumptions": ["nesting depth <= 1000", "NUL-free input", "lines are separated by CR LF, CR or LF", "attribute names unique per element"],
    "parts": [opf("tree", ["harness/c16_xml.cpp"], {"cases": 60000, "maxsize": 40}, {"cases": 600000, "maxsize": 120, "workers": 16}, deps=["harness/xml_common.hpp", "harness/json_common.hpp"]),
              lfz("fuzz", ["harness/c16_xml_fuzz.cpp"], {"runs": 150000, "workers": 8, "time": 120}, {"runs": 3000000, "workers": 16, "time": 900}, max_len=400, deps=["harness/xml_common.hpp", "harness/json_common.hpp"])],
}


PROPS["C17"] = {
    "level": "exploration",
    "engine": "enumeration + Python differential",
    "level_text": "SHA-256 digests for every message length 0..300 (quick 0..160) with four kinds of content, every two-way chunking of every length <=130 (exhaustive sub-space), sampled two/three-way chunkings with empty chunks up to 300, sampled lengths up to 70000, hasher reuse after finalize() and reset(), HMAC for every key length 0..200 x boundary message lengths and random pairs; each result is compared with Python's hashlib / hmac",
    "level_note": "trusted: CPython's hashlib.sha256 and hmac as the FIPS 180-4 / RFC 2104 reference, the record format of harness/c17_sha.cpp, ASan on exactly sized input copies",
    "technique": "enumerated and sampled inputs with a differential oracle (Python hashlib/hmac)",
    "rule": "harness/c17_sha.cpp enumerates the computations listed above (content from a PRNG seeded by VERIF_SEED), plus one message of 2^29+5 bytes fed in 1 MiB pieces (thorough: 2^29-1, 2^29, 2^32+3), and prints one record each; oracle/c17.py recomputes every digest. Non-trivial = a record whose message length, chunk boundary or key length lies within +-1 of a multiple of 64 or of the 56 byte padding threshold; distinct by record text.",
    "assumptions": ["CPython hashlib/hmac are correct"],
    "parts": [{"name": "sha", "kind": "custom", "module": "c17", "tiers": {"quick": {}, "thorough": {}}}],
}


PROPS["C18"] = {
    "level": "exploration",
    "engine": "enumeration + Python differential + libFuzzer",
    "level_text": "all 1,114,112 code points through Unicode::toString / fromString / length / isValid against Python's UTF-8 codec; all byte strings up to length 2 (thorough: 3, 16.8 million) through the decoders on exactly sized heap blocks under ASan with a strict reference decoder; boundary and random integers through from*/to* judged by Python int(); fromHex against bytes.hex(); fromBase64 on the RFC 4648 encodings of all byte strings of length <=2 and random ones up to 300 bytes, and on 2.56 million other 4-byte strings plus random longer ones (bytes >=0x80, padding in odd places) under ASan + UBSan bounds; a libFuzzer target covers longer inputs",
    "level_note": "trusted: CPython's UTF-8 codec (surrogatepass: the library encodes surrogate code points as generalised UTF-8, which is taken as agreeing), int(), base64; the strict reference decoder in harness/c18_codec.cpp; ASan/UBSan",
    "technique": "exhaustive enumeration of small sub-spaces and sampling with differential oracles (Python codecs/int/base64) under ASan/UBSan",
    "rule": "harness/c18_codec.cpp enumerates, oracle c18.py judges (decoder inputs in exactly sized blocks, the empty range at the very end of a block; every number also converted through a String attached to an exactly sized, unterminated block in which a digit follows). Non-trivial = multi-byte code points, byte strings with a multi-byte lead byte (incl. truncated tails), integers of >=10 digits, padded base64 encodings, base64 inputs with bytes >=0x80; counted per record.",
    "assumptions": ["surrogate code points encode as generalised UTF-8", "over-long UTF-8 forms are not rejected by isValid (the statement does not ask for it)"],
    "parts": [{"name": "codec", "kind": "custom", "module": "c18", "tiers": {"quick": {}, "thorough": {}}},
              lfz("fuzz", ["harness/c18_fuzz.cpp"], {"runs": 200000, "workers": 4, "time": 60}, {"runs": 30000000, "workers": 16, "time": 600}, max_len=256)],
}


ENGINES.append({"name": "vsched", "path": "vsched/rt.cpp", "serves_properties": ["C09", "C10", "C11", "C14"], "kind_free_text": "deterministic user-level scheduler: libnstd compiled with -fsanitize=thread call-backs implemented by vsched/rt.cpp, pthread/semaphore/clock interposed with -Wl,--wrap; schedules, spurious wake-ups and timeouts are generated inputs; virtual time; deadlock verdicts"})

PROPS["C09"] = {
    "level": "exploration",
    "engine": "opfuzz + vsched",
    "level_text": "(handles) random single-threaded histories of copy / assign (incl. self) / swap / modify / destroy over String, Variant (string, list, map and array payloads), Xml::Variant and RefCount::Ptr handles (also through the converting constructor / assignment from a handle of a derived type), incl. assignment of a value that lives inside the handle's own payload, against a value model under ASan and the allocation ledger; (threads) 2-4 logical threads, each owning its handles to a common payload, run generated programs under sampled schedules of the deterministic scheduler (uniform, few preemptions, PCT, round robin), with decision points at every atomic / volatile access and at every plain access to a location that is also accessed atomically; a quarantining ledger reports double release, write after release and leaks exactly",
    "level_note": "trusted: vsched/rt.cpp (sequentially consistent interleaving at instrumented granularity: atomics, volatile accesses, synchronisation calls), the ledger in engine/pbt.hpp, thread-local value models; weak-memory reorderings are out of reach; schedules are sampled, not enumerated",
    "technique": "stateful property-based testing (single thread) plus randomised deterministic scheduling of generated thread programs (schedule = generated input)",
    "rule": "threads: case = kind of handle (String, Variant string / list / map / array, RefCount::Ptr, RefCount::Ptr through converting copies, Xml::Variant), 2-4 threads, per-thread op lists over 3 handle slots (copy, destroy, assign, modify - for String: append of a character or of another String, resize+poke, printf, case mapping, reserve, attach -, read, clear; payloads of 6, 23 and 311 bytes), 12 schedules per case (60 when replaying). Oracle: every handle always reads the value its own thread gave it, objects are destroyed exactly once, no double free / write after free / leak, no deadlock. "
            "Non-trivial(threads) = some schedule of the case had two consecutive operations on the same reference counter by different threads. handles: 5 handle slots of one kind, ops make / copy / assign (incl. self) / swap (Variant::swap, Ptr::swap) / modify / clear / destroy / raw pointer assignment; every handle reads its model value after every op, RefCount objects are destroyed exactly when their last handle goes; non-trivial(handles) = a swap or assignment between handles of different payloads followed by a destruction; distinct by case text hash.",
    "assumptions": ["each handle is used by one thread only (the statement's proviso)", "sequential consistency"],
    "parts": [opf("handles", ["harness/c09_handles.cpp"], {"cases": 300000, "maxsize": 30}, {"cases": 3000000, "maxsize": 60, "workers": 16}),
              opf("threads", ["harness/c09_threads.cpp"], {"cases": 5000, "maxsize": 14}, {"cases": 80000, "maxsize": 24, "workers": 16}, flavour="sched", deps=["harness/vs_common.hpp"])],
}


PROPS["C10"] = {
    "level": "exploration",
    "engine": "vsched",
    "level_text": "1-3 client threads, each with a Future<void>, a Future<int> and a Future<String>, run generated programs (start through every overload: free functions with 0-5 and member functions with 0-4 parameters, join, result conversion, destroy, abort, state queries, virtual sleeps that open the worker-retirement window) against freshly installed worker pools of generated size (min 0-2, max 3-5, queue capacity 1/2/4/256; 25% of the cases use the lazily created global pool) under sampled schedules of the deterministic scheduler; decision points at every atomic / volatile access of the lock-free queue, the FastSignal flags and the Signal / Mutex calls",
    "level_note": "trusted: vsched/rt.cpp (sequential consistency at instrumented granularity, virtual time, modelled pthread primitives), execution counters of the started functions; the harness TU includes src/Future.cpp with -fno-access-control to construct pools; schedules are sampled; 'eventually' = no deadlock verdict and completion within the step bound (a step-bound hit is inconclusive)",
    "technique": "randomised deterministic scheduling (schedule = generated input) of generated client programs over generated pool configurations, with execution-count and result oracles and deadlock detection",
    "rule": "case = pool configuration, 1-3 client programs (a future that is started again is joined first in one case out of three, otherwise start() itself has to wait for the previous call), 6 schedules (40 when replaying) cycling through uniform / few-preemptions / PCT / round-robin strategies. Oracle: when join / destructor / conversion / restart returns the call has run exactly once with the given arguments, the converted value is the function's return value, isAborted() only after abort(), otherwise isFinished(); at the end every call ran exactly once; no deadlock and no livelock (a thread polling for ever while nobody else can run, e.g. on the pool-creation spin lock); nothing leaked after the pool is destroyed. 20% of the cases are grow / idle past the retirement time / start-together scenarios over several rounds. "
            "Non-trivial = (>=2 clients AND queue capacity <=2 AND >=4 starts: pushes meet a full queue and workers race clients) OR a case that sleeps past the idle-worker retirement time between starts; distinct by case text hash.",
    "assumptions": ["started functions terminate and do not wait on other futures", "a Future object is used by one client thread"],
    "parts": [opf("future", ["harness/c10_future.cpp"], {"cases": 5000, "maxsize": 22}, {"cases": 40000, "maxsize": 24, "workers": 16}, flavour="sched", cflags=["-fno-access-control"], deps=["harness/vs_common.hpp"], fallback_cflags=["-DC10_GLOBAL_POOL_ONLY"], fallback_note="the harness cannot install its own ThreadPool in this tree: every case uses the shared pool"),
              rel(opf("future", ["harness/c10_future.cpp"], {"cases": 5000, "maxsize": 22}, {"cases": 40000, "maxsize": 24, "workers": 16}, flavour="sched", cflags=["-fno-access-control"], deps=["harness/vs_common.hpp"], bin="C10_future", fallback_cflags=["-DC10_GLOBAL_POOL_ONLY"], fallback_note="the harness cannot install its own ThreadPool in this tree: every case uses the shared pool"))],
}


PROPS["C11"] = {
    "level": "exploration",
    "engine": "vsched",
    "level_text": "one primitive per case (Mutex, Semaphore, Signal, Monitor, Thread), 2-4 logical threads with generated programs of lock (nested) / tryLock / unlock, signal / wait / timed wait / tryWait, set / reset / wait / timed wait, guarded wait / set / tryLock, start (function and member) / join, under sampled schedules of the deterministic scheduler with generated spurious condition wake-ups, EINTR on timed semaphore waits and time-outs that fire at any moment in virtual time; the contracts are history invariants evaluated after every operation and, for blocked threads, at the scheduler's quiescence verdict",
    "level_note": "trusted: the pthread / semaphore model inside vsched/rt.cpp (mutex ownership and recursion attribute, condition waiter sets, semaphore counts, virtual clock) which replaces glibc; what is verified is libnstd's use of these primitives (flag protocols, loops, deadline arithmetic, attributes); schedules are sampled",
    "technique": "randomised deterministic scheduling of generated thread programs with history invariants and quiescence judgement",
    "rule": "case = primitive, initial value, 2-4 thread programs (15 % of the Mutex cases: no shared object, every thread constructs and uses its own Mutex - the first mutexes of the process), 10 schedules (60 when replaying) cycling through four strategies. Invariants: Mutex occupancy <=1 with re-entrance, tryLock fails only when another thread owns it, no blocked thread at the end; Semaphore successful waits <= initial + signals, no waiter blocked at quiescence with positive count; Signal wait true only if set since the last reset, no waiter blocked at quiescence while set; Monitor successful waits <= sets and a set issued while a waiter has the monitor releases a waiter; timed waits return false only after their time-out in virtual time; Thread::join returns the function's result after its last step. "
            "Non-trivial = a schedule with >=3 context switches and consecutive operations of different threads on one location inside the primitive, or a generated spurious wake-up / time-out / EINTR event; distinct by case text hash.",
    "assumptions": ["sequential consistency", "POSIX semantics of the modelled primitives"],
    "parts": [opf("sync", ["harness/c11_sync.cpp"], {"cases": 6000, "maxsize": 20}, {"cases": 80000, "maxsize": 32, "workers": 16}, flavour="sched", deps=["harness/vs_common.hpp"]),
              rel(opf("sync", ["harness/c11_sync.cpp"], {"cases": 6000, "maxsize": 20}, {"cases": 80000, "maxsize": 32, "workers": 16}, flavour="sched", deps=["harness/vs_common.hpp"], bin="C11_sync"))],
}


SRV_WRAPS = ["-Wl,--wrap=send,--wrap=epoll_wait,--wrap=clock_gettime"]

PROPS["C13"] = {
    "level": "fault_enumeration",
    "engine": "opfuzz + fault injection",
    "level_text": "three Server clients per case - paired ones, in 12% of the cases the last one is a TCP connection accepted through a listener whose onAccepted callback greets it with a write and / or suspends it; the harness owns send() on the server-side descriptors (--wrap=send) and applies a generated fault script (would-block, partial counts incl. 1-byte partials, full; adversarial shapes) on top of whatever the kernel does with a small send buffer, owns the clock and epoll_wait, and runs generated actions (writes of 1..5000 pattern bytes, suspend, resume, peer reads and writes, queries) from a 1 ms driver timer inside Server::run() and between runs; the peer verifies the byte stream position by position",
    "level_note": "trusted: the send / epoll_wait / clock_gettime wrappers in harness/srv_common.hpp, the pattern generator, the kernel's socketpair; the fault sequence is the generated dimension, the reported backlog is compared with (accepted bytes - bytes the kernel took) computed from the intercepted send log",
    "technique": "stateful property-based testing with injected send faults (fault sequence = generated input) and a byte-stream oracle at the peer",
    "rule": "case = optional small kernel send buffer, a fault script of 0..2*size entries (shapes: mixture, would-block phase then full, 1-byte partials, alternating, large partials), 3..size actions (write, suspend, resume, peer reads/writes, queries, leaving run(), and arming the next onWrite / onRead callback of a client to perform a write itself or to suspend the client). Nothing fails in these cases (no peer hangs up): a client that the server closes nevertheless is judged like every other - all accepted bytes have to arrive. Oracle: bytes handed to the kernel are a prefix of the accepted stream and the peer finally receives exactly the accepted bytes in order; 'postponed' and getSendBufferSize() equal accepted minus handed; onWrite exactly once per drain and never with backlog; no onRead between suspend() and resume(); ASan. "
            "Non-trivial = a partial send or would-block left a backlog, a further write happened while the backlog was non-empty, and the backlog drained (onWrite); distinct by case text hash.",
    "assumptions": ["Client::write gets size >= 1, or size 0 while a backlog exists (without a backlog a zero-byte send cannot be told from a closed connection)", "the peer of a pair()ed client is a local stream socket", "data and acknowledgements of the loopback TCP connection arrive within 2 s of real time (the drain phase waits for them in real time, the loop itself runs in virtual time)"],
    "parts": [opf("server", ["harness/c13_server.cpp"], {"cases": 250000, "maxsize": 40}, {"cases": 5000000, "maxsize": 100, "workers": 16}, ldflags=SRV_WRAPS, deps=["harness/srv_common.hpp"]),
              rel(opf("server", ["harness/c13_server.cpp"], {"cases": 250000, "maxsize": 40}, {"cases": 5000000, "maxsize": 100, "workers": 16}, ldflags=SRV_WRAPS, deps=["harness/srv_common.hpp"], bin="C13_server"))],
}


PROPS["C14"] = {
    "level": "exploration",
    "engine": "opfuzz + vsched",
    "level_text": "(loop) generated histories of creating and removing timers (intervals 1..50 ms, bursts created in the same virtual millisecond so that three and more due times coincide), paired clients, loopback listeners with incoming connections, establishers to a live listener and to a closed port, peer writes / closes, suspend / resume, client writes and interrupt(), executed between runs and - through a reaction script - from inside every kind of callback, including removal of the object whose callback is running and of objects with a pending event; the harness owns the clock and epoll_wait (virtual time, generated order and subsets of ready descriptors); (interrupt) a second part runs run() and interrupt() on two logical threads under the deterministic scheduler; (resolve) a third part creates establishers from a host name (resolved by a job of the worker pool, real threads, real time) and removes them before, while and after the look-up finishes, also from inside callbacks",
    "level_note": "trusted: the wrappers in harness/srv_common.hpp (virtual clock, epoll_wait with time-out 0 and idle hook), the timer / registration model in harness/c14_loop.cpp, the kernel's loopback sockets; 'eventually dispatched' is checked as 'before the loop goes idle' for socket-pair clients; accepted TCP connections are only checked for accept / removal behaviour",
    "technique": "stateful property-based testing with a reaction script executed inside callbacks, virtual time and generated readiness order; randomised deterministic scheduling for the interrupt race",
    "rule": "loop: 3..size top-level ops (incl. 'run' for a generated virtual duration ended by a watchdog interrupt), 0..size reactions, 0..11 readiness permutations; one timer in eight has a handler that takes as long as its interval (it moves the virtual clock). Oracle: activation k of a timer at virtual time >= start + k*interval, at most once per k, activations in non-decreasing due order, no timer due when the loop goes idle and no sleep beyond a due time (both only for passes without a slow handler); no callback of any kind after remove() returned; onRead only when not suspended, a readable or peer-closed pair client is dispatched before the loop goes idle, a failed read/write is followed by onClosed, onClosed only after a failure, a paired client with a send backlog (writes taken only partly, or refused, by generated send outcomes; also on suspended clients and from inside onWrite) is sent to and gets onWrite before the loop goes idle, onWrite only after a backlog and with an empty send buffer, several clients failing in the same moment with one of them removed before its onClosed, establishers notified exactly once with the right kind; run() returns only after interrupt(), within 300 poll rounds and 100000 callbacks of it. "
            "Non-trivial = (>=3 coinciding due times AND a removal among them) OR a removal of an object with a pending event OR a timer removing itself from its callback together with other actions inside callbacks; resolve part: case = up to 14 actions (establisher from the name 'localhost' to a listening or to a bound but not listening port, remove, run the loop for 1-4 ms, wait 0-1 ms) and up to 3 reactions inside callbacks; oracle: at most one notification per establisher, of the right kind, none after remove() returned, every remaining establisher notified within 6 s of running the loop; a failure is replayed up to 30 times (timing decides whether a case reaches the state), reproduced at least once = violation; interrupt part: case = 1-3 runs, delays before each run and each interrupt, duplicate interrupts, optional timer; 10 schedules per case; oracle: every run() returns after its interrupt, less than 290 s of virtual time later (not by the default time-out), no deadlock; non-trivial = a schedule with >=4 context switches (interrupt while the loop polls) or an interrupt issued before run() started; distinct by case text hash.",
    "assumptions": ["Server::time gets interval >= 1", "Server objects are used from the loop thread; only interrupt() is called from another thread"],
    "parts": [opf("loop", ["harness/c14_loop.cpp"], {"cases": 150000, "maxsize": 40}, {"cases": 1500000, "maxsize": 80, "workers": 16}, ldflags=SRV_WRAPS, deps=["harness/srv_common.hpp"]),
              rel(opf("loop", ["harness/c14_loop.cpp"], {"cases": 150000, "maxsize": 40}, {"cases": 1500000, "maxsize": 80, "workers": 16}, ldflags=SRV_WRAPS, deps=["harness/srv_common.hpp"], bin="C14_loop")),
              opf("resolve", ["harness/c14_resolve.cpp"], {"cases": 4000, "maxsize": 12, "workers": 8}, {"cases": 60000, "maxsize": 12, "workers": 16}, timing=True),
              opf("interrupt", ["harness/c14_interrupt.cpp"], {"cases": 1500, "maxsize": 4}, {"cases": 20000, "maxsize": 4, "workers": 16}, flavour="sched", wraps=["epoll_wait", "write", "eventfd_write", "send"], plain_sources=["vsched/rt_io.cpp"], deps=["harness/vs_common.hpp"])],
}


# property modules kept in separate files (props_cXX.py define PROPS["CXX"] using the helpers above)
import glob as _glob, os as _os
for _f in sorted(_glob.glob(_os.path.join(_os.path.dirname(_os.path.abspath(__file__)), "props_c*.py"))):
    exec(compile(open(_f).read(), _f, "exec"))
