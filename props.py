"""Registry: property id -> parts (harnesses), tiers, evidence texts."""

def opf(name, sources, quick, thorough, **kw):
    d = {"name": name, "kind": "opfuzz", "sources": sources, "tiers": {"quick": quick, "thorough": thorough}}
    d.update(kw)
    return d

PROPS = {}
NOT_YET = {}
ENGINES = [
    {"name": "opfuzz", "path": "engine/pbt.hpp", "serves_properties": [], "kind_free_text": "own stateful property-based testing engine: PRNG-generated operation histories, total interpreters, reference models, ddmin shrinking through sub-process replay"},
]

PROPS["C08"] = {
    "level": "exploration",
    "level_text": "random operation histories (hundreds of thousands per run, millions in the thorough tier) against a byte-queue model with a check after every operation, under ASan; no exhaustiveness is claimed",
    "level_note": "trusted: the reference model in harness/c08_buffer.cpp, ASan/UBSan, clang 14; ownership is modelled as a lower bound so the terminator is only demanded where the buffer certainly owns storage",
    "technique": "stateful property-based testing (model-based, generated op sequences, ddmin shrinking) under ASan",
    "rule": "opfuzz: random operation histories over 3 Buffers and a guarded attach pool (sizes 0..45), compared after every op with a byte-vector "
            "model (size, bytes, ==, terminator when certainly owning, pool bytes outside attached windows unchanged) under ASan. "
            "Non-trivial = the case took >=3 of the 6 prepend/resize branches (headroom, shift, realloc / in-place, compact, realloc) and used an "
            "owning operation on a buffer that was attached; distinct = distinct case text (64-bit hash).",
    "assumptions": ["model ownership is a lower bound (owning only when the operation must have allocated)",
                    "ASan + UBSan white-list catch out-of-range accesses; attach windows are disjoint between live buffers"],
    "parts": [opf("buffer", ["harness/c08_buffer.cpp"], {"cases": 400000, "maxsize": 40}, {"cases": 1500000, "maxsize": 120, "workers": 16})],
}
