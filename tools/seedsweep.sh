#!/bin/sh
# development helper: quick tier of every check for several VERIF_SEED values (robustness against false alarms)
for sd in ${SEEDS:-2 3 4}; do
  echo "== VERIF_SEED=$sd"
  VERIF_SEED=$sd sh tools/sweep.sh ${TIER:-quick} "$@"
done
