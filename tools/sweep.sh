#!/bin/sh
# development helper: run every check of a tier in sequence, print one line per property
TIER=${1:-quick}
shift 2>/dev/null
PROPS=${*:-C01 C02 C03 C04 C05 C06 C07 C08 C09 C10 C11 C12 C13 C14 C15 C16 C17 C18 C19 C20}
for p in $PROPS; do
  s=$(date +%s)
  mkdir -p build/sweep
  python3 verif.py check $p --tier $TIER > build/sweep/$TIER-$p.log 2>&1
  rc=$?
  out=$(cat build/sweep/$TIER-$p.log)
  echo "$p rc=$rc $(($(date +%s)-s))s $(echo "$out" | grep -a 'OK property\|VIOLATION\|INCONCLUSIVE\|BUILD-ERROR' | head -3 | tr '\n' ' ')"
done
