#!/usr/bin/env python3
"""Sensitivity self-test: apply each mutant (mutants/<prop>/*.json: {"file","old","new","expect"}) to a scratch copy of /repo,
optionally run the repository's own tests there, run the quick check of the property against the copy (VERIF_REPO) and compare
with the expectation ("violation" or "pass").  Development-time tool; the registered checks never call it.

  python3 tools/mutants.py [--tests] [--tier quick] [prop-or-file ...]
"""
import sys, os, json, glob, shutil, subprocess, tempfile, time
V = os.path.dirname(os.path.dirname(os.path.abspath(__file__)))

def run_one(path, tests, tier):
    m = json.load(open(path))
    prop = m.get("property") or os.path.basename(os.path.dirname(path))
    d = tempfile.mkdtemp(prefix="nstd-mut-", dir="/var/tmp")
    try:
        for sub in ("include", "src", "test", "CMakeLists.txt"):
            src = os.path.join("/repo", sub)
            if os.path.isdir(src):
                shutil.copytree(src, os.path.join(d, sub))
            else:
                shutil.copy(src, d)
        edits = m["edits"] if "edits" in m else [m]
        for e in edits:
            fp = os.path.join(d, e["file"])
            s = open(fp).read()
            if s.count(e["old"]) != e.get("count", 1):
                return prop, "STALE (pattern occurs %d times)" % s.count(e["old"]), 0
            s = s.replace(e["old"], e["new"])
            open(fp, "w").write(s)
        tests_ok = None
        if tests:
            env = dict(os.environ, VERIF_REPO=d)
            r = subprocess.run(["sh", os.path.join(V, "tools", "baseline.sh")], stdout=subprocess.PIPE, stderr=subprocess.STDOUT, text=True, env=env)
            tests_ok = "100% tests passed" in r.stdout
        t0 = time.time()
        env = dict(os.environ, VERIF_REPO=d)
        r = subprocess.run([sys.executable, os.path.join(V, "verif.py"), "check", prop, "--tier", tier], stdout=subprocess.PIPE, stderr=subprocess.STDOUT, text=True, env=env, cwd=V)
        got = "violation" if r.returncode == 1 and "VIOLATION" in r.stdout else "pass" if r.returncode == 0 else "error(rc=%d)" % r.returncode
        verdict = "OK" if got == m.get("expect", "violation") else "MISMATCH"
        extra = "" if tests_ok is None else (" tests=" + ("pass" if tests_ok else "FAIL"))
        kinds = [l.strip() for l in r.stdout.split("\n") if "kind=" in l][:3]
        if got.startswith("error"):
            kinds = r.stdout[-1500:].split("\n")
        return prop, "%s expect=%s got=%s%s %s" % (verdict, m.get("expect", "violation"), got, extra, "; ".join(kinds)), time.time() - t0
    finally:
        shutil.rmtree(d, ignore_errors=True)
        alt = glob.glob(os.path.join(V, "build", "alt-*"))
        for a in alt:
            shutil.rmtree(a, ignore_errors=True)

def main():
    args = sys.argv[1:]
    tests = "--tests" in args
    tier = "quick"
    if "--tier" in args:
        tier = args[args.index("--tier") + 1]
    sel = [a for a in args if not a.startswith("--") and a != tier]
    files = []
    for a in sel or ["*"]:
        if a.endswith(".json"):
            files.append(a)
        else:
            files += sorted(glob.glob(os.path.join(V, "mutants", a, "*.json")))
    for f in files:
        prop, res, dt = run_one(f, tests, tier)
        print("%-4s %-40s %s (%.0fs)" % (prop, os.path.basename(f)[:-5], res, dt), flush=True)

if __name__ == "__main__":
    main()
