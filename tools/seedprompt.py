#!/usr/bin/env python3
"""Write the prompt for a seeding sub-agent (it gets the property text, a scratch worktree and short descriptions of the changes
other agents already produced for that property - nothing else from /verif).
  python3 tools/seedprompt.py <round> <prop>  ->  /tmp/seedprompt<round>-<prop>.txt ; worktree /tmp/seed<round>-<prop>"""
import sys, json, glob, os, re
V = os.path.dirname(os.path.dirname(os.path.abspath(__file__)))
rnd, pid = sys.argv[1], sys.argv[2]
d = [json.loads(l) for l in open(os.path.join(V, "properties.jsonl")) if json.loads(l)["id"] == pid][0]
wt = "/tmp/seed%s-%s" % (rnd, pid)
items = []
for m_ in sorted(glob.glob(os.path.join(V, "seeded", pid, "*", "meta.json"))):
    m = json.load(open(m_))
    files = sorted(set(re.findall(r"^\+\+\+ b/(\S+)", open(os.path.join(os.path.dirname(m_), "patch.diff")).read(), re.M)))
    items.append("- (%s) %s" % (", ".join(files), " ".join(m.get("needs_to_manifest", "").split())[:300]))
extra = sys.argv[3] if len(sys.argv) > 3 else ""
txt = f"""You are given a git worktree of the C++ library craflin/libnstd at {wt} (sources in include/nstd and src, unit tests in test/UnitTest, CMake build). Work ONLY inside {wt}. Do NOT read, list or modify /verif or /repo (they are off limits), and do not run `git worktree`, `git commit`, `git push` or `git stash` (the stash is shared with other worktrees; save your patch to a file instead). Do not leave background processes behind.

A semantic property of the library that is supposed to hold:

Property {pid}: {d['title']}

Statement: {d['statement']}

Quantifier: {d['quantifier']['text']}

Why the existing tests cannot settle it: {d['why_tests_cant']}

Files it is anchored in: {', '.join(d['anchors']['files'])}

{extra}

IMPORTANT - other people already produced the following changes for this property; yours must be DIFFERENT in kind and location from ALL of them (a different function, mechanism or clause of the property), and should be HARDER to expose (needs a rarer state, a longer history, a more specific interleaving, fault or input). Prefer parts of the anchored files and clauses of the statement that none of them touches, but stay INSIDE the statement and its quantifier: a change that only shows under conditions the statement does not speak about (re-entrant calls from element destructors, aliasing between output and input buffers, other build configurations of your own invention) does not count:
{chr(10).join(items)}
Also do not simply revert one of the recent "fix:" commits in the git history of the worktree.

YOUR TASK: produce TWO different, realistic source changes to the library (each one independent of the other, each applied to a clean tree) that BREAK this property while the library still compiles and the existing test suite still passes. Think of changes a maintainer could plausibly make by mistake: a refactoring that drops a step, an off-by-one, a reordered pair of statements, a "simplification", a missed case, two edits at cooperating sites that each look fine alone. The break must need something SPECIFIC to manifest - a particular interleaving, a fault at a particular point, a multi-step sequence of operations, an unusual input or configuration - and must NOT be exposed at once by ordinary use (a change that breaks every call is useless). Do not weaken or delete tests, do not add #ifdefs or dead flags, keep each change small (a few lines).

For each change k in (1, 2) deliver, under {wt}/out/ :
  - change<k>.diff : the patch, produced with `git diff` from the clean worktree (paths relative to the repository root, so that `git apply change<k>.diff` works in a clean checkout);
  - demo<k>.cpp    : a small self-contained demonstration program (plain C++, may include the library's headers and link the library; note that nstd/Base.hpp clashes with <new> and most C++ standard headers, C headers are fine; for schedule-dependent breaks it may use sleeps / retries / many iterations, or explain the exact interleaving if it cannot be forced) that exits 0 on the clean tree and non-zero (or crashes / hangs for more than 20 s) with the change;
  - demo<k>.sh     : a shell script that, run from the repository root of a tree (clean or changed), builds the library and the demo and runs it (use a build directory under the tree, e.g. _seedbuild; g++/clang++, cmake and ninja are available; no network). It must print PASS or FAIL and exit accordingly;
  - note<k>.txt    : 5-10 lines: what the change does, why it breaks the property, exactly what is needed for it to manifest, and why the existing tests do not notice.

VERIFY YOURSELF before reporting, for each change: (a) clean tree: `cmake -G Ninja -S . -B _b >/dev/null && cmake --build _b >/dev/null && ctest --test-dir _b -j8` passes all 34 tests and demo<k>.sh prints PASS; (b) with the change applied: everything still compiles, ctest still passes all 34 tests, and demo<k>.sh prints FAIL (or crashes/hangs). Then restore the worktree to the clean state (`git checkout -- . && git clean -fdq -e out`) so that only out/ remains. Remove build directories when done.

Final message: for each change one paragraph (file/function touched, what is needed to manifest, results of (a) and (b)). If you could only produce one valid change, say so.
"""
open("/tmp/seedprompt%s-%s.txt" % (rnd, pid), "w").write(txt)
print(wt)
