#!/usr/bin/env python3
"""Property-preserving changes written by sub-agents: every check that is anchored in a touched file must stay green.

  python3 tools/benign.py import <agent out dir> <prop>   confirm (applies, 34 tests pass), store under benign/<prop>/<k>/, run the checks
  python3 tools/benign.py run [<prop> ...]                re-run the checks against the stored changes
"""
import sys, os, json, glob, shutil, subprocess, tempfile, re, time
V = os.path.dirname(os.path.dirname(os.path.abspath(__file__)))
sys.path.insert(0, os.path.join(V, "tools"))
from seeded import sh, run_checks

def props_for(diff, own):
    files = set(re.findall(r"^\+\+\+ b/(\S+)", open(diff).read(), re.M))
    out = [own]
    for l in open(os.path.join(V, "properties.jsonl")):
        d = json.loads(l)
        if d["id"] != own and files & set(d["anchors"]["files"]):
            out.append(d["id"])
    return out, sorted(files)

def tests_pass(diff):
    d = tempfile.mkdtemp(prefix="nstd-benign-", dir="/var/tmp")
    try:
        sh("git -C /repo archive HEAD | tar -x -C %s" % d)
        rc, o = sh(["git", "apply", "--unsafe-paths", "--directory", d, diff], cwd="/")
        if rc: return "does not apply: " + o[-200:]
        rc, o = sh(["sh", os.path.join(V, "tools", "baseline.sh")], env=dict(os.environ, VERIF_REPO=d), timeout=900)
        return "pass" if "100% tests passed" in o else "FAIL " + o[-200:]
    finally:
        shutil.rmtree(d, ignore_errors=True)

def evaluate(dest, prop):
    diff = os.path.join(dest, "patch.diff")
    props, files = props_for(diff, prop)
    meta = json.load(open(os.path.join(dest, "meta.json")))
    only = os.environ.get("BENIGN_ONLY", "").split()   # re-run only these checks (after their harnesses changed), keep the other results
    if only:
        props = [p for p in props if p in only]
        if not props: return
    res = run_checks(diff, props)
    if only and isinstance(res, dict) and isinstance(meta.get("checks"), dict):
        merged = dict(meta["checks"]); merged.update(res); res_all = merged
    else:
        res_all = res
    meta["files"] = files; meta["checks"] = res_all
    json.dump(meta, open(os.path.join(dest, "meta.json"), "w"), indent=1)
    print(os.path.relpath(dest, V), {k: (v if "result" not in v else v["result"] + ((" " + ",".join(v["kinds"])[:120]) if v["kinds"] else "")) for k, v in res.items()} if isinstance(res, dict) else res, flush=True)

def do_import(outdir, prop):
    for k in (1, 2, 3, 4):
        diff = os.path.join(outdir, "change%d.diff" % k)
        if not os.path.exists(diff): continue
        t = tests_pass(diff)
        if t != "pass":
            print(prop, k, "REJECTED:", t, flush=True); continue
        dest = os.path.join(V, "benign", prop, str(k)); n = 1
        while os.path.exists(dest): n += 1; dest = os.path.join(V, "benign", prop, "%d_%d" % (k, n))
        os.makedirs(dest)
        shutil.copy(diff, os.path.join(dest, "patch.diff"))
        note = ""
        nf = os.path.join(outdir, "note%d.txt" % k)
        if os.path.exists(nf): note = open(nf).read(); shutil.copy(nf, os.path.join(dest, "note.txt"))
        json.dump({"property": prop, "origin": "independent sub-agent asked for a property-preserving change", "what": " ".join(note.split())[:600], "tests_with_change": "pass"}, open(os.path.join(dest, "meta.json"), "w"), indent=1)
        evaluate(dest, prop)

if __name__ == "__main__":
    if len(sys.argv) >= 4 and sys.argv[1] == "import": do_import(sys.argv[2], sys.argv[3])
    elif len(sys.argv) >= 2 and sys.argv[1] == "run":
        for d in sorted(glob.glob(os.path.join(V, "benign", "C*", "*"))):
            p = os.path.basename(os.path.dirname(d))
            if len(sys.argv) > 2 and p not in sys.argv[2:] and os.path.relpath(d, os.path.join(V, "benign")) not in sys.argv[2:]: continue
            evaluate(d, p)
