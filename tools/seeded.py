#!/usr/bin/env python3
"""Import and evaluate seeded changes written by independent sub-agents.

  python3 tools/seeded.py import <agent out dir> <prop>     confirm each change<k>.diff in a scratch worktree (compiles, 34 tests pass,
                                                            demo fails with it and passes without), store it under seeded/<prop>/<k>/,
                                                            run the property's quick check against a scratch copy with the change
  python3 tools/seeded.py run [<prop> ...]                  re-run the checks against every stored change, update meta.json
"""
import sys, os, json, glob, shutil, subprocess, tempfile, time
V = os.path.dirname(os.path.dirname(os.path.abspath(__file__)))

def sh(cmd, cwd=None, timeout=1800, env=None):
    try:
        r = subprocess.run(cmd, shell=isinstance(cmd, str), cwd=cwd, stdout=subprocess.PIPE, stderr=subprocess.STDOUT, text=True, errors="replace", timeout=timeout, env=env)
        return r.returncode, r.stdout
    except subprocess.TimeoutExpired as e:
        return 124, "timeout"

def confirm(diff, demo_sh, demo_dir):
    """Returns dict with the confirmation results."""
    wt = tempfile.mkdtemp(prefix="nstd-seedchk-", dir="/var/tmp")
    os.rmdir(wt)
    res = {}
    try:
        rc, out = sh(["git", "-C", "/repo", "worktree", "add", "--detach", "-q", wt, "HEAD"])
        if rc: return {"error": out}
        os.makedirs(os.path.join(wt, "out"), exist_ok=True)
        for f in glob.glob(os.path.join(demo_dir, "*")):
            shutil.copy(f, os.path.join(wt, "out"))
        rc, out = sh(["sh", "out/" + demo_sh], cwd=wt, timeout=600)
        res["demo_clean"] = "PASS" if rc == 0 else "FAIL(rc=%d)" % rc
        sh("rm -rf _seedbuild _b", cwd=wt)
        rc, out = sh(["git", "apply", diff], cwd=wt)
        res["applies"] = rc == 0
        if rc: res["apply_output"] = out[-500:]; return res
        env = dict(os.environ, VERIF_REPO=wt)
        rc, out = sh(["sh", os.path.join(V, "tools", "baseline.sh")], env=env, timeout=900)
        res["tests_with_change"] = "pass" if "100% tests passed" in out else "FAIL: " + out[-300:]
        rc, out = sh(["sh", "out/" + demo_sh], cwd=wt, timeout=600)
        res["demo_changed"] = "PASS" if rc == 0 else "FAIL(rc=%d)" % rc
    finally:
        sh(["git", "-C", "/repo", "worktree", "remove", "--force", wt])
        shutil.rmtree(wt, ignore_errors=True)
    return res

def run_checks(diff, props, tier="quick"):
    d = tempfile.mkdtemp(prefix="nstd-seedrun-", dir="/var/tmp")
    out = {}
    try:
        for sub in ("include", "src", "test", "CMakeLists.txt"):
            src = os.path.join("/repo", sub)
            (shutil.copytree if os.path.isdir(src) else shutil.copy)(src, os.path.join(d, sub) if os.path.isdir(src) else d)
        rc, o = sh(["git", "apply", "--unsafe-paths", "--directory", d, diff], cwd="/")
        if rc:
            rc, o = sh("patch -p1 -d %s < %s" % (d, diff))
            if rc: return {"error": "patch does not apply: " + o[-300:]}
        env = dict(os.environ, VERIF_REPO=d)
        for p in props:
            t0 = time.time()
            rc, o = sh([sys.executable, os.path.join(V, "verif.py"), "check", p, "--tier", tier], cwd=V, env=env, timeout=3600)
            kinds = sorted({l.split("kind=")[1].strip()[:80] for l in o.split("\n") if "kind=" in l and "part=" in l})
            out[p] = {"result": "violation" if rc == 1 and "VIOLATION" in o else "pass" if rc == 0 else "error rc=%d" % rc, "kinds": kinds[:4], "wall_s": round(time.time() - t0)}
            if out[p]["result"].startswith("error"): out[p]["tail"] = o[-400:]
    finally:
        shutil.rmtree(d, ignore_errors=True)
        import hashlib
        shutil.rmtree(os.path.join(V, "build", "alt-" + hashlib.sha1(d.encode()).hexdigest()[:8]), ignore_errors=True)   # (only this run's own output directory)
    return out

def do_import(outdir, prop):
    for k in (1, 2, 3):
        diff = os.path.join(outdir, "change%d.diff" % k)
        if not os.path.exists(diff): continue
        dest = os.path.join(V, "seeded", prop, str(k))
        n = 1
        while os.path.exists(dest): n += 1; dest = os.path.join(V, "seeded", prop, "%d_%d" % (k, n))
        c = confirm(diff, "demo%d.sh" % k, outdir)
        ok = c.get("demo_clean") == "PASS" and c.get("applies") and c.get("tests_with_change") == "pass" and str(c.get("demo_changed", "")).startswith("FAIL")
        print(prop, k, "confirmed" if ok else "REJECTED", c, flush=True)
        if not ok: continue
        os.makedirs(dest)
        shutil.copy(diff, os.path.join(dest, "patch.diff"))
        for ext in ("cpp", "sh"):
            f = os.path.join(outdir, "demo%d.%s" % (k, ext))
            if os.path.exists(f): shutil.copy(f, os.path.join(dest, "demo." + ext))
        note = ""
        nf = os.path.join(outdir, "note%d.txt" % k)
        if os.path.exists(nf): note = open(nf).read(); shutil.copy(nf, os.path.join(dest, "note.txt"))
        r = run_checks(os.path.join(dest, "patch.diff"), [prop])
        meta = {"property": prop, "origin": "independent sub-agent given only the property text and a scratch worktree", "needs_to_manifest": note.strip()[:1500],
                "confirmed": c, "what_i_ran": "tools/seeded.py import: demo on clean worktree (PASS), git apply, tools/baseline.sh (34 tests pass), demo with the change (FAIL); then 'verif.py check %s --tier quick' with VERIF_REPO pointing to a copy of /repo with the patch" % prop,
                "checks": r}
        json.dump(meta, open(os.path.join(dest, "meta.json"), "w"), indent=1)
        print(prop, k, "check:", r, flush=True)

def do_run(props):
    for mf in sorted(glob.glob(os.path.join(V, "seeded", "*", "*", "meta.json"))):
        meta = json.load(open(mf))
        rel_ = os.path.relpath(os.path.dirname(mf), os.path.join(V, "seeded"))
        if props and meta["property"] not in props and rel_ not in props: continue
        extra = meta.get("also_run", [])
        r = run_checks(os.path.join(os.path.dirname(mf), "patch.diff"), [meta["property"]] + extra)
        meta["checks"] = r
        json.dump(meta, open(mf, "w"), indent=1)
        print(os.path.relpath(os.path.dirname(mf), V), r, flush=True)

if __name__ == "__main__":
    if len(sys.argv) >= 4 and sys.argv[1] == "import": do_import(sys.argv[2], sys.argv[3])
    elif len(sys.argv) >= 2 and sys.argv[1] == "run": do_run(sys.argv[2:])
    else: print(__doc__)
