#!/usr/bin/env python3
"""Prompt for a sub-agent that writes property-PRESERVING changes (to test the checks for false alarms).
  python3 tools/benignprompt.py <prop>  ->  /tmp/benignprompt-<prop>.txt ; worktree /tmp/benign-<prop>"""
import sys, json, os
V = os.path.dirname(os.path.dirname(os.path.abspath(__file__)))
pid = sys.argv[1]
EXTRA = ""
if len(sys.argv) > 2 and sys.argv[2] == "bold":
    EXTRA = """This is a SECOND round: other people already delivered mild refactorings (extracted helpers, block sizes, hashing once instead of twice, cast modernisation). Be BOLDER while staying strictly behaviour-preserving. Wanted now, for example: renaming or re-organising PRIVATE members, private nested types and file-local helpers (also ones that look central, like a tree's root pointer, a pool's free list, a queue's head/tail, a thread pool's worker list); replacing one system or library call by an equivalent one (pipe+fcntl by pipe2, usleep by nanosleep, clock ids, memcpy by Memory::copy or loops, sprintf variants, strtol variants with identical results, sem_timedwait by sem_clockwait, eventfd helpers); choosing a different private data structure or layout where the public behaviour is identical (array instead of linked free list, index instead of pointer, merged or split private structs, a flag packed differently); changing internal constants, initial capacities, growth and shrink policies, spin counts, idle timeouts; reordering independent member declarations. Each change should alter 15-60 lines.
"""
d = [json.loads(l) for l in open(os.path.join(V, "properties.jsonl")) if json.loads(l)["id"] == pid][0]
wt = "/tmp/benign-%s" % pid
txt = f"""You are given a git worktree of the C++ library craflin/libnstd at {wt} (sources in include/nstd and src, unit tests in test/UnitTest, CMake build). Work ONLY inside {wt}. Do NOT read, list or modify /verif or /repo (they are off limits), and do not run `git worktree`, `git commit`, `git push` or `git stash`. Do not leave background processes behind.

A semantic property of the library that holds on this tree and must KEEP holding:

Property {pid}: {d['title']}

Statement: {d['statement']}

Quantifier: {d['quantifier']['text']}

Files it is anchored in: {', '.join(d['anchors']['files'])}

YOUR TASK: produce THREE different, realistic source changes to the library that a maintainer could commit and that PRESERVE this property (and every other documented behaviour) - each one independent of the others, each applied to a clean tree. They are meant to check that a verification harness for this property does not raise false alarms on legitimate changes, so make them touch the code paths the property is about and vary their kind. Examples of the kinds wanted (pick different kinds for the three changes):
  - an internal refactoring: renamed private members / local variables / helper functions, a loop rewritten in an equivalent form, a helper extracted or inlined, statements reordered where the order does not matter;
  - a different but equally valid internal policy: growth factor or initial capacity of a buffer, allocation block size of a pool, hash function constants or bucket count defaults, the order in which independent internal bookkeeping is updated, retry/back-off details, internal buffer sizes;
  - a performance tweak or clean-up that changes the allocation pattern, the number of internal comparisons (within the documented bounds), the addresses that get reused, or the timing, but no observable result that the documentation or the statement above promises;
  - tightened internal assertions, added const / noexcept-free qualifiers, replaced macros by inline functions, modernised casts.
{EXTRA}Do NOT change any public signature, documented result, error reporting, or anything the statement above promises; do not make comment-only or whitespace-only changes; each change should alter between a few and about 40 lines of real code.

For each change k in (1, 2, 3) deliver, under {wt}/out/ :
  - change<k>.diff : the patch, produced with `git diff` from the clean worktree (so that `git apply change<k>.diff` works in a clean checkout);
  - note<k>.txt    : 3-8 lines: what the change does, which kind it is, and why every documented behaviour (in particular the property above) is unchanged.

VERIFY YOURSELF before reporting, for each change: with the change applied everything compiles and `cmake -G Ninja -S . -B _b >/dev/null && cmake --build _b >/dev/null && ctest --test-dir _b -j8` passes all 34 tests; write a small throw-away program if you want to convince yourself that behaviour is unchanged. Then restore the worktree to the clean state (`git checkout -- . && git clean -fdq -e out`) so that only out/ remains. Remove build directories when done.

Final message: for each change one short paragraph (file/function touched, kind, why behaviour is preserved).
"""
open("/tmp/benignprompt-%s.txt" % pid, "w").write(txt.replace("{EXTRA}", EXTRA))
print(wt)
