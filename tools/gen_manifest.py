#!/usr/bin/env python3
"""Regenerates MANIFEST.json from props.py (claimed checks) and properties.jsonl (everything else -> not_applicable)."""
import json, os, sys
V = os.path.dirname(os.path.dirname(os.path.abspath(__file__)))
sys.path.insert(0, V)
import props
ids = [json.loads(l)["id"] for l in open(os.path.join(V, "properties.jsonl")) if l.strip()]
fixes = []
kf = os.path.join(V, "known_findings.json")
checks = []
UNFINISHED = set(getattr(props, "UNFINISHED", ()))
for pid in ids:
    if pid not in props.PROPS or pid in UNFINISHED:
        continue
    s = props.PROPS[pid]
    checks.append({
        "property_id": pid,
        "quick_cmd": "python3 verif.py check %s --tier quick" % pid,
        "thorough_cmd": "python3 verif.py check %s --tier thorough" % pid,
        "evidence_file": "/verif/evidence/%s.json" % pid,
        "replay_cmd_template": "python3 verif.py replay {path}",
        "engine": s.get("engine", "opfuzz"),
        "level_claimed": {"category": s["level"], "text": s["level_text"], "design_ref": s.get("design_ref", "DESIGN.md section 5, " + pid)},
        "level_note": s["level_note"],
        "technique": s["technique"],
    })
na = [{"property_id": pid, "reason": props.NOT_YET.get(pid, "check not built yet in this session; no claim is made")} for pid in ids if pid not in props.PROPS or pid in UNFINISHED]
m = {
    "version": 1,
    "setup_cmd": "python3 verif.py setup",
    "hooks": {
        "guard": "CRAFLIN_LIBNSTD_VERIF",
        "enable": "not needed: checks compile /repo sources unmodified with sanitizer / TSan-callback instrumentation, -Wl,--wrap interposition and a derived Base.hpp shim; the guard is reserved and unused",
        "baseline_off_cmd": "sh tools/baseline.sh",
        "source_commits": [],
        "add_only": True,
    },
    "engines": props.ENGINES,
    "checks": checks,
    "not_applicable": na,
    "notes": "Property-based testing and fuzzing only. Genuine defects found are repaired by 'fix:' commits in /repo and listed in known_findings.json; see DESIGN.md section 4.",
}
json.dump(m, open(os.path.join(V, "MANIFEST.json"), "w"), indent=1)
print("MANIFEST.json: %d checks, %d not claimed" % (len(checks), len(na)))
