#!/bin/sh
# Runs the repository's own test suite (guard off: no verification define is used anywhere) in a scratch build directory.
set -e
D=$(mktemp -d /var/tmp/nstd-baseline.XXXXXX)
trap 'rm -rf "$D"' EXIT
cmake -G Ninja -S "${VERIF_REPO:-/repo}" -B "$D" >/dev/null
cmake --build "$D" >/dev/null
ctest --test-dir "$D" -j8 --timeout 900 2>&1 | tail -45
