#!/usr/bin/env python3
"""Print the markdown table of DESIGN.md 0.6 from seeded/*/*/meta.json (round 1: <k>, round 2: <k>_2 or the free <k>)."""
import os, json, glob, re
V = os.path.dirname(os.path.dirname(os.path.abspath(__file__)))
rows = []
for d in sorted(glob.glob(os.path.join(V, "seeded", "C*", "*"))):
    mp = os.path.join(d, "meta.json")
    if not os.path.exists(mp): continue
    m = json.load(open(mp))
    files = sorted(set(os.path.basename(x) for x in re.findall(r"^\+\+\+ b/(\S+)", open(os.path.join(d, "patch.diff")).read(), re.M)))
    note = " ".join(m.get("needs_to_manifest", "").split())[:170].replace("|", "/")
    res = []
    for p, r in sorted(m.get("checks", {}).items()):
        if not isinstance(r, dict): res.append("%s: %s" % (p, str(r)[:60])); continue
        kinds = ", ".join(k[:40] for k in r.get("kinds", [])[:3])
        res.append("%s: %s%s" % (p, r["result"], " (" + kinds + ")" if kinds else ""))
    rows.append("| `%s` | %s | %s | %s |" % (os.path.relpath(d, V), ", ".join(files), note, "; ".join(res)))
print("| change | touches | what it is (start of the author's note) | result of the quick check(s) |")
print("|---|---|---|---|")
print("\n".join(rows))
