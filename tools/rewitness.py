#!/usr/bin/env python3
"""Keep schedule-dependent witnesses alive across changes of the deterministic scheduler.

A witness of a vsched part (C09 threads, C10, C11, C14 interrupt) names its schedules through "#param sched <n>" (the harness derives
the scheduler seeds of the 40 replay schedules from it).  When vsched itself changes - new decision points, other sampling - the
same numbers denote other schedules and a witness may stop failing on the defective code.  This development-time tool reverts the
fix commit of the witness in a scratch copy of /repo, checks whether the witness still fails there, and if not searches other
values of the "sched" parameter (in parallel) until it does, then rewrites the witness.  The registered checks never call it.

  python3 tools/rewitness.py <fix commit | mutant.json> <regress/.../witness.case> [--tries N] [--param sched]
"""
import sys, os, json, re, shutil, subprocess, tempfile
from concurrent.futures import ThreadPoolExecutor
V = os.path.dirname(os.path.dirname(os.path.abspath(__file__)))


def main():
    args = sys.argv[1:]
    tries, pname = 4000, "sched"
    pos = []
    while args:
        a = args.pop(0)
        if a == "--tries": tries = int(args.pop(0))
        elif a == "--param": pname = args.pop(0)
        else: pos.append(a)
    what, wit = pos
    wit = os.path.abspath(wit)
    d = tempfile.mkdtemp(prefix="nstd-rewit-", dir="/var/tmp")
    try:
        for sub in ("include", "src", "test", "CMakeLists.txt"):
            src = os.path.join("/repo", sub)
            (shutil.copytree if os.path.isdir(src) else shutil.copy)(src, os.path.join(d, sub) if os.path.isdir(src) else d)
        if what.endswith(".json"):
            m = json.load(open(what))
            for e in (m["edits"] if "edits" in m else [m]):
                fp = os.path.join(d, e["file"]); s = open(fp).read()
                assert s.count(e["old"]) == e.get("count", 1), "stale mutant"
                open(fp, "w").write(s.replace(e["old"], e["new"]))
        else:
            diff = subprocess.run(["git", "-C", "/repo", "show", what, "--", "include", "src"], stdout=subprocess.PIPE, text=True).stdout
            r = subprocess.run(["patch", "-R", "-p1", "-s", "-d", d], input=diff, text=True)
            assert r.returncode == 0, "the fix cannot be reverted"
        os.environ["VERIF_REPO"] = d
        sys.path.insert(0, V)
        import verif
        from props import PROPS
        text = open(wit).read()
        prop = re.search(r"^#prop (\S+)", text, re.M).group(1); pn = re.search(r"^#part (\S+)", text, re.M).group(1)
        part = [p for p in PROPS[prop]["parts"] if p["name"] == pn][0]
        binary = verif.part_binary(prop, part) if hasattr(verif, "part_binary") else verif.part_binary_(prop, part)
        pargs = verif.part_args(prop, part)

        def attempt(val):
            t = text if val is None else re.sub(r"^#param %s .*$" % pname, "#param %s %d" % (pname, val), text, flags=re.M)
            wd = tempfile.mkdtemp(prefix="w", dir=d)
            try:
                failed, kind, out = verif.replay_case(binary, t, wd, extra_args=pargs)
            finally:
                shutil.rmtree(wd, ignore_errors=True)
            return val, failed, kind, t, out

        _, failed, kind, _, _ = attempt(None)
        if failed:
            print("witness still fails on the defective code (%s): nothing to do" % kind); return 0
        if not re.search(r"^#param %s " % pname, text, re.M):
            print("witness has no '#param %s' and passes on the defective code" % pname); return 1
        base = int(re.search(r"^#param %s (-?\d+)" % pname, text, re.M).group(1))
        with ThreadPoolExecutor(max_workers=16) as ex:
            for val, failed, kind, t, out in ex.map(attempt, [base + 1 + k for k in range(tries)]):
                if failed and kind != "timeout":
                    m = re.search(r"^FAIL .*$", out, re.M)
                    if m: t = re.sub(r"^#detail .*$", lambda _: "#detail " + m.group(0)[:400], t, flags=re.M)
                    t = re.sub(r"^#kind .*$", "#kind " + kind, t, flags=re.M)
                    open(wit, "w").write(t)
                    print("rewritten: %s = %d fails on the defective code (%s)" % (pname, val, kind))
                    ex.shutdown(wait=False, cancel_futures=True)
                    return 0
        print("no failing value found in %d tries" % tries); return 1
    finally:
        shutil.rmtree(d, ignore_errors=True)
        import hashlib
        shutil.rmtree(os.path.join(V, "build", "alt-" + hashlib.sha1(d.encode()).hexdigest()[:8]), ignore_errors=True)


sys.exit(main())
