#!/usr/bin/env python3
"""Generator health: which lines of the files a property is anchored in does its generation tier actually execute?

Development-time tool (the registered checks never call it).  Every opfuzz / libFuzzer part of the property is rebuilt from
the current tree with clang source-based coverage on top of its normal instrumentation, run for a small budget, and the merged
profile is reported for the files listed in the property's anchors: per file the line coverage and the uncovered line ranges.
A range that stays uncovered inside the mechanism of a property is a generator gap (or dead code) and is looked at by hand.

  python3 tools/coverage.py [--cases N] [--out DIR] <prop> ...
"""
import sys, os, json, subprocess, shutil, tempfile, re
V = os.path.dirname(os.path.dirname(os.path.abspath(__file__)))
sys.path.insert(0, V)
import verif
from props import PROPS

COV = ["-fprofile-instr-generate", "-fcoverage-mapping", "-DVERIF_COVERAGE"]
for f in ("asan", "sched", "fuzz"):
    # (with -fsanitize=thread clang updates the counters atomically, which would turn every counter into a decision point of vsched)
    verif.FLAVOURS[f + "cov"] = verif.FLAVOURS[f] + COV + (["-fprofile-update=single"] if f == "sched" else [])
    verif.LINK[f + "cov"] = verif.LINK[f] + ["-fprofile-instr-generate"]


def anchors(prop):
    for l in open(os.path.join(V, "properties.jsonl")):
        p = json.loads(l)
        if p["id"] == prop:
            return p["anchors"]["files"]
    return []


def main():
    args = sys.argv[1:]
    cases = 3000
    outdir = None
    props = []
    while args:
        a = args.pop(0)
        if a == "--cases":
            cases = int(args.pop(0))
        elif a == "--out":
            outdir = args.pop(0)
        else:
            props.append(a)
    for prop in props:
        work = tempfile.mkdtemp(prefix="nstd-cov-", dir="/var/tmp")
        try:
            bins = []
            for part in PROPS[prop]["parts"]:
                if part["kind"] not in ("opfuzz", "libfuzzer") or part.get("flavour", "asan").endswith("rel"):
                    continue
                p2 = dict(part)
                p2["bin"] = part.get("bin", "%s_%s" % (prop, part["name"])) + "_cov"
                if part["kind"] == "libfuzzer":
                    b = verif.build_bin(p2["bin"], part["sources"], "fuzzcov", part.get("cflags", ()), part.get("ldflags", ()), deps=part.get("deps", ()))
                else:
                    p2["flavour"] = part.get("flavour", "asan") + "cov"
                    b = verif.part_binary_(prop, p2)
                bins.append(b)
                d = os.path.join(work, part["name"])
                os.makedirs(d)
                env = verif.env_with()
                env["LLVM_PROFILE_FILE"] = os.path.join(work, "p-%s-%%4m.profraw" % part["name"])
                if part["kind"] == "libfuzzer":
                    seeds = os.path.join(V, "corpus", prop, part["name"])
                    cmd = [b, "-runs=%d" % (cases * 20), "-max_len=%d" % part.get("max_len", 256), "-seed=1", d] + ([seeds] if os.path.isdir(seeds) else [])
                else:
                    n = cases if not part.get("flavour", "").startswith("sched") else max(100, cases // 10)
                    cmd = [b, "--seed", "1", "--w", "0", "--W", "1", "--cases", str(n), "--maxsize", str(part["tiers"]["quick"].get("maxsize", 40)), "--out", d, "--time", "300"] + verif.part_args(prop, part)
                r = subprocess.run(cmd, env=env, cwd=d, stdout=subprocess.PIPE, stderr=subprocess.STDOUT)
                print("[cov] %s/%s rc=%d" % (prop, part["name"], r.returncode), file=sys.stderr)
                if r.returncode:
                    print(r.stdout.decode(errors="replace")[-1500:], file=sys.stderr)
                    fc = os.path.join(d, "fail.case")
                    if os.path.exists(fc): print(open(fc).read()[:600], file=sys.stderr)
            raws = [os.path.join(work, f) for f in os.listdir(work) if f.endswith(".profraw")]
            if not raws:
                print("%s: no profile written" % prop)
                continue
            prof = os.path.join(work, "all.profdata")
            subprocess.check_call(["llvm-profdata-14", "merge", "-sparse", "-o", prof] + raws)
            files = [os.path.join(verif.REPO, f) for f in anchors(prop)]
            objs = []
            for b in bins[1:]:
                objs += ["-object", b]
            per = {}
            for cur in files:
                rep = subprocess.run(["llvm-cov-14", "show", bins[0]] + objs + ["-instr-profile=" + prof, "-show-line-counts-or-regions=0", "-show-expansions=0", "-show-instantiations=0", cur], stdout=subprocess.PIPE, stderr=subprocess.DEVNULL, text=True).stdout
                st = {"cov": 0, "unc": []}
                prevsrc = ""
                for ln in rep.splitlines():
                    m = re.match(r"^\s*(\d+)\|\s*([0-9.kMGE]*)\|(.*)$", ln)
                    if m:
                        no, cnt, src = int(m.group(1)), m.group(2), m.group(3)
                        if cnt == "":
                            if src.strip():
                                prevsrc = src
                            continue
                        if cnt == "0" and ("ASSERT(" in prevsrc or "VERIFY(" in src):
                            pass    # artefact: the statement after an ASSERT (a macro that ends in a conditional) starts a region that llvm-cov reports with the count of the macro's failure branch
                        elif cnt == "0":
                            st["unc"].append((no, src))
                        else:
                            st["cov"] += 1
                        prevsrc = src
                if st["cov"] or st["unc"]:
                    per[cur] = st
            out = []
            for f in files:
                st = per.get(f)
                if not st:
                    out.append("%s: not instrumented in any part" % os.path.relpath(f, verif.REPO))
                    continue
                tot = st["cov"] + len(st["unc"])
                out.append("%s: %d/%d lines executed" % (os.path.relpath(f, verif.REPO), st["cov"], tot))
                # group uncovered lines into ranges
                rng = []
                for no, src in st["unc"]:
                    if rng and no == rng[-1][1] + 1:
                        rng[-1][1] = no
                    else:
                        rng.append([no, no, src.strip()])
                for a, b, src in rng:
                    out.append("    %d-%d  %s" % (a, b, src[:110]))
            txt = "\n".join(out)
            print("== %s" % prop)
            print(txt)
            if outdir:
                os.makedirs(outdir, exist_ok=True)
                open(os.path.join(outdir, prop + ".txt"), "w").write(txt + "\n")
        finally:
            shutil.rmtree(work, ignore_errors=True)
            for b in bins:
                if os.path.basename(b).startswith("bin-") and os.path.isfile(b):
                    os.unlink(b)


main()
for d in os.listdir(verif.BUILD):
    if re.match(r"lib-(asan|sched|fuzz)cov-", d):
        shutil.rmtree(os.path.join(verif.BUILD, d), ignore_errors=True)
