"""C18 custom part: text codecs and numeric conversions judged with Python's codecs / int / base64."""
import base64, os, random, subprocess, hashlib, glob, shutil

def binary(api):
    return api.build_bin("C18_codec", ["harness/c18_codec.cpp"], "asan")

def setup(prop, part, api):
    binary(api)

def unhex(h):
    return b"" if h == "-" else bytes.fromhex(h)

def utf8(cp):
    return chr(cp).encode("utf-8", "surrogatepass")

def run_cmd(api, args, timeout=1800):
    return subprocess.run(args, stdout=subprocess.PIPE, stderr=subprocess.PIPE, text=True, errors="replace", env=api.env_with(), timeout=timeout)

def fail(api, prop, res, name, text, kind):
    d = os.path.join(api.OUTDIR, "failures", prop)
    os.makedirs(d, exist_ok=True)
    path = os.path.join(d, "codec-%s-%s.rec" % (name, hashlib.sha1(text.encode()).hexdigest()[:8]))
    with open(path, "w") as f:
        f.write("#prop C18\n#part codec\n#kind %s\n%s\n" % (kind, text))
    res["violations"].append({"path": path, "kind": kind})

def check_b64(api, b, pairs, wd):
    inp = os.path.join(wd, "b64.txt")
    with open(inp, "w") as f:
        for enc, raw in pairs:
            f.write("%s %s\n" % (enc or "-", raw.hex() or "-"))
    r = run_cmd(api, [b, "b64", inp])
    out = [l.split() for l in r.stdout.split("\n") if l.startswith("B ")]
    bad = None
    for (enc, raw), rec in zip(pairs, out):
        if len(rec) < 3:
            continue
        if unhex(rec[2]) != raw and bad is None:
            bad = "B %s  # decoded %s expected %s" % (enc or "-", rec[2], raw.hex() or "-")
    mm = [l for l in r.stdout.split("\n") if l.startswith("MISMATCH")]
    if mm and bad is None:
        bad = "B # " + mm[0]
    if len(out) != len(pairs) or r.returncode != 0:
        bad = bad or ("B # decoder run ended early (rc=%d): %s" % (r.returncode, r.stderr[-1500:].replace("\n", " | ")))
    return len(out), bad

def run(prop, part, tier, seed, cfg, findings, api):
    b = binary(api)
    wd = api.scratch_dir("C18")
    res = {"evaluations": 0, "distinct_nontrivial": 0, "samples": [], "violations": [], "detail": {}, "inconclusive": []}
    thorough = tier == "thorough"
    det = {}
    for rp in sorted(glob.glob(os.path.join(api.VERIF, "regress", prop, "codec-*.rec"))):
        if replay(prop, part, rp, api, quiet=True) != 0:
            res["violations"].append({"path": rp, "kind": "regression"})
    # ---- all code points
    r = run_cmd(api, [b, "unicode"])
    n = 0; multi = 0; bad = None
    for l in r.stdout.split("\n"):
        p = l.split()
        if not p:
            continue
        if (p[0] == "U" and len(p) < 6) or (p[0] == "F" and len(p) < 4):
            continue   # a record cut short by a crash of the enumerator (reported through its exit status below)
        if p[0] == "U":
            cp = int(p[1]); n += 1
            if cp <= 0x10FFFF:
                ok = unhex(p[2]) == utf8(cp) and int(p[3]) == cp and int(p[4]) == len(utf8(cp)) and p[5] == "1"
                if cp >= 0x80:
                    multi += 1
            else:
                ok = p[2] == "-"
            if not ok and bad is None:
                bad = l
        elif p[0] == "F":
            if (p[2] != "-" or p[3] != "0") and bad is None:
                bad = l
    if r.returncode != 0 and bad is None:
        bad = "U # enumerator crashed: " + r.stderr[-1500:].replace("\n", " | ")
    if bad:
        fail(api, prop, res, "unicode", bad, "unicode-mismatch")
    det["code_points_checked"] = n
    res["evaluations"] += n; nt = multi
    res["samples"].append("U 8364 e282ac 8364 3 1")
    # ---- decoders on all short byte strings (exactly sized blocks, ASan)
    maxlen = 3 if thorough else 2
    r = run_cmd(api, [b, "decoders", str(maxlen)])
    if r.returncode != 0 or "MISMATCH" in r.stdout:
        fail(api, prop, res, "decoders", "D %d # %s %s" % (maxlen, r.stdout[-300:].replace("\n", " | "), r.stderr[-1500:].replace("\n", " | ")), "decoder-bounds-or-mismatch")
    else:
        import re
        m = re.search(r"total=(\d+) valid=(\d+) multibyte_lead=(\d+) truncated_tail=(\d+)", r.stdout)
        if m:
            res["evaluations"] += int(m.group(1)); nt += int(m.group(3))
            det["decoder_inputs"] = {"all byte strings up to length": maxlen, "total": int(m.group(1)), "valid": int(m.group(2)), "multibyte_lead": int(m.group(3)), "truncated_tail": int(m.group(4))}
    # ---- integers
    r = run_cmd(api, [b, "numbers", str(seed), str(300000 if thorough else 40000)])
    cnt = 0; bad = None; RNG = {"int": (-2**31, 2**31 - 1), "uint": (0, 2**32 - 1), "int64": (-2**63, 2**63 - 1), "uint64": (0, 2**64 - 1)}
    for l in r.stdout.split("\n"):
        p = l.split()
        if len(p) == 5 and p[0] == "I":
            cnt += 1
            try:
                ok = int(p[2]) == int(p[3]) and str(int(p[2])) == p[2] and p[4] == "1" and RNG[p[1]][0] <= int(p[2]) <= RNG[p[1]][1]
            except ValueError:
                ok = False
            if not ok and bad is None:
                bad = l
            if len(p[2]) >= 10:
                nt += 1
    mm = [l for l in r.stdout.split("\n") if l.startswith("MISMATCH")]
    if mm and bad is None:
        bad = "I # " + mm[0]
    if r.returncode != 0 and bad is None:
        bad = "I # crashed: " + r.stderr[-1500:].replace("\n", " | ")
    if bad:
        fail(api, prop, res, "numbers", bad, "integer-conversion-mismatch")
    res["evaluations"] += cnt; det["integer_records"] = cnt
    res["samples"].append("I int64 -9223372036854775808 -9223372036854775808 1")
    # ---- hex
    r = run_cmd(api, [b, "hex", str(seed), str(20000 if thorough else 3000)])
    cnt = 0; bad = None
    for l in r.stdout.split("\n"):
        p = l.split()
        if len(p) == 3 and p[0] == "X":
            cnt += 1
            if (unhex(p[1]).hex().upper() or "-") != p[2] and bad is None:
                bad = l
    if r.returncode != 0 and bad is None:
        bad = "X # crashed: " + r.stderr[-1500:].replace("\n", " | ")
    if bad:
        fail(api, prop, res, "hex", bad, "fromHex-mismatch")
    res["evaluations"] += cnt; det["hex_records"] = cnt
    # ---- base64: RFC 4648 encodings of all byte strings of length 0..2 and random ones up to 300
    rng = random.Random(seed)
    pairs = [(base64.b64encode(bytes(x)).decode(), bytes(x)) for x in [[]] + [[a] for a in range(256)] + [[a, b2] for a in range(256) for b2 in range(256)]]
    for _ in range(20000 if thorough else 3000):
        raw = bytes(rng.getrandbits(8) for _ in range(rng.randrange(0, 301)))
        pairs.append((base64.b64encode(raw).decode(), raw))
    cnt, bad = check_b64(api, b, pairs, wd)
    if bad:
        fail(api, prop, res, "base64", bad, "fromBase64-mismatch")
    res["evaluations"] += cnt; det["base64_valid_encodings"] = cnt; nt += sum(1 for e, _ in pairs if e.endswith("="))
    res["samples"].append("B " + pairs[300][0] + " " + pairs[300][1].hex())
    # ---- base64 on everything else: no out-of-bounds access
    r = run_cmd(api, [b, "b64junk", str(seed), str(400000 if thorough else 40000)])
    import re
    m = re.search(r"total=(\d+) decoded_nonempty=(\d+) with_high_bytes=(\d+)", r.stdout)
    if r.returncode != 0 or not m:
        txt = r.stderr[-2500:]
        mm = re.search(r"(runtime error: [^\n]*|ERROR: AddressSanitizer: [^\n]*)", txt)
        fail(api, prop, res, "base64junk", "J %d # %s" % (seed, (mm.group(1) if mm else txt.replace("\n", " | "))), "fromBase64-out-of-bounds")
        api.log(txt)
    else:
        res["evaluations"] += int(m.group(1)); nt += int(m.group(3))
        det["base64_other_inputs"] = {"total": int(m.group(1)), "decoded_nonempty": int(m.group(2)), "with_bytes>=0x80": int(m.group(3))}
    res["distinct_nontrivial"] = nt
    det["exhaustive_subspaces"] = ["all code points 0..0x10FFFF", "all byte strings of length <= %d" % maxlen, "all RFC 4648 encodings of byte strings of length <= 2", "all strings of length 4 over a 40 symbol alphabet"]
    res["detail"] = det
    shutil.rmtree(wd, ignore_errors=True)
    return res

def replay(prop, part, path, api, quiet=False):
    b = binary(api)
    rec = None
    for l in open(path):
        if l.strip() and not l.startswith("#"):
            rec = l.split("#")[0].split()
    if not rec:
        return 2
    ok = True
    k = rec[0]
    wd = api.scratch_dir("C18r")
    if k == "B":
        enc = "" if rec[1] == "-" else rec[1]
        try:
            raw = base64.b64decode(enc, validate=True)
            cnt, bad = check_b64(api, b, [(enc, raw)], wd)
            ok = bad is None
        except Exception:
            inp = os.path.join(wd, "one.txt"); open(inp, "w").write("%s -\n" % (enc or "-"))
            ok = run_cmd(api, [b, "b64", inp]).returncode == 0
    elif k == "J":
        ok = run_cmd(api, [b, "b64junk", rec[1] if len(rec) > 1 else "1", "40000"]).returncode == 0
    elif k == "D":
        r = run_cmd(api, [b, "decoders", rec[1] if len(rec) > 1 else "2"]); ok = r.returncode == 0 and "MISMATCH" not in r.stdout
    else:
        r = run(prop, part, "quick", 1, {}, [], api); ok = not r["violations"]
    shutil.rmtree(wd, ignore_errors=True)
    if not quiet and not ok:
        print("VIOLATION property=%s replay=%s" % (prop, path))
    return 0 if ok else 1
